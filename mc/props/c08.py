"""C08 - functional, convex conjugate and their proximals are mutually consistent.

State = functional (class x options | derived; depth <= 2) x space.  Inside a state, with
V^n the point alphabet (small scope):
 (1) Fenchel-Young  f(x) + f*(y) >= <x, y>_W  on ALL pairs (x, y) of V^n x V^n (library values,
     +inf arithmetic)
 (2) equality at y = grad f(x) on all admissible x (registry: interior of differentiability)
 (3) f** takes the values of f on V^n (when the library can evaluate it)
 (4) Moreau: prox_{s f}(x) + s prox_{f*/s}(x/s) = x for s in {1/2, 2}, all x, when both exist
 (5) f*(y) equals the documented closed form (reference conjugate table) on V^n, and
     f*(y) >= sup over the lattice of <z, y>_W - f_ref(z)  (lower bound, independent of the table)
Infinite values must agree away from a 1e-9 band around the boundary of the effective domain.
"""
import itertools

import numpy as np
import odl

from mc import spaces as S
from mc.registry import functionals as FR
from mc.registry import derived as DV

PROPERTY = 'C08'
BUDGET = {'quick': 1500, 'thorough': 5400}
INF = float('inf')
QUICK_SPACES = ('rn2x2', 'pw_rn2_2_c', 'pw_rn2_1_c', 'rn3', 'ud3', 'rn3w2', 'rn3wa', 'pw_rn2_2', 'pw_ud2_2', 'nest_rn1_2x2',
                'pr_rn2_rn2_w', 'rn2')
DER_BASES = ['L1Norm', 'L2NormSquared', 'L2Norm', 'KullbackLeibler', 'IndicatorBox', 'Huber',
             'IndicatorLpUnitBall', 'KullbackLeiblerCrossEntropy', 'GroupL1Norm',
             'KullbackLeiblerConvexConj', 'IndicatorZero', 'ConstantFunctional']
DER_KINDS = ['translated', 'leftscal', 'leftscal_half', 'rightscal', 'rightscal_neg', 'quadpert_a0', 'scalarsum',
             'rightvec', 'quadpert', 'quadpert_c']


def configs(tier):
    thorough = tier == 'thorough'
    cfgs = []
    for spec in FR.SPECS:
        for sp in spec.spaces:
            if not thorough and sp not in QUICK_SPACES:
                continue
            for o in spec.opts:
                cfgs.append({'kind': 'spec', 'name': spec.name, 'space': sp, 'opt': o})
    for kd in DER_KINDS:
        for b in DER_BASES:
            spec = FR.BY_NAME[b]
            sps = [s for s in (['rn3', 'ud3', 'rn3wa', 'pw_rn2_2'] if not thorough else
                               ['rn3', 'ud3', 'rn3wa', 'rn3w2', 'ud3b', 'pw_rn2_2', 'pw_ud2_2'])
                   if s in spec.spaces]
            for sp in sps:
                cfgs.append({'kind': 'derived', 'der': [kd], 'name': b, 'space': sp})
    d2 = [('translated', 'leftscal'), ('leftscal', 'translated'), ('rightscal', 'translated'),
          ('translated', 'rightscal_neg'), ('quadpert_a0', 'translated'),
          ('scalarsum', 'quadpert_a0'), ('leftscal', 'quadpert_a0'), ('translated', 'translated'),
          ('rightscal', 'rightscal'), ('leftscal', 'leftscal'), ('rightvec', 'leftscal'),
          ('leftscal', 'rightvec'), ('scalarsum', 'leftscal'), ('leftscal', 'scalarsum')]
    if thorough:
        d2 = [(a, b) for a in DER_KINDS for b in DER_KINDS]
    for a, b in d2:
        for base in (['L1Norm', 'L2NormSquared', 'KullbackLeibler'] if not thorough
                     else DER_BASES):
            for sp in (['rn3wa'] if not thorough else ['rn3wa', 'ud3']):
                if sp in FR.BY_NAME[base].spaces:
                    cfgs.append({'kind': 'derived', 'der': [a, b], 'name': base, 'space': sp})
    pool = ['L1Norm', 'L2NormSquared', 'L2Norm', 'IndicatorBox', 'KullbackLeibler', 'Huber']
    for f1, f2 in itertools.product(pool, repeat=2):
        cfgs.append({'kind': 'sepsum', 'f1': f1, 'f2': f2})
        if (f1, f2) in (('L1Norm', 'L2NormSquared'), ('IndicatorBox', 'L1Norm'), ('L2Norm', 'Huber')):
            # a scaled separable sum: per-component steps pass through the scalar multiple
            for sc in (2, 0.5):
                cfgs.append({'kind': 'sepsum', 'f1': f1, 'f2': f2, 'scale': sc})
        for sp in (['rn2', 'rn2wa'] if not thorough else ['rn2', 'rn2wa', 'ud2']):
            cfgs.append({'kind': 'infconv', 'f1': f1, 'f2': f2, 'space': sp})
            cfgs.append({'kind': 'sum', 'f1': f1, 'f2': f2, 'space': sp})
    for sp in ('rn2', 'rn2wa', 'rn2w2', 'ud2'):
        cfgs.append({'kind': 'simple', 'space': sp})
        for gam in (0.5, 1.0, 2.0):
            cfgs.append({'kind': 'huber-infconv', 'space': sp, 'gamma': gam})
        for mat in ('sym', 'nonsym'):
            for vecc in (0, 1):
                cfgs.append({'kind': 'quadform', 'space': sp, 'mat': mat, 'vec': vecc})
    # the factory pairs of proximal_operators.py with their own parameters (weight lam, data term
    # g, scalar and per-point steps): the Functional classes reach them with lam = 1 only
    from mc.props import c10
    for prim, conj in RAW_PAIRS:
        kinds, opts, _, sigk = c10.RAW[prim]
        sps = ((['rn3', 'rn3wa', 'ud3'] if not thorough else FR.TENS) if 'T' in kinds else []) + \
              ((['pw_ud2_2'] if not thorough else FR.POW) if 'P' in kinds else [])
        for sp in sps:
            for o in opts:
                for sk in sorted(set(sigk) & set(c10.RAW[conj][3])):
                    cfgs.append({'kind': 'rawpair', 'name': prim, 'space': sp, 'opt': o, 'sk': sk})
    return cfgs


RAW_PAIRS = [('proximal_l1', 'proximal_convex_conj_l1'), ('proximal_l2', 'proximal_convex_conj_l2'),
             ('proximal_l2_squared', 'proximal_convex_conj_l2_squared'),
             ('proximal_l1_l2', 'proximal_convex_conj_l1_l2'),
             ('proximal_linfty', 'proximal_convex_conj_linfty')]
_SIG = [0.5, 2.0, 1.0, 0.25, 4.0, 1.0, 0.5, 2.0]


def _run_rawpair(cfg, site):
    """prox_{sigma f}(x) + sigma * prox_{f*/sigma}(x / sigma) = x for the factory pairs."""
    from mc.props import c10
    info = FR.info(cfg['space'])
    conj = dict(RAW_PAIRS)[cfg['name']]
    first = {}
    evals = 0
    try:
        fa = c10.RAW[cfg['name']][2](info.space, cfg['opt'])
        fb = c10.RAW[conj][2](info.space, cfg['opt'])
    except Exception as e:
        return {'evals': 1, 'sig': 'build-raises',
                'viol': [{'site': site, 'symptom': 'construction_raises:' + type(e).__name__,
                          'detail': repr(e)[:300]}]}
    n = info.n
    sigmas = [0.5, 2.0] if cfg['sk'] == 'scalar' else [np.asarray((_SIG * 4)[:n])]
    for sg in sigmas:
        if cfg['sk'] == 'scalar':
            s1, s2, sarr = sg, 1.0 / sg, np.full(n, sg)
        else:
            s1, s2, sarr = info.elem(sg), info.elem(1.0 / sg), sg
        try:
            p1, p2 = fa(s1), fb(s2)
        except Exception as e:
            first.setdefault('proximal_factory_raises:' + type(e).__name__, repr(e)[:200])
            continue
        alph = FR.V5 if n <= 3 else [-2.0, 0.5, 3.0]
        for x in S.points(n, alph):
            try:
                a = S.to_flat(p1(info.elem(x))).astype(float)
                b = S.to_flat(p2(info.elem(x / sarr))).astype(float)
            except Exception as e:
                first.setdefault('proximal_raises:' + type(e).__name__,
                                 'x=%s: %r' % (x.tolist(), e))
                continue
            evals += 2
            r = a + sarr * b
            if not np.all(np.isfinite(r)) or \
                    np.max(np.abs(r - x)) > 1e-6 * (1 + np.max(np.abs(x))):
                first.setdefault('moreau_decomposition_fails',
                                 'opt=%s sigma=%s x=%s prox_f=%s prox_f*=%s sum=%s'
                                 % (cfg['opt'], np.asarray(sg).tolist(), x.tolist(), a.tolist(),
                                    b.tolist(), r.tolist()))
    viol = [{'site': site, 'symptom': s_, 'detail': d} for s_, d in first.items()]
    return {'evals': evals, 'viol': viol, 'sig': 'rawpair:%s:%s:%d' % (cfg['name'], cfg['sk'],
                                                                      len(viol)),
            'trivial': evals == 0}


def _sk(name):
    st = ('power' if name.startswith('pw_') else 'product' if name.startswith('pr_')
          else 'nested' if name.startswith('nest_') else 'tensor')
    if name in ('rn3', 'rn2', 'rn1', 'rn4', 'pw_rn2_2', 'nest_rn1_2x2', 'nest_rn2_2x2', 'rn2x2'):
        return st + ',unweighted'
    if name in ('rn3w2', 'rn2w2', 'pw_rn2w2_2', 'ud3', 'ud2', 'pw_ud2_2', 'pw_rn2_2_c', 'pw_rn2_1_c'):
        return st + ',const-weighted'
    return st + ',nonuniformly-weighted'


def _site(cfg):
    k = cfg['kind']
    if k == 'spec':
        o = ','.join('%s=%s' % kv for kv in sorted(cfg['opt'].items()))
        return '%s(%s)[%s]' % (cfg['name'], o, _sk(cfg['space']))
    if k == 'derived':
        return '%s.%s[%s]' % (cfg['name'], '.'.join(cfg['der']), _sk(cfg['space']))
    if k in ('sepsum',):
        if cfg.get('scale'):
            return '(%s*SeparableSum(%s,%s))' % ('int' if isinstance(cfg['scale'], int) else 'float',
                                                 cfg['f1'], cfg['f2'])
        return 'SeparableSum(%s,%s)' % (cfg['f1'], cfg['f2'])
    if k in ('infconv', 'sum'):
        return '%s(%s,%s)[%s]' % ('InfimalConvolution' if k == 'infconv' else 'FunctionalSum',
                                  cfg['f1'], cfg['f2'], _sk(cfg['space']))
    if k == 'huber-infconv':
        return 'Huber-vs-InfimalConvolution[%s]' % _sk(cfg['space'])
    if k == 'simple':
        return 'simple_functional[%s]' % _sk(cfg['space'])
    if k == 'quadform':
        return 'QuadraticForm[%s,vector=%d,%s]' % (cfg['mat'], cfg['vec'], _sk(cfg['space']))
    if k == 'rawpair':
        o = ','.join('%s=%s' % kv for kv in sorted(cfg['opt'].items()) if kv[0] != 'lam')
        return 'factory-pair:%s(%s)[%s,sigma=%s]' % (cfg['name'], o, _sk(cfg['space']), cfg['sk'])
    return k


class _PInfo(FR.Info):
    def __init__(self, space):
        self.name = 'adhoc'
        self.space = space
        self.n = S.flat_size(space)
        self.w = S.weights(space)
        self.ncomp = None
        self.nested = None


def _build(cfg):
    """-> dict(f=, info=, ref=, cref=, V=, Vc=, dom=, evaluable=bool)"""
    k = cfg['kind']
    if k == 'spec':
        spec = FR.BY_NAME[cfg['name']]
        info = FR.info(cfg['space'])
        o = cfg['opt']
        return dict(f=spec.build(info.space, o), info=info, ref=spec.ref(info, o),
                    cref=FR.conj_ref(info, spec.name, o), V=spec.V,
                    dom=spec.dom(info, o) if spec.dom else (lambda z: True), tol=spec.prox_tol)
    if k == 'derived':
        spec = FR.BY_NAME[cfg['name']]
        info = FR.info(cfg['space'])
        o = spec.opts[0]
        f, ref, cref = spec.build(info.space, o), spec.ref(info, o), FR.conj_ref(info, spec.name, o)
        dom = spec.dom(info, o) if spec.dom else (lambda z: True)
        for kd in cfg['der']:
            d = DV.derive(kd, f, ref, cref, info)
            f, ref, cref = d['func'], d['ref'], d['cref']
            if dom is not None:
                dom = (lambda dm, arg: (lambda z: dm(arg(z))))(dom, d['arg'])
        return dict(f=f, info=info, ref=ref, cref=cref, V=spec.V, dom=dom,
                    tol=max(spec.prox_tol, 1e-9))
    if k == 'sepsum':
        i2 = FR.info('rn2')
        s1, s2 = FR.BY_NAME[cfg['f1']], FR.BY_NAME[cfg['f2']]
        o1, o2 = s1.opts[0], s2.opts[0]
        f = odl.solvers.SeparableSum(s1.build(i2.space, o1), s2.build(i2.space, o2))
        r1, r2 = s1.ref(i2, o1), s2.ref(i2, o2)
        c1, c2 = FR.conj_ref(i2, s1.name, o1), FR.conj_ref(i2, s2.name, o2)
        d1 = s1.dom(i2, o1) if s1.dom else (lambda z: True)
        d2 = s2.dom(i2, o2) if s2.dom else (lambda z: True)
        dom = None
        if d1 is not None and d2 is not None:
            dom = lambda z: d1(z[:2]) and d2(z[2:])
        V = [0.25, 0.5, 2.0] if (s1.posdom or s2.posdom) else [-2.0, 0.5, 3.0]
        if cfg.get('scale'):
            sc = cfg['scale']
            return dict(f=sc * f, info=_PInfo(f.domain),
                        ref=lambda z: float(sc) * (r1(z[:2]) + r2(z[2:])),
                        cref=lambda y: float(sc) * (c1(np.asarray(y[:2]) / float(sc))
                                                    + c2(np.asarray(y[2:]) / float(sc))),
                        V=V, dom=dom, tol=1e-6, Vc=[-2.0, 0.5, 3.0])
        return dict(f=f, info=_PInfo(f.domain), ref=lambda z: r1(z[:2]) + r2(z[2:]),
                    cref=lambda y: c1(y[:2]) + c2(y[2:]), V=V, dom=dom, tol=1e-6,
                    Vc=[-2.0, 0.5, 3.0])
    if k in ('infconv', 'sum'):
        info = FR.info(cfg['space'])
        s1, s2 = FR.BY_NAME[cfg['f1']], FR.BY_NAME[cfg['f2']]
        o1, o2 = s1.opts[0], s2.opts[0]
        f1, f2 = s1.build(info.space, o1), s2.build(info.space, o2)
        r1, r2 = s1.ref(info, o1), s2.ref(info, o2)
        c1, c2 = FR.conj_ref(info, s1.name, o1), FR.conj_ref(info, s2.name, o2)
        if k == 'infconv':
            f = odl.solvers.InfimalConvolution(f1, f2)
            # values of the infimal convolution are not evaluable in odl; only (5) applies
            return dict(f=f, info=info, ref=None, cref=lambda y: c1(y) + c2(y), V=FR.V5,
                        dom=None, tol=1e-6)
        f = f1 + f2
        return dict(f=f, info=info, ref=lambda z: r1(z) + r2(z), cref=None,
                    V=FR.V5P if (s1.posdom or s2.posdom) else FR.V5, dom=None, tol=1e-6)
    if k == 'simple':
        # simple_functional given all six ingredients of f = |x|^2 (f* = |y|^2 / 4)
        info = FR.info(cfg['space'])
        sp = info.space
        f = odl.solvers.simple_functional(
            sp, fcall=lambda x: x.inner(x), grad=lambda x: 2.0 * x,
            prox=lambda sig: odl.ScalingOperator(sp, 1.0 / (1.0 + 2.0 * sig)), grad_lip=2.0,
            convex_conj_fcall=lambda y: y.inner(y) / 4.0, convex_conj_grad=lambda y: 0.5 * y,
            convex_conj_prox=lambda sig: odl.ScalingOperator(sp, 1.0 / (1.0 + 0.5 * sig)),
            convex_conj_grad_lip=0.5)
        return dict(f=f, info=info, ref=lambda z: info.norm2(z),
                    cref=lambda y: info.norm2(y) / 4.0, V=FR.V5, dom=lambda z: True, tol=1e-9)
    if k == 'huber-infconv':
        info = FR.info(cfg['space'])
        gam = cfg['gamma']
        l1 = odl.solvers.L1Norm(info.space)
        l2 = (1.0 / (2 * gam)) * odl.solvers.L2NormSquared(info.space)
        f = odl.solvers.InfimalConvolution(l1, l2)
        hub = odl.solvers.Huber(info.space, gam)
        return dict(f=f, info=info, ref=None, cref=None, V=FR.V5, dom=None, tol=1e-9,
                    twin=hub)
    if k == 'quadform':
        info = FR.info(cfg['space'])
        if not np.all(info.w == info.w[0]):
            # MatrixOperator adjoints are only claimed for uniformly weighted spaces here
            raise NotImplementedError
        A = np.array([[2.0, 0.5], [0.5, 1.0]]) if cfg['mat'] == 'sym' else \
            np.array([[2.0, 1.0], [0.0, 1.0]])
        b = np.array([0.5, -1.0]) if cfg['vec'] else None
        c = 0.5
        op = odl.MatrixOperator(A, domain=info.space, range=info.space)
        f = odl.solvers.QuadraticForm(op, None if b is None else info.elem(b), c)
        bb = np.zeros(2) if b is None else b
        ref = lambda z: info.inner(z, A.dot(z)) + info.inner(z, bb) + c
        # conjugate of x^T_W A x + <b,x>_W + c:  (y-b)^T_W (A+A^T)^{-1} (y-b) / ... via W-inner
        As = A + A.T
        Ainv = np.linalg.inv(As)
        cref = lambda y: 0.5 * info.inner(np.asarray(y) - bb, Ainv.dot(np.asarray(y) - bb)) - c
        if cfg['mat'] == 'nonsym':
            cref = None     # documented formula assumes a symmetric (self-adjoint) operator
        return dict(f=f, info=info, ref=ref, cref=cref, V=FR.V5, dom=lambda z: True, tol=1e-9)
    raise KeyError(k)


def _decided(ref, z):
    """Reference value, or None inside the undecided band around a constraint boundary."""
    FR.BAND_FEASIBLE[0] = True
    try:
        a = ref(z)
    finally:
        FR.BAND_FEASIBLE[0] = False
    b = ref(z)
    if a != b and not (np.isnan(a) and np.isnan(b)):
        return None
    return a


def _call(f, x):
    """Library value; NotImplementedError means 'not evaluable' (returns None)."""
    try:
        v = f(x)
    except NotImplementedError:
        return None
    return float(np.real(v))


def _eq(a, b, tol):
    if np.isinf(a) or np.isinf(b):
        return a == b
    return abs(a - b) <= tol * (1.0 + max(abs(a), abs(b)))


def run(cfg):
    site = _site(cfg)
    if cfg['kind'] == 'rawpair':
        return _run_rawpair(cfg, site)
    try:
        B = _build(cfg)
    except NotImplementedError:
        return {'evals': 0, 'skipped': 1, 'trivial': True, 'sig': 'notimpl'}
    except Exception as e:
        return {'evals': 1, 'sig': 'build-raises',
                'viol': [{'site': site, 'symptom': 'construction_raises:' + type(e).__name__,
                          'detail': repr(e)[:300]}]}
    f, info, ref, cref, V, dom = B['f'], B['info'], B['ref'], B['cref'], B['V'], B['dom']
    tol = max(B.get('tol', 1e-9), 1e-9)
    n = info.n
    first = {}
    evals = 0
    skipped = 0
    if cfg['kind'] == 'huber-infconv':
        return _run_huber(cfg, site, B)
    try:
        fc = f.convex_conj
    except NotImplementedError:
        return {'evals': 0, 'skipped': 1, 'trivial': True, 'sig': 'no-conj'}
    except Exception as e:
        # rejected as non-convex (negative scaling) is a documented refusal
        if isinstance(e, ValueError) and 'rightscal_neg' not in cfg.get('der', []):
            pass
        return {'evals': 1, 'sig': 'conj-raises',
                'viol': [{'site': site, 'symptom': 'convex_conj_raises:' + type(e).__name__,
                          'detail': repr(e)[:300]}]}
    alph = V if n <= 3 else ([V[0], V[len(V) // 2], V[-1]])
    if n > 4:
        alph = [V[0], V[-1]]
    Vc = B.get('Vc', FR.V5)
    alphc = Vc if n <= 3 else ([Vc[0], Vc[len(Vc) // 2], Vc[-1]])
    if n > 4:
        alphc = [Vc[0], Vc[-1]]
    X = list(S.points(n, alph))
    Y = list(S.points(n, alphc))
    # magnitude regime: a few points of tiny (non-zero) magnitude on both sides; an effective
    # domain like {0} or a kink at 0 must not be widened by a tolerance inside the library
    tiny = 2.0 ** -30
    X = X + [tiny * np.asarray(x) for x in [x for x in X if np.any(x != 0)][:4]]
    Y = Y + [tiny * np.asarray(y) for y in [y for y in Y if np.any(y != 0)][:4]]
    # library values
    fx, fcy = [], []
    conj_evaluable = True
    f_evaluable = ref is not None
    for x in X:
        if not f_evaluable:
            break
        try:
            v = _call(f, info.elem(x))
        except Exception as e:
            first.setdefault('value_raises:' + type(e).__name__, 'f(%s): %r' % (x.tolist(), e))
            v = None
        if v is None:
            f_evaluable = False
            break
        fx.append(v)
        evals += 1
        # documented value (reference interpreter); infinities must agree off the band
        r = _decided(ref, x)
        if r is None:
            skipped += 1
        elif not _eq(v, r, tol):
            first.setdefault('value_differs', 'f(%s)=%r reference %r' % (x.tolist(), v, r))
    for y in Y:
        try:
            v = _call(fc, info.elem(y))
        except Exception as e:
            first.setdefault('conj_value_raises:' + type(e).__name__,
                             'f*(%s): %r' % (y.tolist(), e))
            v = None
        if v is None:
            conj_evaluable = False
            break
        fcy.append(v)
        evals += 1
        if cref is not None:
            r = _decided(cref, y)
            if r is None:
                skipped += 1
            elif not _eq(v, r, tol):
                first.setdefault('conj_differs_from_closed_form',
                                 'f*(%s)=%r documented closed form gives %r' % (y.tolist(), v, r))
    sig = [site.split('[')[0] + ':' + ('E' if f_evaluable else 'e') + ('C' if conj_evaluable
                                                                       else 'c')]
    if f_evaluable and conj_evaluable:
        FX = np.array(fx)[:, None]
        FY = np.array(fcy)[None, :]
        IP = (np.array(X) * info.w).dot(np.array(Y).T)
        with np.errstate(invalid='ignore'):
            lhs = FX + FY
        bad = lhs < IP - tol * (1 + np.abs(IP))
        evals += bad.size
        if bad.any():
            i, j = np.argwhere(bad)[0]
            first.setdefault('fenchel_young_violated',
                             'x=%s y=%s f(x)=%r f*(y)=%r <x,y>=%r'
                             % (X[i].tolist(), Y[j].tolist(), fx[i], fcy[j], IP[i, j]))
        sig.append('fy:%d' % int(np.isinf(lhs).sum() > 0))
    # (5b) lower bound from the lattice supremum, independent of the closed-form table
    if conj_evaluable and ref is not None and n <= 3:
        from mc.props.c07 import _lattice
        Z = _lattice(n)
        FZ = np.array([ref(z) for z in Z])
        fin = np.isfinite(FZ)
        Zf, FZf = Z[fin], FZ[fin]
        for y, v in zip(Y, fcy):
            sup = float(np.max((Zf * info.w).dot(y) - FZf)) if len(Zf) else -INF
            evals += 1
            if v < sup - tol * (1 + abs(sup)):
                first.setdefault('conj_below_lattice_supremum',
                                 'f*(%s)=%r but sup over lattice of <z,y>-f(z) = %r'
                                 % (y.tolist(), v, sup))
    # (2) equality at the gradient
    if f_evaluable and conj_evaluable and dom is not None:
        try:
            grad = f.gradient
        except NotImplementedError:
            grad = None
        except Exception as e:
            grad = None
            first.setdefault('gradient_raises:' + type(e).__name__, repr(e)[:200])
        if grad is not None:
            for x in X:
                if not dom(x):
                    continue
                try:
                    ge = grad(info.elem(x))
                    g = S.to_flat(ge).astype(float)
                    v = _call(fc, ge)
                    fxv = _call(f, info.elem(x))
                except NotImplementedError:
                    break
                except Exception as e:
                    first.setdefault('gradient_raises:' + type(e).__name__,
                                     'x=%s: %r' % (x.tolist(), e))
                    continue
                evals += 1
                if v is None or fxv is None:
                    break
                if cref is not None and _decided(cref, g) is None:
                    skipped += 1        # gradient lies on the boundary of dom f*
                    continue
                ip = info.inner(x, g)
                if not _eq(fxv + v, ip, max(tol, 1e-9)):
                    first.setdefault('no_equality_at_gradient',
                                     'x=%s grad=%s f(x)=%r f*(grad)=%r <x,grad>=%r'
                                     % (x.tolist(), g.tolist(), fxv, v, ip))
    # (3) biconjugate
    if f_evaluable:
        try:
            fcc = fc.convex_conj
            for x, v in zip(X, fx):
                vv = _call(fcc, info.elem(x))
                if vv is None:
                    break
                evals += 1
                r = _decided(ref, x)
                if r is None:
                    skipped += 1
                    continue
                if not _eq(vv, v, tol):
                    first.setdefault('biconjugate_differs', 'f**(%s)=%r f=%r'
                                     % (x.tolist(), vv, v))
        except (NotImplementedError, ValueError):
            # the library refuses (no conjugate implemented / documented non-convex refusal):
            # 'f** the library can evaluate' does not apply
            skipped += 1
        except Exception as e:
            first.setdefault('biconjugate_raises:' + type(e).__name__, repr(e)[:200])
    # (4) Moreau decomposition, for the pair (f, f*) and for the pair (f*, f**)
    pairs = [('', f, fc)]
    try:
        pairs.append(('[f*,f**]', fc, fc.convex_conj))
    except Exception:
        pass
    steps = [0.5, 2.0]
    if cfg['kind'] == 'sepsum':
        # the documented per-component steps of separable sums, in every spelling of a sequence
        steps += [[0.5, 2.0], (2.0, 0.25), np.array([0.5, 4.0])]
    for lvl, fa, fb in pairs:
      for sg0 in steps:
        if np.isscalar(sg0):
            sg, sgi = sg0, 1.0 / sg0
        else:
            sg = np.repeat(np.asarray(sg0, float), 2)          # per entry of the flat vector
            sgi = type(sg0)(1.0 / np.asarray(sg0)) if not isinstance(sg0, np.ndarray) \
                else 1.0 / sg0
        try:
            p1 = fa.proximal(sg0)
            p2 = fb.proximal(sgi)
        except Exception:
            # 'whenever both proximals exist': a refused construction means it does not exist
            # (whether the refusal is legitimate is C07's business)
            skipped += 1
            break
        for x in X:
            try:
                a = S.to_flat(p1(info.elem(x))).astype(float)
                b = S.to_flat(p2(info.elem(x / sg))).astype(float)
            except Exception as e:
                # failures of a proximal by itself are C07's / C03's business
                skipped += 1
                continue
            evals += 2
            if not np.all(np.isfinite(a)) or not np.all(np.isfinite(b)):
                # the proximal of a proper lsc convex functional is finite at every finite x: a
                # non-finite entry is either a library failure at this x (C07 judges the same
                # call) or memory nobody wrote (allocations are NaN-poisoned, mc/poison.py)
                first.setdefault('proximal_not_finite' + lvl,
                                 'sigma=%s x=%s prox_f(x)=%s prox_f*(x/sigma)=%s'
                                 % (sg, x.tolist(), a.tolist(), b.tolist()))
                continue
            r = a + sg * b
            if np.max(np.abs(r - x)) > max(tol, 1e-8) * (1 + np.max(np.abs(x))):
                first.setdefault('moreau_decomposition_fails' + lvl,
                                 'sigma=%s x=%s prox_f=%s prox_f*=%s sum=%s'
                                 % (sg, x.tolist(), a.tolist(), b.tolist(), r.tolist()))
    viol = [{'site': site, 'symptom': s, 'detail': d} for s, d in first.items()]
    return {'evals': evals, 'viol': viol, 'skipped': skipped, 'sig': sig,
            'trivial': evals == 0}


def _run_huber(cfg, site, B):
    """InfimalConvolution(L1, 1/(2 gamma) L2^2)* against Huber(gamma)* - two routes, one functional."""
    info, f, hub = B['info'], B['f'], B['twin']
    first = {}
    evals = 0
    a, b = f.convex_conj, hub.convex_conj
    for y in S.points(info.n, [-2.0, -1.0, -0.5, 0.0, 0.25, 0.75, 1.5]):
        if np.any(np.abs(np.abs(y) - 1) < 1e-6):
            continue
        va, vb = _call(a, info.elem(y)), _call(b, info.elem(y))
        evals += 2
        if va is None or vb is None:
            break
        if not _eq(va, vb, 1e-9):
            first.setdefault('two_routes_differ', 'y=%s (L1 infconv L2^2)*=%r Huber*=%r'
                             % (y.tolist(), va, vb))
    return {'evals': evals, 'sig': 'huber-twin',
            'viol': [{'site': site, 'symptom': s, 'detail': d} for s, d in first.items()]}


def meta(tier):
    return {
        'rule': 'state = functional (registry class x options | derived by the library combinators, '
                'depth <= 2 | separable sum | infimal convolution | sum | quadratic form) x space; '
                'inside a state all pairs of V^n x V^n (Fenchel-Young), all admissible x '
                '(equality at the gradient), all x (biconjugate, Moreau for sigma in {1/2,2}), all y '
                '(closed-form conjugate, lattice supremum). distinct = (site, evaluability class)',
        'bounds': {'V': FR.V5, 'n': '<= 3 full alphabet, 4: 3 values, 8: 2 values',
                   'sigma': [0.5, 2.0]},
        'assumptions': ['reference closed forms are the documented ones with the pairing '
                        '<x,y>_W = sum w x y of the space',
                        'infinite values compared exactly only outside a 1e-9 band around the '
                        'boundary of the effective domain (odl shrinks thresholds by ~10 eps)'],
    }
