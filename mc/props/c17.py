"""C17 - NumPy ufuncs on elements behave like NumPy on the underlying arrays.

Exploration (K + H).  One *state* is (section, element kind, dtype, ufunc).  Inside a state
every combination of

    operand mix x ``out`` kind x keyword options (axis / dtype / keepdims / where / initial)

of the section's finite alphabets is executed twice: by NumPy on plain copies of the
underlying arrays (the reference model: NumPy itself, no odl code) and by the real odl code on
elements wrapping other copies of the same data.  A combination that NumPy itself refuses on
the plain arrays is *not applicable* (not counted); everything else must give

* the same numbers, **bit for bit** (same kernel, same data, same memory layout),
* wrapped in an element of the same kind (tensor / discretized / power space) with NumPy's
  result shape and dtype (a scalar where NumPy gives a scalar),
* with ``out=``: the very object given is returned and holds NumPy's result; other operands
  are left untouched,
* or one of the refusals the documentation announces (``reduceat``, ``keepdims=True`` and
  ``outer`` with a non-element operand on discretized elements).

Operands come as elements, ndarrays, broadcastable ndarrays, nested lists, Python / NumPy
scalars and 0-d arrays, of the element's dtype and of every other dtype of the alphabet
(NumPy's promotion of both operands decides numbers and result dtype).  Reductions also see
special values: a NaN in each part / leaf in turn, infinities, signed zeros and pairs of them
(0 and inf, inf and -inf, inf and NaN) in every ordered pair of leaves.

Further sections: the legacy ``x.ufuncs.<name>()`` namespaces (tensor, discretized, product
space; judged clause: agreement with the NumPy call on the same elements), the no-copy
wrapping / ``asarray`` round trip, the base-class ``Tensor.__array_ufunc__`` and the H-part:
every sequence of two (thorough: three) in-place operations (``ufunc.at``, ``out=x``, legacy
``out=``) against an ndarray mirror.

Reporting: a failing combination is named by site = class[method;option tags] and symptom.
Inside a state only failures with a minimal option set are kept, and each is then localised
differentially (delta debugging with fixed simplest values): the same case is re-executed with
a plain ufunc, with float64 and on the plain kind; a dimension is named in the site only when
its simplest value does not show the symptom.  So one defect gives one site however many
ufuncs / dtypes / kinds expose it, and the site stays stable from run to run.

Nothing is sampled; the seed only permutes the visiting order of the states.
"""
import itertools
import warnings

import numpy as np
import odl
from odl.discr.discr_space import DiscretizedSpaceElement
from odl.space.base_tensors import Tensor
from odl.space.npy_tensors import NumpyTensor, NumpyTensorSpace
from odl.space.pspace import ProductSpaceElement
from odl.util import ufuncs as OU
from odl.util import utility as OUT

PROPERTY = 'C17'
BUDGET = {'quick': 1500, 'thorough': 3600}


# ------------------------------------------------------------------------------------------
# alphabets

def _all_ufuncs():
    seen = {}
    for n in sorted(dir(np)):
        u = getattr(np, n)
        if isinstance(u, np.ufunc) and id(u) not in seen:
            seen[id(u)] = u
    return sorted(seen.values(), key=lambda u: u.__name__)


UFUNCS = _all_ufuncs()
UF = dict((u.__name__, u) for u in UFUNCS)
# generalized ufuncs (matmul) produce results that are not of the element's shape; the
# documentation of __array_ufunc__ only speaks of element-wise ufuncs -> counted as unspecified
GUFUNCS = [u.__name__ for u in UFUNCS if u.signature is not None]

DTYPES = ['float64', 'float32', 'complex128', 'int64', 'bool']
FLOATING = ('float64', 'float32', 'complex128')

# kind -> (family, shape, floating dtypes only?)
KINDS = {
    't3': ('tensor', (3,), False),
    't23': ('tensor', (2, 3), False),
    't213': ('tensor', (2, 1, 3), False),
    't3w': ('tensor', (3,), True),        # constant weighting
    't23a': ('tensor', (2, 3), True),     # array weighting
    't3e': ('tensor', (3,), True),        # exponent 1
    'd3': ('discr', (3,), False),
    'd23': ('discr', (2, 3), False),
    'd213': ('discr', (2, 1, 3), False),
    'd3b': ('discr', (3,), False),        # nodes on the boundary
    'd3w': ('discr', (3,), True),         # user-given constant weighting
    'd23n': ('discr', (2, 3), False),     # non-uniform partition
    'd22': ('discr', (2, 2), False),      # square: an axis mix-up keeps the shape
    'd3a': ('discr', (3,), True),         # array weighting
    'd23a': ('discr', (2, 3), True),      # array weighting, 2-d
    'p2t3': ('power', (2, 3), False),
    'p2d3': ('power', (2, 3), False),
    'p3t2w': ('power', (3, 2), True),     # weighted product space
    'p2p2t3': ('power', (2, 2, 3), False),  # nested power space
}
KIND_ORDER = list(KINDS)


def build_space(kind, dt):
    if kind == 't3':
        return odl.tensor_space((3,), dtype=dt)
    if kind == 't23':
        return odl.tensor_space((2, 3), dtype=dt)
    if kind == 't213':
        return odl.tensor_space((2, 1, 3), dtype=dt)
    if kind == 't3w':
        return odl.tensor_space((3,), dtype=dt, weighting=2.0)
    if kind == 't23a':
        return odl.tensor_space((2, 3), dtype=dt,
                                weighting=np.array([[1.0, 2.0, 0.5], [2.0, 1.0, 4.0]]))
    if kind == 't3e':
        return odl.tensor_space((3,), dtype=dt, exponent=1.0)
    if kind == 'd3':
        return odl.uniform_discr(0, 1.5, 3, dtype=dt)
    if kind == 'd23':
        return odl.uniform_discr([0, 0], [1, 3], (2, 3), dtype=dt)
    if kind == 'd213':
        return odl.uniform_discr([0, 0, 0], [1, 1, 3], (2, 1, 3), dtype=dt)
    if kind == 'd3b':
        return odl.uniform_discr(0, 1, 3, dtype=dt, nodes_on_bdry=True)
    if kind == 'd3w':
        return odl.uniform_discr(0, 1.5, 3, dtype=dt, weighting=2.0)
    if kind == 'd23n':
        part = odl.nonuniform_partition([0.5, 1.5], [0.0, 1.0, 3.0])
        return odl.DiscretizedSpace(part, odl.tensor_space(part.shape, dtype=dt))
    if kind == 'd22':
        return odl.uniform_discr([0, 0], [1, 4], (2, 2), dtype=dt)
    if kind == 'd3a':
        return odl.DiscretizedSpace(
            odl.uniform_partition(0, 1.5, 3),
            odl.tensor_space((3,), dtype=dt, weighting=np.array([1.0, 2.0, 0.5])))
    if kind == 'd23a':
        return odl.DiscretizedSpace(
            odl.uniform_partition([0, 0], [1, 3], (2, 3)),
            odl.tensor_space((2, 3), dtype=dt,
                             weighting=np.array([[1.0, 2.0, 0.5], [2.0, 1.0, 4.0]])))
    if kind == 'p2t3':
        return odl.ProductSpace(odl.tensor_space((3,), dtype=dt), 2)
    if kind == 'p2d3':
        return odl.ProductSpace(odl.uniform_discr(0, 1.5, 3, dtype=dt), 2)
    if kind == 'p3t2w':
        return odl.ProductSpace(odl.tensor_space((2,), dtype=dt), 3, weighting=2.0)
    if kind == 'p2p2t3':
        return odl.ProductSpace(odl.ProductSpace(odl.tensor_space((3,), dtype=dt), 2), 2)
    raise KeyError(kind)


# value fills: distinct entries (so that an axis or operand mix-up is visible), dyadic (sums and
# products exact), no NaN / Inf, second operands free of zeros (no zero divisors), integer
# second operands positive (shift counts, exponents)
_F = {
    'a1': [0.5, -2.0, 3.0, 1.0, -0.25, 4.0, -1.5, 0.75, 2.0, -3.0, 0.125, 6.0],
    'b1': [2.0, 0.5, 1.0, 3.0, 1.5, 4.0, 0.25, 2.0, 1.0, 0.5, 3.0, 2.0],
    'a2': [0.25, 0.5, 0.75, 0.125, 0.625, 0.375, 0.875, 0.5, 0.25, 0.75, 0.0625, 0.9375],
    'b2': [-1.0, 2.0, 0.5, -0.5, 3.0, -2.0, 1.0, -4.0, 0.25, 1.5, -0.75, 2.0],
}
_I = {
    'a1': [1, -2, 3, 4, -5, 6, -7, 8, 2, -3, 9, 5],
    'b1': [2, 3, 1, 5, 2, 3, 4, 1, 2, 3, 1, 2],
    'a2': [7, 0, 2, 1, 3, 5, 4, 6, 8, 1, 0, 2],
    'b2': [1, 2, 2, 3, 1, 4, 2, 1, 3, 2, 1, 1],
}
_B = {
    'a1': [1, 0, 1, 1, 0, 0, 1, 0, 0, 1, 1, 0],
    'b1': [0, 0, 1, 0, 1, 1, 1, 0, 1, 0, 1, 0],
    'a2': [0, 1, 0, 0, 1, 1, 0, 1, 1, 0, 0, 1],
    'b2': [1, 1, 0, 1, 0, 1, 0, 0, 1, 1, 0, 1],
}
_PAIR = {'a1': 'b2', 'b1': 'a2', 'a2': 'b1', 'b2': 'a1'}


def special_fills(dt, shape):
    """Names of the special-value fills of the reduction states (floating dtypes only): a NaN
    in one single position in turn - the first entry of every leaf (row along the last axis,
    i.e. every part of a power space, every leaf of a nested one; every entry in 1-d) and the
    very last entry -, +inf, -inf, both, and signed zeros."""
    if np.dtype(dt).kind not in 'fc':
        return []
    pos = _special_positions(shape)
    return (['nan%d' % k for k in pos] + ['pinf', 'ninf', 'inf', 'zero', 'nzero']
            + ['mx:%s:%s:%d:%d' % (v, w, i, j)
               for v, w in MIXED_SPECIALS for i in pos for j in pos if i != j])


# two special values in ONE array whose combination is again special under the reductions: a
# zero and a non-finite entry (0 * inf = nan under multiply), opposite infinities (inf - inf =
# nan under add), an infinity and a NaN (NaN wins under minimum / maximum although the infinity
# is already the extreme value).  They are placed at every ORDERED pair of distinct positions of
# the position alphabet, i.e. in every pair of parts / leaves in both orders and inside one
# leaf: a reduction assembled from partial results (or leaving early once "the result is
# clear") must still give what NumPy gives on the whole array.
MIXED_SPECIALS = [('z', 'pinf'), ('z', 'ninf'), ('z', 'nan'), ('nz', 'pinf'),
                  ('pinf', 'ninf'), ('pinf', 'nan'), ('ninf', 'nan')]
_SPECIAL_VALUE = {'z': 0.0, 'nz': -0.0, 'pinf': np.inf, 'ninf': -np.inf, 'nan': np.nan}


def _special_positions(shape):
    """Flat positions of the special values: the first entry of every leaf (row along the last
    axis; every entry in 1-d) and the very last entry."""
    n = int(np.prod(shape))
    leaf = shape[-1] if len(shape) > 1 else 1
    return sorted(set(list(range(0, n, leaf)) + [n - 1]))


def _special(dt, shape, which):
    n = int(np.prod(shape)) if len(shape) else 1
    a = np.array(_F['a1'][:n], dtype=float)
    if which.startswith('mx:'):
        _, v, w, i, j = which.split(':')
        if np.dtype(dt).kind == 'c':
            a = a + 1j * np.array(_F['b2'][:n])
        # the special entries are purely real (a complex zero is 0 + 0j)
        a[int(i)] = _SPECIAL_VALUE[v]
        a[int(j)] = _SPECIAL_VALUE[w]
        with np.errstate(all='ignore'):
            return a.astype(dt).reshape(shape)
    if which.startswith('nan'):
        a[int(which[3:])] = np.nan
    elif which == 'pinf':
        a[n // 2] = np.inf
    elif which == 'ninf':
        a[n // 2] = -np.inf
    elif which == 'inf':
        a[0], a[n - 1] = np.inf, -np.inf
    elif which == 'zero':
        a = np.where(np.arange(n) % 2 == 0, 0.0, -0.0)
    elif which == 'nzero':
        a = np.where(np.arange(n) % 2 == 0, -0.0, 0.0)
    else:
        raise KeyError(which)
    if np.dtype(dt).kind == 'c':
        a = a + 1j * np.array(_F['b2'][:n]) * (0.0 if 'zero' in which else 1.0)
    with np.errstate(all='ignore'):
        return a.astype(dt).reshape(shape)


def fill(dt, shape, which):
    """Fresh array of the given dtype/shape holding the fill ``which``."""
    n = int(np.prod(shape)) if len(shape) else 1
    dt = np.dtype(dt)
    if which not in _F:
        return _special(dt, shape, which)
    if dt.kind == 'f':
        a = np.array(_F[which][:n], dtype=dt)
    elif dt.kind == 'c':
        a = (np.array(_F[which][:n]) + 1j * np.array(_F[_PAIR[which]][:n])).astype(dt)
    elif dt.kind in 'iu':
        a = np.array(_I[which][:n], dtype=dt)
    else:
        a = np.array(_B[which][:n], dtype=dt)
    return a.reshape(shape)


def prefill(dt, shape):
    """Deterministic content of an ``out`` before the call (visible where nothing is written)."""
    n = int(np.prod(shape)) if len(shape) else 1
    dt = np.dtype(dt)
    if dt.kind == 'b':
        a = (np.arange(n) % 2 == 0)
    else:
        a = (np.arange(n) + 9)
    return np.array(a, dtype=dt).reshape(shape)


SCALAR = {'float64': 2.0, 'float32': 2.0, 'complex128': (1 + 2j), 'int64': 3, 'bool': True}
# dtype= keyword alphabet per element dtype (down-cast, up-cast, kind change)
DTYPE_KW = {'float64': ['float32', 'complex128'], 'float32': ['float64'],
            'complex128': ['complex64'], 'int64': ['float64', 'int32'], 'bool': ['int64']}
WIDER = {'float64': 'complex128', 'float32': 'float64', 'int64': 'float64', 'bool': 'int64'}

# operands of ANOTHER dtype than the element (wider, narrower, other kind), in every form an
# array-like comes in.  Fractional / complex values, so that a conversion of the operand to the
# element's dtype (instead of NumPy's promotion of both) changes numbers and result dtype.
OTHER_SCALAR = {'float64': 2.5, 'float32': 2.5, 'complex128': (0.5 + 2j), 'int64': 3,
                'bool': True}
# a Python float that does not fit the element's dtype (NumPy 1.x promotes by value)
HUGE_SCALAR = {'float32': 1e300}


def other_dtype_operands(dt, leaf=False, fl='b1'):
    """Operand specs of every dtype of the alphabet other than ``dt``: ndarray, nested list,
    Python scalar, NumPy scalar, 0-d array (``leaf``: the array-likes are of the leaf shape of a
    power space, to be broadcast to every part)."""
    ops = []
    seen_py = set()
    # scalar forms of the element's own dtype besides the Python scalar: NumPy scalar, 0-d array
    ops.append(('SN', np.dtype(dt).type(SCALAR[dt])))
    ops.append(('S0', SCALAR[dt], dt))
    for d2 in DTYPES:
        if d2 == dt:
            continue
        v = OTHER_SCALAR[d2]
        ops.append(('CD' if leaf else 'AD', fl, d2))
        if not leaf:
            ops.append(('LD', fl, d2))
        if type(v) not in seen_py and type(v) is not type(OTHER_SCALAR[dt]):
            seen_py.add(type(v))
            ops.append(('SD', v))
        ops.append(('SN', np.dtype(d2).type(v)))
        ops.append(('S0', v, d2))
    if dt in HUGE_SCALAR:
        ops.append(('SD', HUGE_SCALAR[dt]))
    return ops


def other_dtype_elements(ctx, fl='b1'):
    """Operand specs: element of the space of the same kind and shape over every other dtype."""
    out = []
    for d2 in DTYPES:
        if d2 == ctx.dt:
            continue
        try:
            ctx.other_space(ctx.shape, d2)
        except Exception:
            # the sibling space cannot be built (array weights of a wider dtype than the
            # space: the constructor refuses) - no such element exists
            ctx.inappl += 1
            continue
        out.append(('E2', fl, ctx.shape, '', d2))
    return out


FAMILY_CLS = {'tensor': NumpyTensor, 'discr': DiscretizedSpaceElement,
              'power': ProductSpaceElement}
FAMILY_NAME = {'tensor': 'NumpyTensor', 'discr': 'DiscretizedSpaceElement',
               'power': 'ProductSpaceElement'}


# ------------------------------------------------------------------------------------------
# state context, bookkeeping

# differential localisation of a failure along the kind / dtype dimension: the same case is
# re-executed on the plain kind (and on float64); a tag is added to the site only if the
# control does not show the same symptom
CONTROL = {'t3w': 't3', 't3e': 't3', 't23a': 't23', 'd3b': 'd3', 'd3w': 'd3', 'd23n': 'd23',
           'd3a': 'd3', 'd23a': 'd23'}
KIND_TAG = {'t3w': 'weighting=const', 't3e': 'exponent=1', 't23a': 'weighting=array',
            'd3b': 'nodes_on_bdry', 'd3w': 'weighting=const', 'd23n': 'nonuniform',
            'd3a': 'weighting=array', 'd23a': 'weighting=array'}


# plain ufuncs of each arity, tried in this order as the control of the ufunc dimension (the
# first one NumPy accepts for the case at hand decides)
PLAIN_UFUNC = {(1, 1): ['negative', 'absolute', 'logical_not'], (2, 1): ['maximum', 'add']}


class Ctx(object):
    def __init__(self, kind, dt, control=False):
        self.control = control
        self._loc = {}
        self.kind = kind
        self.dt = dt
        self.family, self.shape, _ = KINDS[kind]
        self.space = build_space(kind, dt)
        self.ndim = len(self.shape)
        self.cls = FAMILY_NAME[self.family]
        self.evals = 0
        self.skipped = 0
        self.inappl = 0
        self.refused = 0
        self.fails = []
        self.sigs = set()

    # -- element construction -----------------------------------------------------------
    def elem(self, arr):
        """Element of the state's space holding ``arr`` (a fresh array owned by the caller)."""
        return self.space.element(arr)

    def other_space(self, shape, dt, variant=''):
        """A space of the same family with another shape / dtype (for ``out`` and ``outer``)."""
        shape = tuple(shape)
        if self.family == 'tensor':
            if variant == 'w':
                return odl.tensor_space(shape, dtype=dt, weighting=3.0)
            return odl.tensor_space(shape, dtype=dt)
        if self.family == 'discr':
            if shape == self.shape and not variant:
                if np.dtype(dt) == np.dtype(self.dt):
                    return self.space
                return self.space.astype(dt)
            n = len(shape)
            if variant == 'w':
                return odl.uniform_discr([0] * n, [2] * n, shape, dtype=dt, weighting=3.0)
            if variant == 'n':
                part = odl.nonuniform_partition(*[np.cumsum(np.arange(s) + 1.0)
                                                  for s in shape])
                return odl.DiscretizedSpace(part, odl.tensor_space(shape, dtype=dt))
            return odl.uniform_discr([0] * n, [2] * n, shape, dtype=dt)
        # power space
        if len(shape) < 2:
            raise ValueError('no power space of shape %s' % (shape,))
        if shape == self.shape and np.dtype(dt) == np.dtype(self.dt):
            return self.space
        if self.kind == 'p2d3':
            base = odl.uniform_discr([0], [1.5], shape[-1:], dtype=dt)
        else:
            base = odl.tensor_space(shape[-1:], dtype=dt)
        for m in reversed(shape[:-1]):
            base = odl.ProductSpace(base, int(m))
        return base

    # -- bookkeeping --------------------------------------------------------------------
    def fail(self, method, tags, symptom, detail, cls=None, rerun=None, uf=None, uftag=None):
        loc = None
        if self.control:
            pass
        elif self.family == 'power' and cls is None:
            # everything NumPy does with a power-space element goes through the generic
            # __array__ / __array_wrap__ fall-back: one site per ufunc method
            tags = []
            method = 'np.' + method
        elif rerun is not None and self.family != 'power':
            loc = (rerun, uf, uftag)
        self.fails.append((cls or self.cls, method, frozenset(tags), symptom, detail, loc))
        self.sigs.add('%s>viol:%s' % (method, symptom))

    def localize(self, symptom, rerun, uf, uftag):
        """Simplify the failing case along ufunc -> dtype -> kind; a dimension whose simplest
        value no longer shows the symptom contributes a tag to the site."""
        extra = []
        kind, dt = self.kind, self.dt

        def shows(kind, dt, u, mapped=False):
            """True / False: the control shows / does not show the symptom; None: the control
            is not applicable (NumPy refuses it)."""
            c2 = Ctx(kind, dt, control=True)
            rerun(c2, u, mapped)
            if c2.evals == 0:
                return None
            return symptom in [f[3] for f in c2.fails]

        if uf is not None:
            cands = [n for n in PLAIN_UFUNC.get((uf.nin, uf.nout), [])]
            if cands and uf.__name__ not in cands:
                verdict = None
                for n in cands:
                    verdict = shows(kind, dt, UF[n])
                    if verdict is not None:
                        break
                if verdict:
                    uf = UF[n]
                else:
                    extra.append(uftag or 'ufunc=' + uf.__name__)
        mapped = False
        if dt != 'float64':
            verdict = shows(kind, 'float64', uf)
            if verdict is None:
                # not applicable with this dtype keyword: take the corresponding keyword of
                # the float64 alphabet
                verdict = shows(kind, 'float64', uf, True)
                mapped = bool(verdict)
            if verdict:
                dt = 'float64'
            else:
                extra.append('elem=' + dt)
        ck = CONTROL.get(kind)
        if ck is not None and not shows(ck, dt, uf, mapped):
            extra.append(KIND_TAG[kind])
        return extra

    def result(self, extra_sig=()):
        viol = []
        seen = set()
        keep = []
        for f in self.fails:
            cls, method, tags, sym, det, loc = f
            # keep only failures whose option set is minimal among the failures of this state
            # with the same symptom (a defect is reported at its simplest configuration)
            if any(g[0] == cls and g[1] == method and g[3] == sym and g[2] < tags
                   for g in self.fails):
                continue
            if (cls, method, tags, sym) in seen:
                continue
            seen.add((cls, method, tags, sym))
            keep.append(f)
        seen = set()
        for cls, method, tags, sym, det, loc in keep:
            tags = sorted(tags)
            if loc is not None:
                tags = sorted(tags + self.localize(sym, *loc))
            site = '%s[%s]' % (cls, ';'.join([method] + tags))
            if (site, sym) in seen:
                continue
            seen.add((site, sym))
            viol.append({'site': site, 'symptom': sym, 'detail': det})
        return {'evals': self.evals, 'viol': viol, 'skipped': self.skipped,
                'sig': sorted(self.sigs | set(extra_sig)) or ['nothing-applicable'],
                'trivial': self.evals == 0,
                'stats': {'inapplicable': self.inappl, 'refused': self.refused,
                          'legacy_deviation_shared_with_numpy_call': getattr(self, 'shared',
                                                                             0)}}


def _sprepr(space):
    try:
        return ' '.join(repr(space).split())
    except Exception:       # repr of an array-weighted DiscretizedSpace raises (not C17's topic)
        return '<%s shape=%s dtype=%s weighting=%s>' % (
            type(space).__name__, getattr(space, 'shape', '?'), getattr(space, 'dtype', '?'),
            type(getattr(space, 'weighting', None)).__name__)


def _bits_equal(a, b):
    a = np.ascontiguousarray(a)
    b = np.ascontiguousarray(b)
    return a.dtype == b.dtype and a.shape == b.shape and a.tobytes() == b.tobytes()


def _num_equal(a, b):
    try:
        return bool(np.array_equal(np.asarray(a), np.asarray(b), equal_nan=True))
    except TypeError:
        return bool(np.array_equal(np.asarray(a), np.asarray(b)))


def _short(a):
    if isinstance(a, np.ndarray):
        return 'array(%s, dtype=%s)' % (a.tolist(), a.dtype)
    if isinstance(a, (NumpyTensor, DiscretizedSpaceElement, ProductSpaceElement)):
        try:
            arr = a.asarray()
            return '<%s shape=%s dtype=%s %s>' % (type(a).__name__, arr.shape, arr.dtype,
                                                  arr.tolist())
        except Exception:
            return '<%s>' % type(a).__name__
    if isinstance(a, tuple):
        return '(' + ', '.join(_short(x) for x in a) + ')'
    return repr(a)


def _kwdesc(kw):
    out = []
    for k in sorted(kw):
        v = kw[k]
        if isinstance(v, np.ndarray):
            v = v.tolist()
        out.append('%s=%r' % (k, v))
    return ', '.join(out)


def _axis_tags(kw):
    tags = []
    if 'axis' in kw:
        ax = kw['axis']
        if ax is None:
            tags.append('axis=None')
        elif isinstance(ax, tuple):
            tags.append('axis=()' if not ax else 'axis=tuple')
            if any(a < 0 for a in ax):
                tags.append('axis<0')
        elif ax < 0:
            tags.append('axis<0')
    for k in ('dtype', 'keepdims', 'where', 'initial', 'order'):
        if k in kw and kw[k] is not False:
            tags.append(k)
    return tags


# ------------------------------------------------------------------------------------------
# operands

def mk_operand(ctx, spec):
    """Return (object for odl, object for NumPy, array to re-check afterwards or None)."""
    k = spec[0]
    if k == 'E':                       # element of the state's space
        a = fill(ctx.dt, ctx.shape, spec[1])
        return ctx.elem(a.copy()), a.copy(), a
    if k == 'A':                       # ndarray of the element's shape
        a = fill(ctx.dt, ctx.shape, spec[1])
        return a.copy(), a.copy(), a
    if k == 'B':                       # ndarray broadcastable *to* the element's shape
        shp = (1,) if ctx.ndim == 1 else ctx.shape[-1:]
        a = fill(ctx.dt, shp, spec[1])
        return a.copy(), a.copy(), a
    if k == 'L':                       # nested list
        a = fill(ctx.dt, ctx.shape, spec[1])
        return a.tolist(), a.tolist(), None
    if k == 'S':                       # Python scalar
        return spec[1], spec[1], None
    if k == 'AD':                      # ndarray of the element's shape, ANOTHER dtype
        a = fill(spec[2], ctx.shape, spec[1])
        return a.copy(), a.copy(), a
    if k == 'LD':                      # nested list of Python numbers of another kind
        a = fill(spec[2], ctx.shape, spec[1])
        return a.tolist(), a.tolist(), None
    if k in ('SD', 'SN'):              # Python / NumPy scalar of another kind / dtype
        return spec[1], spec[1], None
    if k == 'S0':                      # 0-d array of another dtype
        a = np.array(spec[1], dtype=spec[2])
        return a.copy(), a.copy(), a
    if k == 'EB':                      # power spaces: element of the base space (depth 1) or
        # of the base of the base (depth 2, nested power spaces); shape = trailing axes
        sp = ctx.space
        for _ in range(spec[2]):
            sp = sp[0]
        a = fill(ctx.dt, ctx.shape[spec[2]:], spec[1])
        return sp.element(a.copy()), a.copy(), a
    if k == 'E2':                      # element of another space of the same family (outer)
        shape, variant, dt2 = spec[2], spec[3], spec[4]
        a = fill(dt2, shape, spec[1])
        sp = ctx.other_space(shape, dt2, variant)
        return sp.element(a.copy()), a.copy(), a
    if k == 'A2':                      # ndarray of another shape (outer), optionally dtype
        a = fill(spec[3] if len(spec) > 3 else ctx.dt, spec[2], spec[1])
        return a.copy(), a.copy(), a
    if k == 'T':                       # plain tensor of the element's shape (discr operands)
        a = fill(ctx.dt, ctx.shape, spec[1])
        return odl.tensor_space(ctx.shape, dtype=ctx.dt).element(a.copy()), a.copy(), a
    if k == 'RAW':                     # index objects etc., handed to both sides
        return spec[1], spec[1], None
    if k == 'VE':                      # values given as a tensor element
        a = np.array(spec[1], dtype=ctx.dt)
        return odl.tensor_space(a.shape, dtype=ctx.dt).element(a.copy()), a.copy(), a
    if k == 'VA':
        a = np.array(spec[1], dtype=ctx.dt)
        return a.copy(), a.copy(), a
    if k == 'VAD':                     # values as an ndarray of another dtype
        a = np.array(spec[1], dtype=spec[2])
        return a.copy(), a.copy(), a
    raise KeyError(k)


def _mixname(ops):
    return ','.join(o[0] if o[0] != '=' else 'same' for o in ops)


def build_operands(ctx, ops):
    o_args, r_args, keep = [], [], []
    for spec in ops:
        if spec[0] == '=':             # the same element object / array object twice
            o_args.append(o_args[0])
            r_args.append(r_args[0])
            keep.append(None)
            continue
        o, r, a = mk_operand(ctx, spec)
        o_args.append(o)
        r_args.append(r)
        keep.append(a)
    return o_args, r_args, keep


def _arr(x):
    if isinstance(x, (NumpyTensor, DiscretizedSpaceElement, ProductSpaceElement)):
        return x.asarray()
    return x


# ------------------------------------------------------------------------------------------
# out objects

def mk_out(ctx, spec, shape, dt):
    """Return (object for odl, array for NumPy) for one output, or raise _NoOut."""
    pre = prefill(dt, shape)
    if spec == 'none':
        return None, None
    if spec in ('ndarray', 'nd0'):
        return pre.copy(), pre.copy()
    if spec == 'nd_wide':              # plain ndarray of a wider dtype than the result: with a
        # ``dtype=`` keyword writable_array computes into a converted copy and must write back
        w = WIDER.get(np.dtype(dt).name)
        if w is None:
            raise _NoOut()
        pre = prefill(w, shape)
        return pre.copy(), pre.copy()
    if spec == 'nd_nc':                # non-contiguous view
        if len(shape) == 0:
            raise _NoOut()
        big = np.zeros(tuple(shape[:-1]) + (2 * shape[-1],), dtype=dt)
        big2 = big.copy()
        v, v2 = big[..., ::2], big2[..., ::2]
        v[...] = pre
        v2[...] = pre
        return v, v2
    if spec == 'nd_F':
        if len(shape) < 2:
            raise _NoOut()
        return np.asfortranarray(pre), np.asfortranarray(pre)
    if len(shape) == 0:
        raise _NoOut()
    if spec == 'elem_own':             # element of the state's own space (its dtype may differ
        # from the ``dtype=`` keyword: writable_array then works on a converted copy)
        if tuple(shape) != ctx.shape:
            raise _NoOut()
        return ctx.space.element(prefill(ctx.dt, shape)), prefill(ctx.dt, shape)
    if spec == 'elem':
        try:
            sp = ctx.other_space(shape, dt)
        except Exception:
            raise _NoOut()
        return sp.element(pre.copy()), pre.copy()
    if spec == 'elem_w':               # element of a wider dtype than the result
        w = WIDER.get(np.dtype(dt).name)
        if w is None:
            raise _NoOut()
        pre = prefill(w, shape)
        try:
            sp = ctx.other_space(shape, w)
        except Exception:
            raise _NoOut()
        return sp.element(pre.copy()), pre.copy()
    if spec == 'tensor':               # plain tensor as ``out`` of a discretized element
        return odl.tensor_space(shape, dtype=dt).element(pre.copy()), pre.copy()
    raise KeyError(spec)


class _NoOut(Exception):
    pass


# documented refusals of DiscretizedSpaceElement.__array_ufunc__: the method list of its
# docstring omits 'reduceat' ("Possible values: '__call__', 'accumulate', 'at', 'outer',
# 'reduce'"), `keepdims=True` "cannot be used in `reduce` since there is no unique way to
# determine a function domain in collapsed axes", and `outer` requires elements ("inputs must
# be of type ... for `method='outer'`").  A clean ValueError / TypeError is accepted there.
def refusal_ok(ctx, method, ops, kw, exc):
    if ctx.family != 'discr':
        return False
    if method == 'reduceat' and isinstance(exc, ValueError):
        return True
    if method == 'reduce' and kw.get('keepdims') and isinstance(exc, ValueError):
        return 'keepdims' in str(exc)
    if method == 'outer' and isinstance(exc, TypeError):
        return any(o[0] not in ('E', 'E2', '=') for o in ops)
    return False


def _result_tag(ek, rk):
    """Regimes odl's result-space construction branches on (dtype kinds of element / result)."""
    if rk == 'b' and ek != 'b':
        return 'result=bool'            # "non-numeric" dtype: no weighting allowed
    if ek in 'fc' and rk not in 'fc':
        return 'result=nonfloat'
    if ek not in 'fc' and rk in 'fc':
        return 'result=float'
    return None


def _map_kw(kw, dt_from, dt_to):
    """The same case in a control state of another dtype: the i-th ``dtype=`` keyword of the
    alphabet of ``dt_from`` becomes the i-th of ``dt_to`` (so 'a narrower / wider dtype than the
    element' stays that)."""
    if dt_from == dt_to or 'dtype' not in kw or kw['dtype'] not in DTYPE_KW[dt_from]:
        return kw
    i = DTYPE_KW[dt_from].index(kw['dtype'])
    kw = dict(kw)
    kw['dtype'] = DTYPE_KW[dt_to][min(i, len(DTYPE_KW[dt_to]) - 1)]
    return kw


def _call(uf, method, args, kw):
    if method == '__call__':
        return uf(*args, **kw)
    return getattr(uf, method)(*args, **kw)


def _desc(ctx, uf, method, ops, outspec, kw, o_args):
    name = 'np.%s' % uf.__name__ + ('' if method == '__call__' else '.' + method)
    parts = [_short(a) for a in o_args]
    k = _kwdesc(kw)
    if k:
        parts.append(k)
    if outspec not in (None, 'none', ('none', 'none')):
        parts.append('out=<%s>' % (outspec,))
    return '%s(%s) in %s' % (name, ', '.join(parts), _sprepr(ctx.space))


def check_wrapped(ctx, res, ref):
    """Compare a freshly wrapped result with NumPy's array; returns [(symptom, text)]."""
    cls = FAMILY_CLS[ctx.family]
    if not isinstance(res, cls) or (ctx.family == 'tensor'
                                    and isinstance(res, DiscretizedSpaceElement)):
        return [('result_kind_differs', 'expected a %s, got %s' % (cls.__name__, _short(res)))]
    if ctx.family == 'tensor' and type(res.space) is not type(ctx.space):
        return [('result_kind_differs', 'space type %s' % type(res.space).__name__)]
    a = res.asarray()
    out = []
    if a.shape != ref.shape:
        return [('result_shape_differs', 'expected shape %s, got %s' % (ref.shape, a.shape))]
    if a.dtype != ref.dtype:
        out.append(('result_dtype_differs', 'expected dtype %s, got %s' % (ref.dtype, a.dtype)))
        if not _num_equal(a, ref):
            out.append(('values_differ', 'expected %s, got %s' % (_short(ref), _short(a))))
    elif not _bits_equal(a, ref):
        out.append(('values_differ', 'expected %s, got %s' % (_short(ref), _short(a))))
    return out


def check_partition(ctx, method, o_args, kw, res):
    """Domain of a freshly wrapped discretized result, as the docstring of
    DiscretizedSpaceElement.__array_ufunc__ shows it: same-shape results keep the partition
    ("The ``ufunc.accumulate`` method retains the original space"), ``reduce`` keeps the
    partition of the remaining axes (example ``reduce(z, axis=1) -> uniform_discr(0.0, 1.0,
    2)``), ``outer`` concatenates the partitions of its two operands."""
    part = ctx.space.partition
    if method in ('__call__', 'accumulate'):
        want = part
    elif method == 'reduce':
        ax = kw.get('axis', 0)
        if ax is None:
            return []
        ax = (ax,) if not isinstance(ax, tuple) else ax
        red = set(a % ctx.ndim for a in ax)
        rest = [i for i in range(ctx.ndim) if i not in red]
        if not rest:
            return []
        want = part.byaxis[rest]
    elif method == 'outer':
        if not all(isinstance(o, DiscretizedSpaceElement) for o in o_args):
            return []
        want = o_args[0].space.partition.append(o_args[1].space.partition)
    else:
        return []
    got = res.space.partition
    if got != want:
        return [('result_partition_differs', 'result lives on %s, expected %s'
                 % (' '.join(repr(got).split()), ' '.join(repr(want).split())))]
    return []


def check_scalar(res, ref):
    if isinstance(res, (NumpyTensor, DiscretizedSpaceElement, ProductSpaceElement)) \
            or np.ndim(res) != 0:
        return [('result_kind_differs', 'expected the scalar %r, got %s' % (ref, _short(res)))]
    if not _num_equal(res, ref):
        return [('values_differ', 'expected %r, got %r' % (ref, res))]
    return []


def run_case(ctx, uf, method, ops, outspec, kw, ref0=None, extra_tags=()):
    """Execute one combination both ways and record the comparison in ``ctx``.

    ``outspec``: 'none' | kind | 'alias' for one output, a pair for two outputs.
    Returns False when NumPy itself refuses the combination (not applicable).
    """
    nout = uf.nout if method == '__call__' else 1
    o_args, r_args, keep = build_operands(ctx, ops)
    specs = (outspec,) if nout == 1 else tuple(outspec)
    given = any(s != 'none' for s in specs)
    if 'where' in kw and not given and method != 'reduce':
        return False            # entries not selected would be uninitialised memory
    # reference without out (and without `where`): result shapes / dtypes
    if ref0 is None:
        kw0 = dict((k, v) for k, v in kw.items() if k != 'where')
        try:
            ref0 = _call(uf, method, [a.copy() if isinstance(a, np.ndarray) else a
                                      for a in r_args], kw0)
        except Exception:
            ctx.inappl += 1
            return False
    tags = list(extra_tags) + _axis_tags(kw)
    if method == 'reduce' and np.ndim(ref0) == 0:
        # full reduction, however the axes were named
        tags = [t for t in tags if not t.startswith('axis')] + ['scalar-result']
    if nout == 2:
        tags.append('nout=2')
    mix = _mixname(ops)
    if method in ('__call__', 'outer') and mix not in ('E', 'E,E', 'E,E2'):
        tags.append('ops=' + mix)
    if given:
        tags.append('out=' + (specs[0] if nout == 1 else '+'.join(specs)))
    uftag = None
    if method != 'at':
        # the regime odl branches on: is the result dtype still a floating one?
        rk = np.asarray(ref0[0] if nout == 2 else ref0).dtype.kind
        ek = np.dtype(ctx.dt).kind
        uftag = _result_tag(ek, rk)

    def rerun(c2, u, mapped=False):
        run_case(c2, u, method, ops, outspec, _map_kw(kw, ctx.dt, c2.dt) if mapped else kw,
                 extra_tags=extra_tags)

    # ---- build outs
    o_outs, r_outs = [], []
    if method != 'at':
        refs0 = (ref0,) if nout == 1 else tuple(ref0)
        try:
            for s, r0 in zip(specs, refs0):
                if s == 'alias':
                    if (np.shape(r0) != ctx.shape or np.asarray(r0).dtype != np.dtype(ctx.dt)
                            or ops[0][0] != 'E'):
                        raise _NoOut()
                    o_outs.append(o_args[0])
                    r_outs.append(r_args[0])
                else:
                    if s != 'none' and np.ndim(r0) == 0 and s not in ('ndarray', 'nd0', 'nd_own',
                                                                      'nd_wide'):
                        raise _NoOut()
                    if s in ('elem_own', 'nd_own') and \
                            np.asarray(r0).dtype == np.dtype(ctx.dt):
                        raise _NoOut()      # same as 'elem' / 'ndarray'
                    if s in ('nd_own', 'nd_wide') and 'dtype' not in kw:
                        raise _NoOut()      # only of interest with the dtype keyword
                    if s == 'nd_own':
                        # plain ndarray of the element's dtype, not of the keyword's
                        oo, ro = prefill(ctx.dt, np.shape(r0)), prefill(ctx.dt, np.shape(r0))
                    else:
                        oo, ro = mk_out(ctx, s, np.shape(r0), np.asarray(r0).dtype)
                    o_outs.append(oo)
                    r_outs.append(ro)
        except _NoOut:
            return False
        if method == '__call__' and np.shape(refs0[0]) != ctx.shape:
            ctx.skipped += 1    # result larger than the element: unspecified
            return False

    # ---- NumPy on the underlying arrays
    r_kw = dict(kw)
    o_kw = dict(kw)
    if given:
        r_kw['out'] = r_outs[0] if nout == 1 else tuple(r_outs)
        o_kw['out'] = o_outs[0] if nout == 1 else tuple(o_outs)
    try:
        ref = _call(uf, method, r_args, r_kw)
    except Exception:
        ctx.inappl += 1
        return False

    # ---- odl
    desc = None
    ctx.evals += 1
    try:
        res = _call(uf, method, o_args, o_kw)
    except Exception as e:
        if refusal_ok(ctx, method, ops, kw, e):
            ctx.refused += 1
            ctx.sigs.add('%s>refused:%s' % (method, type(e).__name__))
            return True
        desc = _desc(ctx, uf, method, ops, outspec, kw, o_args)
        ctx.fail(method, tags, 'raises:' + type(e).__name__,
                 '%s: NumPy on the arrays gives %s, odl raises %s: %s'
                 % (desc, _short(ref), type(e).__name__, str(e)[:200]), rerun=rerun, uf=uf,
                 uftag=uftag)
        return True

    problems = []
    if method == 'at':
        if res is not None:
            problems.append(('values_differ', 'ufunc.at returned %s instead of None'
                             % _short(res)))
        got = _arr(o_args[0])
        if not _bits_equal(got, r_args[0]):
            problems.append(('values_differ', 'after the call the element holds %s, the array '
                             '%s' % (_short(got), _short(r_args[0]))))
        ctx.sigs.add('at>inplace')
    else:
        ress = (res,) if nout == 1 else (tuple(res) if isinstance(res, tuple) else (res,))
        refs = (ref,) if nout == 1 else tuple(ref)
        if len(ress) != len(refs):
            problems.append(('result_kind_differs', 'expected %d results, got %s'
                             % (len(refs), _short(res))))
        else:
            for i, (s, r1, rf) in enumerate(zip(specs, ress, refs)):
                if s == 'none':
                    if np.ndim(rf) == 0 and not isinstance(rf, np.ndarray):
                        problems.extend(check_scalar(r1, rf))
                        ctx.sigs.add('%s>scalar' % method)
                    elif np.ndim(rf) == 0:
                        problems.extend(check_scalar(r1, rf))
                        ctx.sigs.add('%s>0d' % method)
                    else:
                        pr = check_wrapped(ctx, r1, rf)
                        if not pr and ctx.family == 'discr':
                            pr = check_partition(ctx, method, o_args, kw, r1)
                        problems.extend(pr)
                        ctx.sigs.add('%s>wrapped:%s' % (method, rf.dtype.kind))
                else:
                    if r1 is not o_outs[i]:
                        problems.append(('out_not_returned', 'result %d is %s, not the object '
                                         'given as out' % (i, _short(r1))))
                    got = _arr(o_outs[i])
                    if not _bits_equal(got, r_outs[i]):
                        problems.append(('out_not_written', 'out %d holds %s, NumPy wrote %s'
                                         % (i, _short(got), _short(r_outs[i]))))
                    ctx.sigs.add('%s>out:%s' % (method, s))
    # operands that are not outputs must be untouched (on the odl side and in the reference)
    for i, (oa, a) in enumerate(zip(o_args, keep)):
        if a is None or (method == 'at' and i == 0):
            continue
        if any(oa is oo for oo in o_outs if oo is not None):
            continue
        if not _bits_equal(_arr(oa), a):
            problems.append(('input_modified', 'operand %d changed to %s' % (i, _short(oa))))
    for sym, text in problems:
        if desc is None:
            o2, _, _ = build_operands(ctx, ops)
            desc = _desc(ctx, uf, method, ops, outspec, kw, o2)
        ctx.fail(method, tags, sym, '%s: %s' % (desc, text), rerun=rerun, uf=uf, uftag=uftag)
    return True


# ------------------------------------------------------------------------------------------
# per-section alphabets

def _dtype_kws(ctx, full):
    # every value of the keyword's alphabet in both tiers (down-cast, up-cast, kind change)
    return [{'dtype': d} for d in DTYPE_KW[ctx.dt]]


def _mask(shape):
    n = int(np.prod(shape))
    return (np.arange(n) % 3 != 1).reshape(shape)


def sec_call(ctx, uf, full):
    if uf.__name__ in GUFUNCS:
        ctx.skipped += 1
        return
    sc = SCALAR[ctx.dt]
    if uf.nin == 1:
        mixes = [[('E', 'a1')], [('E', 'a2')]]
    else:
        mixes = []
        for fa, fb in (('a1', 'b1'), ('a2', 'b2')):
            mixes += [[('E', fa), ('E', fb)], [('E', fa), ('A', fb)], [('A', fa), ('E', fb)],
                      [('E', fa), ('S', sc)], [('S', sc), ('E', fb)],
                      [('E', fa), ('B', fb)], [('B', fa), ('E', fb)]]
        mixes += [[('E', 'b1'), ('=',)], [('E', 'a1'), ('L', 'b1')]]
        if ctx.dt in ('float64', 'float32'):
            mixes += [[('E', 'a1'), ('S', 1j)]]
        if ctx.family == 'discr' and full:
            mixes += [[('E', 'a1'), ('T', 'b1')]]
    if uf.nout == 1:
        outs = ['none', 'elem', 'ndarray', 'alias']
        if ctx.family == 'discr':
            outs.append('tensor')
        outs_kw = ['none', 'elem', 'ndarray', 'elem_own', 'nd_own', 'nd_wide']
        outs_full = ['elem_w', 'nd_nc', 'nd_F']
    else:
        outs = [('none', 'none'), ('elem', 'elem'), ('none', 'elem'), ('elem', 'none'),
                ('ndarray', 'ndarray'), ('elem', 'ndarray')]
        if ctx.family == 'discr':
            outs.append(('tensor', 'elem'))
        outs_kw = [('none', 'none'), ('elem', 'elem')]
        outs_full = [('ndarray', 'none'), ('alias', 'none'), ('none', 'alias')]
    if ctx.family == 'power':
        # NumPy refuses a non-ndarray ``out`` for objects without __array_ufunc__ before any odl
        # code runs; ProductSpaceElement documents only __array__ / __array_wrap__.  Counted as
        # unspecified, not judged.
        def _ok(o):
            return all(s in ('none', 'ndarray', 'nd_nc', 'nd_F', 'nd_own', 'nd_wide')
                       for s in ((o,) if isinstance(o, str) else o))
        n0 = len(outs) + len(outs_kw) + len(outs_full)
        outs = [o for o in outs if _ok(o)]
        outs_kw = [o for o in outs_kw if _ok(o)]
        outs_full = [o for o in outs_full if _ok(o)]
        ctx.skipped += n0 - len(outs) - len(outs_kw) - len(outs_full)
    mask = _mask(ctx.shape)
    for mi, ops in enumerate(mixes):
        first_fill = mi == 0 if uf.nin == 1 else (mi < 7 or mi >= 14)
        for o in outs + (outs_full if full else []):
            if run_case(ctx, uf, '__call__', ops, o, {}) is False and o in ('none',
                                                                            ('none', 'none')):
                break           # NumPy refuses these operands altogether
        else:
            if not first_fill and not full:
                continue
            for kw in _dtype_kws(ctx, full):
                for o in outs_kw:
                    run_case(ctx, uf, '__call__', ops, o, kw)
            for o in outs_kw:
                if o in ('none', ('none', 'none')):
                    continue
                run_case(ctx, uf, '__call__', ops, o, {'where': mask})
            if full:
                run_case(ctx, uf, '__call__', ops, outs[0], {'order': 'F'})
                run_case(ctx, uf, '__call__', ops, outs[1] if len(outs) > 1 else outs[0],
                         {'casting': 'unsafe', 'dtype': DTYPE_KW[ctx.dt][0]})
    # operands of another dtype than the element, in every array-like form, both orders
    # (quick: array and Python scalar on the left, everything on the right)
    if uf.nin == 2:
        outs_d = outs[:4] if uf.nout == 1 else outs[:2]
        for order in (0, 1):
            fl2 = 'a1' if order else 'b1'
            more = other_dtype_operands(ctx.dt, fl=fl2) + other_dtype_elements(ctx, fl2)
            if ctx.family == 'discr' and not full:
                if order == 0:
                    more.append(('T', fl2))     # element of the underlying tensor space
                else:
                    # tensor first: NumpyTensor.__array_ufunc__ answers and wraps the result as
                    # a tensor; which operand's kind wins is not said anywhere -> unspecified
                    ctx.skipped += 1
            for x2 in more:
                if order and not full and x2[0] not in ('AD', 'SD', 'E2'):
                    continue
                ops = [('E', 'a1'), x2] if order == 0 else [x2, ('E', 'b1')]
                for o in outs_d:
                    if run_case(ctx, uf, '__call__', ops, o, {}) is False and \
                            o in ('none', ('none', 'none')):
                        break
    _call_foreign_out(ctx, uf)


def _call_foreign_out(ctx, uf):
    """Plain tensors as operands, a discretized element as ``out``: NumpyTensor.__array_ufunc__
    answers NotImplemented for the foreign ``out`` type and NumPy hands the call on to the
    element given as ``out`` ("with out= the result is written into and returned as the given
    element")."""
    if ctx.family != 'discr' or uf.nout != 1:
        return
    ops = [('T', 'a1')] if uf.nin == 1 else [('T', 'a1'), ('T', 'b1')]
    run_case(ctx, uf, '__call__', ops, 'elem', {})


def _axis_alphabet(ndim, full):
    """Every way of naming a set of axes: absent, None, ints (both signs), all subsets."""
    opts = [{}, {'axis': None}]
    for a in range(ndim):
        opts.append({'axis': a})
    for a in range(1, ndim + 1):
        opts.append({'axis': -a})
    for r in range(0, ndim + 1):
        for sub in itertools.combinations(range(ndim), r):
            opts.append({'axis': tuple(sub)})
    if ndim >= 2:
        opts.append({'axis': (0, -1)})
        opts.append({'axis': (-1,)})
        if full:
            opts.append({'axis': (1, 0)})
    return opts


SPECIAL_RED = ('add', 'multiply', 'minimum', 'maximum', 'fmin', 'fmax')


def sec_reduce(ctx, uf, full):
    if uf.nin != 2 or uf.nout != 1 or uf.__name__ in GUFUNCS:
        return
    ops = [('E', 'a1')]
    if ctx.family == 'power':
        outs = ['none', 'ndarray']
        ctx.skipped += 1
    else:
        outs = ['none', 'elem', 'ndarray'] + (['tensor'] if ctx.family == 'discr' else [])
    outs = outs + ['nd_own', 'nd_wide']
    extra = [{}]
    extra += _dtype_kws(ctx, full)
    for ax in _axis_alphabet(ctx.ndim, full):
        if run_case(ctx, uf, 'reduce', ops, 'none', dict(ax)) is False:
            continue
        for kd in ([{}, {'keepdims': True}] + ([{'keepdims': False}] if full else [])):
            for ex in extra:
                kw = dict(ax)
                kw.update(kd)
                kw.update(ex)
                for o in outs:
                    if not kd and not ex and o == 'none':
                        continue
                    run_case(ctx, uf, 'reduce', ops, o, kw)
        if full or ax in ({}, {'axis': None}, {'axis': ctx.ndim - 1}):
            ini = SCALAR[ctx.dt] if ctx.dt != 'complex128' else 2.0
            kw = dict(ax)
            kw['initial'] = ini
            run_case(ctx, uf, 'reduce', ops, 'none', kw)
            kw = dict(kw)
            kw['where'] = _mask(ctx.shape)
            run_case(ctx, uf, 'reduce', ops, 'none', kw)
            run_case(ctx, uf, 'reduce', ops, outs[-1], kw)
    # special values (NaN in each single part / leaf in turn, infinities, signed zeros): the
    # property demands NumPy's numbers whatever the data; a reduction that is assembled from
    # partial results must propagate them exactly as NumPy does on the whole array
    if full or uf.__name__ in SPECIAL_RED:
        if ctx.family == 'power':
            sp_axes = [{'axis': None}]      # partial reductions: see the known findings
        else:
            sp_axes = [{}, {'axis': None}, {'axis': ctx.ndim - 1}]
            if full:
                sp_axes += [{'axis': a} for a in range(ctx.ndim - 1)]
        for fl in special_fills(ctx.dt, ctx.shape):
            for ax in sp_axes:
                run_case(ctx, uf, 'reduce', [('E', fl)], 'none', dict(ax),
                         extra_tags=['special-values'])
    # second fill, default options (thorough: the whole axis alphabet)
    run_case(ctx, uf, 'reduce', [('E', 'b2')], 'none', {})
    run_case(ctx, uf, 'reduce', [('E', 'a2')], 'none', {'axis': None})
    if full:
        for ax in _axis_alphabet(ctx.ndim, full):
            run_case(ctx, uf, 'reduce', [('E', 'a2')], 'none', dict(ax))
            run_case(ctx, uf, 'reduce', [('E', 'b2')], 'ndarray', dict(ax))


def sec_accumulate(ctx, uf, full):
    if uf.nin != 2 or uf.nout != 1 or uf.__name__ in GUFUNCS:
        return
    if ctx.family == 'power':
        outs = ['none', 'ndarray']
        ctx.skipped += 1
    else:
        outs = ['none', 'elem', 'ndarray', 'alias', 'elem_own', 'nd_own', 'nd_wide'] + (
            ['tensor'] if ctx.family == 'discr' else [])
        if full:
            outs += ['elem_w', 'nd_nc']
    axes = [{}] + [{'axis': a} for a in range(ctx.ndim)] + \
        [{'axis': -a} for a in range(1, ctx.ndim + 1)]
    for fl in ('a1', 'b2'):
        ops = [('E', fl)]
        for ax in axes:
            if run_case(ctx, uf, 'accumulate', ops, 'none', dict(ax)) is False:
                break
            for ex in [{}] + _dtype_kws(ctx, True):
                kw = dict(ax)
                kw.update(ex)
                for o in outs:
                    if not ex and o == 'none':
                        continue
                    run_case(ctx, uf, 'accumulate', ops, o, kw)
        if not full:
            break


def sec_outer(ctx, uf, full):
    if uf.nin != 2 or uf.nout != 1 or uf.__name__ in GUFUNCS:
        return
    if ctx.family == 'power':
        # ufunc.outer never consults __array_wrap__: no odl code is involved (unspecified)
        ctx.skipped += 1
        return
    dt = ctx.dt
    seconds = [('E2', 'b1', (2,), '', dt), ('=',), ('A2', 'b1', (2,)), ('S', SCALAR[dt]),
               ('E', 'b2')]
    if dt in FLOATING:
        seconds.append(('E2', 'b1', (2,), 'w', dt))
    if ctx.family == 'discr':
        seconds.append(('E2', 'b1', (2,), 'n', dt))
        seconds.append(('T', 'b1'))
    # operands of every other dtype, as element and as ndarray
    for d2 in DTYPES:
        if d2 != dt and (full or d2 != DTYPE_KW[dt][0]):
            seconds.append(('E2', 'b1', (2,), '', d2))
        if d2 != dt:
            seconds.append(('A2', 'b1', (2,), d2))
    if full:
        seconds.append(('E2', 'b1', (2, 2), '', dt))
        seconds.append(('E2', 'b1', (2,), '', DTYPE_KW[dt][0]))
    outs = ['none', 'ndarray', 'elem', 'nd_own', 'nd_wide'] + (
        ['tensor'] if ctx.family == 'discr' else [])
    for sec in seconds:
        for order in (0, 1):
            if sec[0] == '=':
                if order:
                    continue
                ops = [('E', 'a1'), ('=',)]
            else:
                ops = [('E', 'a1'), sec] if order == 0 else [sec, ('E', 'a1')]
            if ops[0][0] == 'S' or ops[1][0] == 'S':
                if not full:
                    continue
            for ex in [{}] + _dtype_kws(ctx, full):
                for o in outs:
                    if run_case(ctx, uf, 'outer', ops, o, ex) is False and o == 'none':
                        break


def _at_indices(shape, full):
    """Index alphabets for ufunc.at: lists with and without repeated entries, an integer, a
    slice, a boolean mask, tuples mixing them (m = last valid index of the last axis)."""
    m = shape[-1] - 1
    if len(shape) == 1:
        idx = [[0, m], [0, 0, 1], [1], 1, slice(0, 2), np.arange(shape[0]) % 2 == 0]
        if full:
            idx += [np.array([m, 0]), [-1, 0]]
    elif len(shape) == 2:
        idx = [([0, 1], [1, m]), (0, [0, m]), ([1, 1], [0, 0]), 0, (slice(None), 1), [0, 1]]
        if full:
            idx += [(1, m), ([0, -1], [-1, 0])]
    else:
        idx = [([0, 1], [0, 0], [1, m]), 0, (1, 0, [0, 0, m]), (slice(None), 0, 1)]
    return idx


def sec_at(ctx, uf, full):
    if uf.__name__ in GUFUNCS:
        return
    if ctx.family == 'power':
        # "first operand must be array": NumPy refuses before any odl code runs (unspecified)
        ctx.skipped += 1
        return
    for idx in _at_indices(ctx.shape, full):
        tag = ['idx=' + type(idx).__name__]
        probe = np.zeros(ctx.shape)[idx]
        if uf.nin == 1:
            run_case(ctx, uf, 'at', [('E', 'a1'), ('RAW', idx)], 'none', {}, extra_tags=tag)
            if full:
                run_case(ctx, uf, 'at', [('E', 'a2'), ('RAW', idx)], 'none', {},
                         extra_tags=tag)
            continue
        vshape = np.shape(probe)
        vals = [('S', SCALAR[ctx.dt])]
        if len(vshape) == 1:
            v = fill(ctx.dt, vshape, 'b1')
            vals += [('VA', v.tolist()), ('VE', v.tolist()), ('RAW', v.tolist())]
        elif len(vshape) == 2 and full:
            v = fill(ctx.dt, vshape, 'b1')
            vals += [('VA', v.tolist()), ('VE', v.tolist())]
        for vs in vals:
            t = tag + (['vals=' + vs[0]] if vs[0] != 'S' else [])
            if run_case(ctx, uf, 'at', [('E', 'a1'), ('RAW', idx), vs], 'none', {},
                        extra_tags=t) is False:
                break
        else:
            # values of another dtype than the element (NumPy casts them 'same_kind' into the
            # element or refuses: not applicable then)
            more = [v for v in other_dtype_operands(ctx.dt) if v[0] in ('SD', 'SN', 'S0')]
            if len(vshape) == 1:
                more += [('VAD', fill(d2, vshape, 'b1').tolist(), d2)
                         for d2 in DTYPES if d2 != ctx.dt]
            for vs in more:
                run_case(ctx, uf, 'at', [('E', 'a1'), ('RAW', idx), vs], 'none', {},
                         extra_tags=tag + ['vals=' + vs[0]])


def sec_reduceat(ctx, uf, full):
    if uf.nin != 2 or uf.nout != 1 or uf.__name__ in GUFUNCS:
        return
    if ctx.family == 'power':
        outs = ['none', 'ndarray']
        ctx.skipped += 1
    else:
        outs = ['none', 'elem', 'ndarray']
    outs = outs + ['nd_own', 'nd_wide']
    for ax in [{}] + [{'axis': a} for a in range(ctx.ndim)] + [{'axis': -1}]:
        n = ctx.shape[ax.get('axis', 0)]
        cands = [[0], [0, 1], [1, 0], [0, 2, 1], [0, 1, 2], [2, 0, 1, 0]]
        for ind in cands:
            if max(ind) >= n:
                continue
            ops = [('E', 'a1'), ('RAW', ind)]
            for ex in [{}] + _dtype_kws(ctx, full):
                kw = dict(ax)
                kw.update(ex)
                for o in outs:
                    if run_case(ctx, uf, 'reduceat', ops, o, kw) is False and o == 'none':
                        break


SECTIONS = {'call': sec_call, 'reduce': sec_reduce, 'accumulate': sec_accumulate,
            'outer': sec_outer, 'at': sec_at, 'reduceat': sec_reduceat}


# ------------------------------------------------------------------------------------------
# legacy interface  x.ufuncs.<name>(...)

def _legacy_problems(ctx, res, ref, outs_o, outs_r):
    """Compare one legacy call; ``outs_o`` / ``outs_r``: given out objects / reference arrays."""
    problems = []
    nres = len(ref) if isinstance(ref, tuple) else 1
    ress = tuple(res) if isinstance(res, tuple) else (res,)
    refs = ref if isinstance(ref, tuple) else (ref,)
    if len(ress) != nres:
        return [('result_kind_differs', 'expected %d results, got %s' % (nres, _short(res)))]
    for i, (r1, rf) in enumerate(zip(ress, refs)):
        oo = outs_o[i] if outs_o else None
        if oo is None:
            if np.ndim(rf) == 0:
                problems.extend(check_scalar(r1, rf))
                ctx.sigs.add('legacy>scalar')
            else:
                problems.extend(check_wrapped(ctx, r1, rf))
                ctx.sigs.add('legacy>wrapped:%s' % rf.dtype.kind)
        else:
            if r1 is not oo:
                problems.append(('out_not_returned', 'result %d is %s, not the object '
                                 'given as out' % (i, _short(r1))))
            if not _bits_equal(_arr(oo), outs_r[i]):
                problems.append(('out_not_written', 'out %d holds %s, NumPy wrote %s'
                                 % (i, _short(_arr(oo)), _short(outs_r[i]))))
            ctx.sigs.add('legacy>out')
    return problems


def _legacy_one(ctx, name, uf, x_fill, x2spec, outspec, kw, cls, red=None, extra_tags=()):
    """One call of ``x.ufuncs.<name>`` against ``np.<name>`` on the arrays.

    The clause judged here is "the legacy interface agrees with the NumPy call": a deviation
    that ``np.<name>(x, ...)`` on the same element shows as well belongs to __array_ufunc__ /
    __array_wrap__ and is reported by the other sections, not here.
    """
    power = ctx.family == 'power'
    a = fill(ctx.dt, ctx.shape, x_fill)
    x = ctx.elem(a.copy())
    o_args, r_args = [], []
    keep = []
    if x2spec is not None:
        if x2spec[0] in ('C', 'CD'):    # array of the leaf shape (product spaces: "support
            # broadcasting, per component and even recursively" -> handed down to the leaves);
            # 'CD': of another dtype than the element
            b = fill(x2spec[2] if x2spec[0] == 'CD' else ctx.dt, ctx.shape[-1:], x2spec[1])
            o_args, r_args = [b.copy()], [b.copy()]
            keep = [(o_args[0], b)]
        else:
            o, r, b = mk_operand(ctx, x2spec)
            o_args, r_args = [o], [r]
            if b is not None:
                keep = [(o, b)]
    tags = list(extra_tags) + _axis_tags(kw)
    if x2spec is not None and x2spec[0] != 'E':
        tags.append('x2=' + x2spec[0] + (str(x2spec[2]) if x2spec[0] == 'EB' else ''))
    label = 'ufuncs:reduction' if red else 'ufuncs:%d->%d' % (uf.nin, uf.nout)

    def ref_call(arr, rkw):
        if red is None:
            return uf(arr, *[r.copy() if isinstance(r, np.ndarray) else r for r in r_args],
                      **rkw)
        # the legacy reductions default to axis=None (NumPy's sum / prod / amin / amax)
        rkw = dict((k, v) for k, v in rkw.items() if v is not None or k == 'axis')
        rkw.setdefault('axis', None)
        return uf.reduce(arr, **rkw)

    try:
        ref0 = ref_call(a.copy(), kw)
    except Exception:
        ctx.inappl += 1
        return False
    refs0 = ref0 if isinstance(ref0, tuple) else (ref0,)
    specs = outspec if isinstance(outspec, tuple) else (outspec,)
    given = any(s != 'none' for s in specs)
    outs_o, outs_r = [], []
    try:
        for s, r0 in zip(specs, refs0):
            if s == 'alias':
                if np.shape(r0) != ctx.shape or np.asarray(r0).dtype != np.dtype(ctx.dt):
                    raise _NoOut()
                outs_o.append(x)
                outs_r.append(None)
            else:
                if s != 'none' and np.ndim(r0) == 0:
                    raise _NoOut()
                oo, ro = mk_out(ctx, s, np.shape(r0), np.asarray(r0).dtype)
                outs_o.append(oo)
                outs_r.append(ro)
    except _NoOut:
        return False
    if given:
        tags.append('out=' + '+'.join(specs))
    rk, ek = np.asarray(refs0[0]).dtype.kind, np.dtype(ctx.dt).kind
    uftag = _result_tag(ek, rk)
    ra = a.copy()
    r_kw = dict(kw)
    o_kw = dict(kw)
    if given:
        outs_r = [ra if s == 'alias' else r for s, r in zip(specs, outs_r)]
        r_kw['out'] = outs_r[0] if len(outs_r) == 1 else tuple(outs_r)
        if power and len(outs_o) == 2:
            # signature of the product-space wrapper: wrapper(self, out1=None, out2=None)
            o_kw['out1'], o_kw['out2'] = outs_o
        else:
            o_kw['out'] = outs_o[0] if len(outs_o) == 1 else tuple(outs_o)
    try:
        ref = ref_call(ra, r_kw)
    except Exception:
        ctx.inappl += 1
        return False
    text = '%s.element(%s).ufuncs.%s(%s)' % (
        _sprepr(ctx.space), a.tolist(), red or name,
        ', '.join([_short(o) for o in o_args] + ([_kwdesc(kw)] if kw else [])
                  + (['out=<%s>' % '+'.join(specs)] if given else [])))
    ctx.evals += 1
    problems = []
    try:
        res = getattr(x.ufuncs, red or name)(*o_args, **o_kw)
    except Exception as e:
        if refusal_ok(ctx, 'reduce' if red else '__call__', [], kw, e):
            ctx.refused += 1
            ctx.sigs.add('legacy>refused')
            return True
        problems.append(('raises:' + type(e).__name__,
                         'np.%s on the arrays gives %s, odl raises %s: %s'
                         % (name, _short(ref), type(e).__name__, str(e)[:200])))
    else:
        problems = _legacy_problems(ctx, res, ref, outs_o if given else None, outs_r)
        for o, b in keep:
            if not _bits_equal(_arr(o), b):
                problems.append(('input_modified', 'second operand changed'))
        if (not given or 'alias' not in specs) and not _bits_equal(x.asarray(), a):
            problems.append(('input_modified', 'the element itself changed to %s' % _short(x)))
    if not problems:
        return True
    if ctx.control:
        for sym, t in problems:
            ctx.fail(label, tags, sym, t, cls=cls)
        return True
    # the same call through NumPy on the same element(s)
    np_syms = None
    np_ok = not (power and any(s not in ('none', 'ndarray') for s in specs))
    if np_ok:
        c2 = Ctx(ctx.kind, ctx.dt, control=True)
        x2np = x2spec
        if x2spec is not None and x2spec[0] == 'C':
            # per-component broadcasting of a component-shaped array is NumPy's broadcasting
            x2np = ('A2', x2spec[1], ctx.shape[-1:])
        elif x2spec is not None and x2spec[0] == 'CD':
            x2np = ('A2', x2spec[1], ctx.shape[-1:], x2spec[2])
        elif x2spec is not None and x2spec[0] == 'EB':
            x2np = ('A2', x2spec[1], ctx.shape[x2spec[2]:])
        ops = [('E', x_fill)] + ([x2np] if x2np is not None else [])
        if red is None:
            run_case(c2, uf, '__call__', ops, outspec, kw)
        else:
            rkw = dict((k, v) for k, v in kw.items() if v is not None or k == 'axis')
            rkw.setdefault('axis', None)
            run_case(c2, uf, 'reduce', ops, outspec, rkw)
        np_syms = [f[3] for f in c2.fails]

    def rerun(c2, u, mapped=False):
        kw2 = _map_kw(kw, ctx.dt, c2.dt) if mapped else kw
        if u is None:
            _legacy_one(c2, name, uf, x_fill, x2spec, outspec, kw2, cls, red=red,
                        extra_tags=extra_tags)
        else:
            _legacy_one(c2, u.__name__, u, x_fill, x2spec, outspec, kw2, cls,
                        extra_tags=extra_tags)

    for sym, t in problems:
        if np_syms is not None and sym in np_syms:
            ctx.sigs.add('legacy>same-as-numpy-call:' + sym)
            ctx.shared = getattr(ctx, 'shared', 0) + 1
            continue
        ctx.fail(label, tags, sym, '%s: %s' % (text, t), cls=cls, rerun=rerun,
                 uf=None if red else uf, uftag=uftag)
    return True


def _np_function(ctx, fname, fl, kw, special):
    """np.sum / np.prod / np.min / np.max (plain functions that NumPy routes to ufunc.reduce, or
    for power spaces through __array__ / __array_wrap__) on an element against the same function
    on the array."""
    a = fill(ctx.dt, ctx.shape, fl)
    x = ctx.elem(a.copy())
    fn = getattr(np, fname)
    try:
        ref = fn(a.copy(), **kw)
    except Exception:
        ctx.inappl += 1
        return
    tags = (['special-values'] if special else []) + _axis_tags(kw)
    text = 'np.%s(%s%s) in %s' % (fname, _short(x), (', ' + _kwdesc(kw)) if kw else '',
                                  _sprepr(ctx.space))
    label = 'np.sum|prod|min|max'
    ctx.evals += 1
    probs = []
    try:
        res = fn(x, **kw)
    except Exception as e:
        probs.append(('raises:' + type(e).__name__,
                      'NumPy on the array gives %s, odl raises %s: %s'
                      % (_short(ref), type(e).__name__, str(e)[:200])))
    else:
        if np.ndim(ref) == 0:
            probs = check_scalar(res, ref)
            ctx.sigs.add('npfn>scalar')
        else:
            probs = check_wrapped(ctx, res, ref)
            ctx.sigs.add('npfn>wrapped')
        if not _bits_equal(x.asarray(), a):
            probs.append(('input_modified', 'the element changed to %s' % _short(x)))
    if not probs:
        return
    # NumPy routes these functions to <ufunc>.reduce(x, axis=...): a deviation the ufunc method
    # shows as well is reported by the reduce section (its sites), not a second time here
    c2 = Ctx(ctx.kind, ctx.dt, control=True)
    rkw = dict(kw)
    rkw.setdefault('axis', None)
    run_case(c2, UF[{'sum': 'add', 'prod': 'multiply', 'min': 'minimum',
                     'max': 'maximum'}[fname]], 'reduce', [('E', fl)], 'none', rkw)
    shared = [f[3] for f in c2.fails]
    for sym, t in probs:
        if sym in shared:
            ctx.sigs.add('npfn>same-as-ufunc-reduce:' + sym)
            continue
        ctx.fail(label, tags, sym, '%s: %s' % (text, t), cls=ctx.cls)


LEGACY_RED = {'sum': 'add', 'prod': 'multiply', 'min': 'minimum', 'max': 'maximum'}


def sec_legacy(ctx, name, full):
    """x.ufuncs.<name> for one of the names listed in odl.util.ufuncs (or a reduction)."""
    power = ctx.family == 'power'
    cls = 'ProductSpaceUfuncs' if power else 'TensorSpaceUfuncs(%s)' % ctx.cls
    if name in LEGACY_RED:
        uf = UF[LEGACY_RED[name]]
        npfn = {'sum': 'sum', 'prod': 'prod', 'min': 'min', 'max': 'max'}[name]
        specials = special_fills(ctx.dt, ctx.shape)
        if power:
            # documented signature: no arguments
            for fl in ['a1', 'b1', 'a2'] + specials:
                _legacy_one(ctx, LEGACY_RED[name], uf, fl, None, 'none', {}, cls, red=name,
                            extra_tags=['special-values'] if fl in specials else [])
                _np_function(ctx, npfn, fl, {}, fl in specials)
            return
        for fl in ['a1'] + specials:
            for ax in [{}, {'axis': 0}, {'axis': -1}]:
                if fl != 'a1':
                    _legacy_one(ctx, LEGACY_RED[name], uf, fl, None, 'none', dict(ax), cls,
                                red=name, extra_tags=['special-values'])
                _np_function(ctx, npfn, fl, dict(ax), fl in specials)
        axes = [{}, {'axis': None}] + [{'axis': a} for a in range(ctx.ndim)]
        axes += [{'axis': -1}]
        if ctx.ndim >= 2:
            axes += [{'axis': tuple(range(ctx.ndim))}, {'axis': (0,)}]
        outs = ['none', 'elem', 'ndarray'] + (['tensor'] if ctx.family == 'discr' else [])
        for ax in axes:
            for kd in ({}, {'keepdims': True}):
                for ex in [{}] + _dtype_kws(ctx, full):
                    kw = dict(ax)
                    kw.update(kd)
                    kw.update(ex)
                    for o in outs:
                        _legacy_one(ctx, LEGACY_RED[name], uf, 'a1', None, o, kw, cls,
                                    red=name)
        return
    uf = getattr(np, name)
    sc = SCALAR[ctx.dt]
    if uf.nin == 1 and uf.nout == 1:
        outs = ['none', 'elem', 'alias']
        if not power:
            # "As ``out``, a Numpy array or an ODL tensor can be given" (tensor docstring);
            # the product-space namespace documents element outs only
            outs += ['ndarray'] + (['tensor'] if ctx.family == 'discr' else [])
        for fl in ('a1', 'a2'):
            for o in outs:
                if _legacy_one(ctx, name, uf, fl, None, o, {}, cls) is False and o == 'none':
                    break
            if not power:
                for kw in _dtype_kws(ctx, full):
                    for o in ('none', 'elem'):
                        _legacy_one(ctx, name, uf, fl, None, o, kw, cls)
        if not power:
            # keyword options are handed through to NumPy ("See Also: numpy.<name>")
            for o in ('elem', 'ndarray', 'elem_w'):
                _legacy_one(ctx, name, uf, 'a1', None, o,
                            {} if o == 'elem_w' else {'where': _mask(ctx.shape)}, cls)
    elif uf.nin == 1 and uf.nout == 2:
        outs = [('none', 'none'), ('elem', 'elem')]
        if not power:
            outs += [('ndarray', 'ndarray'), ('none', 'elem'), ('elem', 'none')]
        for fl in ('a1', 'a2'):
            for o in outs:
                _legacy_one(ctx, name, uf, fl, None, o, {}, cls)
    elif uf.nin == 2 and uf.nout == 1:
        seconds = [('E', 'b1'), ('S', sc), ('E', 'b2')]
        if power:
            # "can also be used with non-vector arguments and support broadcasting, per
            # component and even recursively": an array of the leaf shape, an element of the
            # base space, and (nested power spaces) an element of the base of the base
            seconds += [('C', 'b1'), ('EB', 'b1', 1)]
            if ctx.ndim >= 3:
                seconds += [('EB', 'b1', 2), ('EB', 'b2', 1)]
        else:
            seconds += [('A', 'b1'), ('B', 'b1'), ('L', 'b1')]
        # second operand of another dtype than the element (wider, narrower, other kind) as
        # ndarray / list / Python scalar / NumPy scalar / 0-d array: "the legacy interface
        # agrees with the NumPy call", i.e. NumPy's promotion of BOTH operands decides numbers
        # and result dtype
        seconds += other_dtype_operands(ctx.dt, leaf=power)
        if not power:
            seconds += other_dtype_elements(ctx)
        if ctx.family == 'discr':
            seconds += [('T', 'b1')]        # element of the underlying tensor space
        outs = ['none', 'elem', 'alias']
        if not power:
            outs += ['ndarray', 'elem_w'] + (['tensor'] if ctx.family == 'discr' else [])
        for x2 in seconds:
            fl = 'a2' if x2[1] == 'b2' else 'a1'
            for o in outs:
                if _legacy_one(ctx, name, uf, fl, x2, o, {}, cls) is False and o == 'none':
                    break
            if not power and x2[0] == 'E' and x2[1] == 'b1':
                for kw in _dtype_kws(ctx, full):
                    for o in ('none', 'elem'):
                        _legacy_one(ctx, name, uf, fl, x2, o, kw, cls)
                for o in ('elem', 'ndarray'):
                    _legacy_one(ctx, name, uf, fl, x2, o, {'where': _mask(ctx.shape)}, cls)


# ------------------------------------------------------------------------------------------
# wrapping, asarray round trip, __array__, __array_wrap__

def sec_wrap(ctx, full):
    sp, dt, shape = ctx.space, np.dtype(ctx.dt), ctx.shape
    base = fill(dt, shape, 'a1')

    def bad(sym, text, tags=()):
        ctx.fail('element', list(tags), sym, '%s in %s' % (text, _sprepr(sp)),
                 cls=type(sp).__name__)

    variants = [('C', base.copy())]
    variants.append(('F', np.array(base, order='F', copy=True)))
    big = np.zeros(shape[:-1] + (2 * shape[-1],), dtype=dt)
    v = big[..., ::2]
    v[...] = base
    variants.append(('strided', v))
    for vname, arr in variants:
        ctx.evals += 1
        try:
            el = sp.element(arr)
        except Exception as e:
            bad('raises:' + type(e).__name__, 'space.element(<%s array>): %r' % (vname, e),
                ['layout=' + vname])
            continue
        got = el.asarray()
        if not _bits_equal(got, base):
            bad('asarray_roundtrip', 'space.element(arr).asarray() = %s for arr = %s'
                % (_short(got), _short(arr)), ['layout=' + vname])
        if ctx.family == 'power':
            # components may or may not be views; the no-copy promise is made by
            # NumpyTensorSpace.element / DiscretizedSpace.element only
            ctx.skipped += 1
            ctx.sigs.add('wrap>power:' + vname)
            continue
        if not np.shares_memory(arr, got):
            bad('memory_not_shared', 'np.shares_memory(arr, space.element(arr).asarray()) is '
                'False for a %s array of matching dtype %s and shape %s' % (vname, dt, shape),
                ['layout=' + vname])
        else:
            # mutations are visible both ways
            el[(0,) * len(shape)] = prefill(dt, ())[()]
            if arr[(0,) * len(shape)] != prefill(dt, ())[()]:
                bad('memory_not_shared', 'writing the element did not change the array',
                    ['layout=' + vname])
            arr[(0,) * len(shape)] = base[(0,) * len(shape)]
            if not _bits_equal(el.asarray(), base):
                bad('memory_not_shared', 'writing the array did not change the element',
                    ['layout=' + vname])
        ctx.sigs.add('wrap>shared:' + vname)
        # np.asarray / __array__
        ctx.evals += 1
        a2 = np.asarray(el)
        if not _bits_equal(a2, base):
            bad('asarray_roundtrip', 'np.asarray(element) = %s' % _short(a2))
        if ctx.family != 'power':
            for d2 in [None] + DTYPE_KW[ctx.dt]:
                try:
                    a3 = el.__array__() if d2 is None else el.__array__(np.dtype(d2))
                except Exception as e:
                    bad('raises:' + type(e).__name__, 'element.__array__(%s): %r' % (d2, e))
                    continue
                with warnings.catch_warnings():
                    warnings.simplefilter('ignore')
                    want = base if d2 is None else base.astype(d2)
                if not _bits_equal(a3, want):
                    bad('asarray_roundtrip', 'element.__array__(%s) = %s' % (d2, _short(a3)))
        # re-wrapping the extracted array gives an equal element sharing the memory
        ctx.evals += 1
        el2 = sp.element(el.asarray())
        if not _bits_equal(el2.asarray(), base):
            bad('asarray_roundtrip', 'space.element(x.asarray()) != x')
        # asarray(out=...)
        o = prefill(dt, shape)
        r = el.asarray(out=o)
        if r is not o or not _bits_equal(o, base):
            bad('asarray_roundtrip', 'x.asarray(out=o) returned %s' % _short(r))
    # not matching dtype / not an array: a copy holding the converted values
    for what, inp in (('list', base.tolist()),
                      ('dtype', base.astype(WIDER.get(ctx.dt, 'complex128')))):
        ctx.evals += 1
        try:
            with warnings.catch_warnings():
                warnings.simplefilter('ignore')
                el = sp.element(inp)
        except Exception as e:
            bad('raises:' + type(e).__name__, 'space.element(<%s>): %r' % (what, e))
            continue
        if not _bits_equal(el.asarray(), base):
            bad('asarray_roundtrip', 'space.element(<%s input>).asarray() = %s, expected %s'
                % (what, _short(el.asarray()), _short(base)))
        ctx.sigs.add('wrap>copy:' + what)
    # read-only input: the code copies ("Make sure the result is writeable, if not make
    # copy"), the docstring promises no copy "whenever possible" -> sharing is not judged,
    # the values are
    ro = base.copy()
    ro.flags.writeable = False
    ctx.evals += 1
    ctx.skipped += 1
    try:
        el = sp.element(ro)
        if not _bits_equal(el.asarray(), base):
            bad('asarray_roundtrip', 'space.element(<read-only array>).asarray() = %s'
                % _short(el.asarray()))
    except Exception as e:
        bad('raises:' + type(e).__name__, 'space.element(<read-only array>): %r' % e)
    if ctx.family != 'power':
        # an element of the space is handed back as it is
        el = sp.element(base.copy())
        ctx.evals += 1
        if sp.element(el) is not el:
            bad('memory_not_shared', 'space.element(x) is not x for x in space')
        # "if ``order`` is provided, also contiguousness in that ordering [is required].  If
        # any of these conditions is not met, a copy is made."
        for vname, arr in (('C', base.copy()), ('F', np.array(base, order='F', copy=True))):
            for order in ('C', 'F'):
                ctx.evals += 1
                try:
                    el = sp.element(arr, order=order)
                except Exception as e:
                    bad('raises:' + type(e).__name__, 'space.element(<%s array>, order=%r): %r'
                        % (vname, order, e), ['order'])
                    continue
                got = el.asarray()
                contiguous = arr.flags['C_CONTIGUOUS' if order == 'C' else 'F_CONTIGUOUS']
                if not _bits_equal(got, base):
                    bad('asarray_roundtrip', 'space.element(<%s array>, order=%r).asarray() = '
                        '%s' % (vname, order, _short(got)), ['order'])
                elif not got.flags['C_CONTIGUOUS' if order == 'C' else 'F_CONTIGUOUS']:
                    bad('asarray_roundtrip', 'space.element(<%s array>, order=%r) is not %s-'
                        'contiguous' % (vname, order, order), ['order'])
                elif contiguous and not np.shares_memory(arr, got):
                    bad('memory_not_shared', 'space.element(<%s array>, order=%r) copied an '
                        'array that is already contiguous in that order' % (vname, order),
                        ['order'])
                ctx.sigs.add('wrap>order:%s%s' % (vname, order))
    # "Elements can also be constructed from a data pointer, resulting again in shared memory"
    # (NumpyTensorSpace.element; "order must be either 'C' or 'F'", the array contiguous)
    if ctx.family == 'tensor':
        for order in ('C', 'F'):
            arr = np.array(base, order=order, copy=True)
            for src in ('array', 'element'):
                ctx.evals += 1
                tg = ['data_ptr']
                try:
                    holder = arr if src == 'array' else sp.element(arr, order=order)
                    ptr = arr.ctypes.data if src == 'array' else holder.data_ptr
                    el = sp.element(data_ptr=ptr, order=order)
                except Exception as e:
                    bad('raises:' + type(e).__name__, 'space.element(data_ptr=<pointer of a %s-'
                        'ordered %s>, order=%r): %r' % (order, src, order, e), tg)
                    continue
                got = el.asarray()
                if not _bits_equal(got, base):
                    bad('asarray_roundtrip', 'space.element(data_ptr=<pointer of a %s-ordered '
                        '%s holding %s>, order=%r).asarray() = %s'
                        % (order, src, _short(base), order, _short(got)), tg)
                    continue
                i0 = (0,) * len(shape)
                el[i0] = prefill(dt, ())[()]
                if arr[i0] != prefill(dt, ())[()]:
                    bad('memory_not_shared', 'writing the element built from a data pointer did '
                        'not change the array (order=%r)' % order, tg)
                arr[i0] = base[i0]
                if not _bits_equal(el.asarray(), base):
                    bad('memory_not_shared', 'writing the array did not change the element '
                        'built from its data pointer (order=%r)' % order, tg)
                ctx.sigs.add('wrap>data_ptr:' + order)
            del arr
    # __array_wrap__
    el = sp.element(base.copy())
    arr = fill(dt, shape, 'b1')
    ctx.evals += 1
    try:
        w = el.__array_wrap__(arr)
        probs = check_wrapped(ctx, w, arr)
        for sym, text in probs:
            bad(sym, 'x.__array_wrap__(arr): ' + text)
        if not probs and ctx.family != 'power' and not np.shares_memory(w.asarray(), arr):
            bad('memory_not_shared', 'x.__array_wrap__(arr) copied an array of matching dtype '
                'and shape')
        ctx.sigs.add('wrap>array_wrap')
    except Exception as e:
        bad('raises:' + type(e).__name__, 'x.__array_wrap__(arr): %r' % e)
    # 0-d arrays are handed to the field (undocumented arm; spaces over a non-numeric dtype
    # have no field -> not judged there)
    if getattr(sp, 'field', None) is not None or ctx.family == 'power':
        ctx.evals += 1
        z = fill(dt, (), 'b1')
        try:
            w = el.__array_wrap__(z)
            if np.ndim(w) != 0 or not _num_equal(w, z):
                bad('values_differ', 'x.__array_wrap__(%s) = %s' % (_short(z), _short(w)),
                    ['0-d'])
            ctx.sigs.add('wrap>array_wrap0d')
        except Exception as e:
            bad('raises:' + type(e).__name__, 'x.__array_wrap__(<0-d array>): %r' % e, ['0-d'])
    else:
        ctx.skipped += 1


# ------------------------------------------------------------------------------------------
# H-part: histories of in-place operations against an ndarray mirror

HIST_OTHER = {'float64': 'float32', 'float32': 'float64', 'complex128': 'float64',
              'int64': 'bool', 'bool': 'bool'}


def _hist_ops(ctx):
    nd = ctx.ndim
    m = ctx.shape[-1] - 1
    if nd == 1:
        i1, i2, i3 = [0, m], [0, 0, 1], [1]
    elif nd == 2:
        i1, i2, i3 = ([0, 1], [1, m]), ([1, 1], [0, 0]), (0, [0, m])
    else:
        i1, i2, i3 = ([0, 1], [0, 0], [1, m]), ([1, 1], [0, 0], [0, 0]), (0, 0, [0, m])
    n1 = len(np.zeros(ctx.shape)[i1])
    v1 = fill(ctx.dt, (n1,), 'b1')
    sc = SCALAR[ctx.dt]
    w = fill(HIST_OTHER[ctx.dt], ctx.shape, 'b2')
    ops = [
        ('add.at(x,i1,v)', lambda x, y: np.add.at(x, i1, v1.copy())),
        ('multiply.at(x,i2,s)', lambda x, y: np.multiply.at(x, i2, sc)),
        ('negative.at(x,i3)', lambda x, y: np.negative.at(x, i3)),
        ('add(x,y,out=x)', lambda x, y: np.add(x, y, out=x)),
        ('multiply(x,s,out=x)', lambda x, y: np.multiply(x, sc, out=x)),
        ('subtract(y,x,out=x)', lambda x, y: np.subtract(y, x, out=x)),
        ('maximum(x,y,out=y)', lambda x, y: np.maximum(x, y, out=y)),
        ('add.accumulate(x,out=x)', lambda x, y: np.add.accumulate(x, out=x)),
        ('square(x,out=x)', lambda x, y: np.square(x, out=x)),
        ('multiply.at(y,i1,v)', lambda x, y: np.multiply.at(y, i1, v1.copy())),
        # operand of another dtype, result cast into the element ('same_kind')
        ('add(x,w,out=x)', lambda x, y: np.add(x, w.copy(), out=x)),
    ]
    return ops


def sec_hist(ctx, full):
    ops = _hist_ops(ctx)
    legacy = [('x.ufuncs.add(y,out=x)', lambda x, y: x.ufuncs.add(y, out=x),
               lambda x, y: np.add(x, y, out=x)),
              ('y.ufuncs.square(out=y)', lambda x, y: y.ufuncs.square(out=y),
               lambda x, y: np.square(y, out=y))]
    allops = [(n, f, f) for n, f in ops] + legacy
    depth = 3 if full and ctx.ndim <= 2 else 2
    ax = fill(ctx.dt, ctx.shape, 'a1')
    ay = fill(ctx.dt, ctx.shape, 'b1')
    for seq in itertools.product(range(len(allops)), repeat=depth):
        x, y = ctx.elem(ax.copy()), ctx.elem(ay.copy())
        mx, my = ax.copy(), ay.copy()
        names = []
        for k in seq:
            name, fo, fr = allops[k]
            names.append(name)
            try:
                fr(mx, my)
            except Exception:
                ctx.inappl += 1
                break
            ctx.evals += 1
            tags = ['depth=%d' % len(names)] if len(names) > 1 else []
            try:
                fo(x, y)
            except Exception as e:
                ctx.fail('history', tags, 'raises:' + type(e).__name__,
                         'sequence %s on x=%s, y=%s in %s: %r'
                         % (' ; '.join(names), ax.tolist(), ay.tolist(),
                            _sprepr(ctx.space), e))
                break
            if not (_bits_equal(x.asarray(), mx) and _bits_equal(y.asarray(), my)):
                ctx.fail('history', tags, 'values_differ',
                         'sequence %s on x=%s, y=%s in %s: elements hold x=%s y=%s, the ndarray '
                         'mirror x=%s y=%s' % (' ; '.join(names), ax.tolist(), ay.tolist(),
                                               _sprepr(ctx.space),
                                               x.asarray().tolist(), y.asarray().tolist(),
                                               mx.tolist(), my.tolist()))
                break
        else:
            ctx.sigs.add('hist>ok')


# ------------------------------------------------------------------------------------------
# power spaces: memory layout of the parts.  A ProductSpaceElement is a list of part elements;
# where their arrays live (separate arrays, rows of one array in order, rows in another order,
# columns, the same object twice, rows of a larger array) must not matter: the element *is* the
# stack of its parts taken one by one.

PART_LAYOUTS = ['separate', 'rows', 'rev-slice', 'perm-index', 'rev-element', 'twice',
                'bigger', 'columns']


def _stack(x):
    """The array of an element assembled from its parts one by one (never x.asarray())."""
    if isinstance(x, ProductSpaceElement):
        return np.stack([_stack(p) for p in x.parts])
    return np.array(x.asarray(), copy=True)


def build_parts(ctx, layout, which, prefilled=False):
    """(element, expected array, arrays to keep alive) for a part layout; None if the layout
    does not exist for the kind."""
    sp, n = ctx.space, ctx.shape[0]
    # an array that owns its memory (fill() hands out reshaped views of a flat array)
    B = (prefill(ctx.dt, ctx.shape) if prefilled else fill(ctx.dt, ctx.shape, which)).copy()
    perm = list(range(n))[::-1] if n == 2 else list(range(1, n)) + [0]
    if layout == 'separate':
        return sp.element([sp[0].element(B[i].copy()) for i in range(n)]), B.copy(), [B]
    x = sp.element(B)
    if layout == 'rows':
        return x, B.copy(), [B]
    if layout == 'rev-slice':
        return x[::-1], B[::-1].copy(), [B, x]
    if layout == 'perm-index':
        return x[perm], B[perm].copy(), [B, x]
    if layout == 'rev-element':
        return sp.element([x[i] for i in reversed(range(n))]), B[::-1].copy(), [B, x]
    if layout == 'twice':
        idx = list(range(n - 1)) + [0]
        return sp.element([x[i] for i in idx]), B[idx].copy(), [B, x]
    if layout == 'bigger':
        other = fill(ctx.dt, ctx.shape, 'b2' if which != 'b2' else 'a1')
        big = np.concatenate([B, other[:1]])
        order = list(range(n, 0, -1))
        return (sp.element([sp[0].element(big[k]) for k in order]), big[order].copy(), [big])
    if layout == 'columns':
        if ctx.ndim != 2:
            return None
        S = B.T.copy()
        return sp.element([sp[0].element(S[:, i]) for i in range(n)]), B.copy(), [S]
    raise KeyError(layout)


def sec_parts(ctx, layout, full):
    built = build_parts(ctx, layout, 'a1')
    if built is None:
        ctx.skipped += 1
        return
    xp, E, keep = built
    tags = ['parts=' + layout]
    sp = xp.space
    Eb = fill(ctx.dt, ctx.shape, 'b1')
    sc = SCALAR[ctx.dt]
    where = 'x built with parts layout %r from %s in %s' % (layout, _short(E), _sprepr(sp))

    def bad(cls, method, sym, text):
        ctx.fail(method, tags, sym, '%s: %s' % (text, where), cls=cls)

    def same(cls, method, what, got, want):
        ctx.evals += 1
        if not _bits_equal(got, want):
            bad(cls, method, 'values_differ', '%s = %s, expected %s'
                % (what, _short(np.asarray(got)), _short(want)))
            return False
        return True

    def guarded(cls, method, what, f):
        try:
            return True, f()
        except Exception as e:
            ctx.evals += 1
            bad(cls, method, 'raises:' + type(e).__name__, '%s raises %r' % (what, e))
            return False, None

    PE, PU = 'ProductSpaceElement', 'ProductSpaceUfuncs'
    # --- the element is the stack of its parts; asarray and the round trip reproduce them
    same(PE, 'parts', 'stack of the parts', _stack(xp), E)
    ok, A = guarded(PE, 'asarray', 'x.asarray()', lambda: xp.asarray())
    if ok:
        same(PE, 'asarray', 'x.asarray()', A, E)
        # (whether the returned array may alias the parts is not documented -> not judged)
    xp, E, keep = build_parts(ctx, layout, 'a1')
    ok, A = guarded(PE, 'asarray', 'np.asarray(x)', lambda: np.asarray(xp))
    if ok:
        same(PE, 'asarray', 'np.asarray(x)', A, E)
    o = prefill(ctx.dt, ctx.shape)
    ok, r = guarded(PE, 'asarray', 'x.asarray(out=o)', lambda: xp.asarray(out=o))
    if ok:
        same(PE, 'asarray', 'x.asarray(out=o)', o, E)
    ok, xr = guarded(PE, 'asarray', 'space.element(x.asarray())',
                     lambda: sp.element(xp.asarray()))
    if ok:
        same(PE, 'asarray', 'parts of space.element(x.asarray())', _stack(xr), E)
        ctx.evals += 1
        if not (xr == xp):
            bad(PE, 'asarray', 'asarray_roundtrip', 'space.element(x.asarray()) == x is False')
    ctx.sigs.add('parts>' + layout)

    y = sp.element(Eb.copy())

    def wrapped(cls, method, what, res, ref):
        """A fresh result: power-space element whose parts hold NumPy's numbers."""
        ctx.evals += 1
        if ref.dtype != E.dtype:
            # dtype-changing results of power-space elements: the known __array_wrap__
            # findings, judged in the call section
            ctx.evals -= 1
            ctx.inappl += 1
            return
        if np.ndim(ref) == 0:
            for sym, t in check_scalar(res, ref):
                bad(cls, method, sym, '%s: %s' % (what, t))
            return
        if not isinstance(res, ProductSpaceElement):
            bad(cls, method, 'result_kind_differs', '%s gives %s' % (what, _short(res)))
            return
        got = _stack(res)
        if not _bits_equal(got, ref):
            bad(cls, method, 'values_differ', '%s gives parts %s, NumPy on the stacked parts '
                'gives %s' % (what, _short(got), _short(ref)))

    def np_case(method, what, f_odl, f_ref):
        try:
            ref = f_ref()
        except Exception:
            ctx.inappl += 1
            return
        ok, res = guarded(PE, method, what, f_odl)
        if ok:
            wrapped(PE, method, what, res, ref)

    # --- NumPy calls (dtype preserving ufuncs)
    for name in ('negative', 'conjugate', 'square'):
        u = UF[name]
        np_case('np.__call__', 'np.%s(x)' % name, lambda: u(xp), lambda: u(E))
    for name in ('subtract', 'maximum', 'multiply'):
        u = UF[name]
        np_case('np.__call__', 'np.%s(x, y)' % name, lambda: u(xp, y), lambda: u(E, Eb))
        np_case('np.__call__', 'np.%s(y, x)' % name, lambda: u(y, xp), lambda: u(Eb, E))
        np_case('np.__call__', 'np.%s(x, arr)' % name, lambda: u(xp, Eb.copy()),
                lambda: u(E, Eb))
        np_case('np.__call__', 'np.%s(arr, x)' % name, lambda: u(Eb.copy(), xp),
                lambda: u(Eb, E))
        np_case('np.__call__', 'np.%s(x, %r)' % (name, sc), lambda: u(xp, sc),
                lambda: u(E, sc))
        np_case('np.__call__', 'np.%s(x, x)' % name, lambda: u(xp, xp), lambda: u(E, E))
        # out given as ndarray
        try:
            ro = prefill(ctx.dt, ctx.shape)
            u(E, Eb, out=ro)
        except Exception:
            ctx.inappl += 1
        else:
            oo = prefill(ctx.dt, ctx.shape)
            ok, res = guarded(PE, 'np.__call__', 'np.%s(x, y, out=arr)' % name,
                              lambda: u(xp, y, out=oo))
            if ok:
                same(PE, 'np.__call__', 'np.%s(x, y, out=arr)' % name, oo, ro)
        np_case('np.accumulate', 'np.%s.accumulate(x)' % name,
                lambda: u.accumulate(xp), lambda: u.accumulate(E))
        np_case('np.reduce', 'np.%s.reduce(x, axis=None)' % name,
                lambda: u.reduce(xp, axis=None), lambda: u.reduce(E, axis=None))
    for fname in ('sum', 'min', 'max'):
        fn = getattr(np, fname)
        np_case('np.reduce', 'np.%s(x)' % fname, lambda: fn(xp), lambda: fn(E))
    same(PE, 'parts', 'stack of the parts after the calls (operands untouched)', _stack(xp), E)

    # --- legacy namespace: agrees with NumPy on the stacked parts
    def leg_case(what, f_odl, f_ref):
        try:
            ref = f_ref()
        except Exception:
            ctx.inappl += 1
            return
        ok, res = guarded(PU, 'ufuncs', what, f_odl)
        if ok:
            wrapped(PU, 'ufuncs', what, res, ref)

    for name, lname in (('negative', 'negative'), ('conjugate', 'conj'), ('square', 'square')):
        u = UF[name]
        leg_case('x.ufuncs.%s()' % lname, lambda: getattr(xp.ufuncs, lname)(), lambda: u(E))
        # out: an element in row order, and an element with this very parts layout
        try:
            ref = u(Eb)
        except Exception:
            ctx.inappl += 1
            continue
        if ref.dtype != E.dtype:
            continue
        for oname, ob in (('rows', build_parts(ctx, 'rows', 'a1', True)),
                          (layout, build_parts(ctx, layout, 'a1', True))):
            oel = ob[0]
            if layout == 'twice' and oname == 'twice':
                continue        # an out whose parts overlap has no defined content
            what = 'y.ufuncs.%s(out=<element with parts layout %r>)' % (lname, oname)
            ok, res = guarded(PU, 'ufuncs', what, lambda: getattr(y.ufuncs, lname)(out=oel))
            if ok:
                ctx.evals += 1
                if res is not oel:
                    bad(PU, 'ufuncs', 'out_not_returned', what)
                same(PU, 'ufuncs', 'parts of out after ' + what, _stack(oel), ref)
    for name in ('subtract', 'maximum', 'multiply'):
        u = UF[name]
        leg_case('x.ufuncs.%s(y)' % name, lambda: getattr(xp.ufuncs, name)(y),
                 lambda: u(E, Eb))
        leg_case('y.ufuncs.%s(x)' % name, lambda: getattr(y.ufuncs, name)(xp),
                 lambda: u(Eb, E))
        leg_case('x.ufuncs.%s(%r)' % (name, sc), lambda: getattr(xp.ufuncs, name)(sc),
                 lambda: u(E, sc))
        leg_case('x.ufuncs.%s(x)' % name, lambda: getattr(xp.ufuncs, name)(xp),
                 lambda: u(E, E))
    for red, fn in (('sum', np.sum), ('prod', np.prod), ('min', np.min), ('max', np.max)):
        leg_case('x.ufuncs.%s()' % red, lambda: getattr(xp.ufuncs, red)(), lambda: fn(E))
    same(PE, 'parts', 'stack of the parts after the legacy calls', _stack(xp), E)
    del keep


# ------------------------------------------------------------------------------------------
# base-class Tensor.__array_ufunc__ (what a non-NumPy back-end inherits): "casts inputs and
# outputs to Numpy arrays and evaluates ``ufunc`` on those ... If no ``out`` parameter is
# provided, this implementation just returns the raw array"

def sec_base(ctx, method, full):
    base = Tensor.__array_ufunc__
    for uf in UFUNCS:
        if uf.__name__ in GUFUNCS:
            continue
        a, b = fill(ctx.dt, ctx.shape, 'a1'), fill(ctx.dt, ctx.shape, 'b1')
        if method == '__call__':
            argsets = [[a]] if uf.nin == 1 else [[a, b], [a, SCALAR[ctx.dt]]]
            kws = [{}] + _dtype_kws(ctx, full)
        elif uf.nin != 2 or uf.nout != 1:
            if not (method == 'at' and uf.nout == 1):
                continue
            argsets = [[a, [0, 0]]]
            kws = [{}]
        elif method == 'reduce':
            argsets = [[a]]
            kws = [{}, {'axis': None}, {'axis': -1}, {'keepdims': True}] + _dtype_kws(ctx, full)
        elif method == 'accumulate':
            argsets = [[a]]
            kws = [{}, {'axis': -1}] + _dtype_kws(ctx, full)
        elif method == 'outer':
            argsets = [[a, b]]
            kws = [{}]
        elif method == 'reduceat':
            argsets = [[a, [0, 1]]]
            kws = [{}]
        elif method == 'at':
            argsets = [[a, [0, 0], SCALAR[ctx.dt]]]
            kws = [{}]
        for args in argsets:
            for kw in kws:
                for outk in (('none',) if method == 'at' else ('none', 'elem', 'ndarray')):
                    r_args = [x.copy() if isinstance(x, np.ndarray) else x for x in args]
                    try:
                        ref0 = _call(uf, method, [x.copy() if isinstance(x, np.ndarray) else x
                                                  for x in args], kw)
                    except Exception:
                        ctx.inappl += 1
                        break
                    nout = uf.nout if method == '__call__' else 1
                    refs0 = ref0 if isinstance(ref0, tuple) else (ref0,)
                    o_args = [ctx.elem(x.copy()) if isinstance(x, np.ndarray) else x
                              for x in args]
                    okw, rkw = dict(kw), dict(kw)
                    o_outs = r_outs = None
                    if outk != 'none':
                        if any(np.ndim(r) == 0 for r in refs0):
                            continue
                        pairs = [mk_out(ctx, outk, np.shape(r), np.asarray(r).dtype)
                                 for r in refs0]
                        o_outs = tuple(p[0] for p in pairs)
                        r_outs = tuple(p[1] for p in pairs)
                        okw['out'] = o_outs
                        rkw['out'] = r_outs[0] if nout == 1 else r_outs
                    try:
                        ref = _call(uf, method, r_args, rkw)
                    except Exception:
                        ctx.inappl += 1
                        continue
                    tags = _axis_tags(kw) + (['out=' + outk] if outk != 'none' else [])
                    text = 'Tensor.__array_ufunc__(x, np.%s, %r, %s%s) with x=%s' % (
                        uf.__name__, method, ', '.join(_short(v) for v in args[1:]),
                        (', ' + _kwdesc(kw)) if kw else '', _short(o_args[0]))
                    ctx.evals += 1
                    try:
                        res = base(o_args[0], uf, method, *o_args, **okw)
                    except Exception as e:
                        ctx.fail(method, tags, 'raises:' + type(e).__name__,
                                 '%s: expected %s, raises %r' % (text, _short(ref), e),
                                 cls='Tensor(base)')
                        continue
                    if method == 'at':
                        ok = res is None and _bits_equal(o_args[0].asarray(), r_args[0])
                        got = o_args[0].asarray()
                        want = r_args[0]
                    elif o_outs is None:
                        ress = res if isinstance(res, tuple) else (res,)
                        refs = ref if isinstance(ref, tuple) else (ref,)
                        ok = len(ress) == len(refs) and all(
                            _bits_equal(np.asarray(r1), np.asarray(r2))
                            for r1, r2 in zip(ress, refs))
                        got, want = res, ref
                    else:
                        ok = all(_bits_equal(_arr(o), r) for o, r in zip(o_outs, r_outs))
                        got, want = tuple(_arr(o) for o in o_outs), r_outs
                    ctx.sigs.add('base>%s:%s' % (method, outk))
                    if not ok:
                        ctx.fail(method, tags, 'values_differ', '%s: expected %s, got %s'
                                 % (text, _short(want), _short(got)), cls='Tensor(base)')


# ------------------------------------------------------------------------------------------
# configurations

QUICK_KINDS = ['t3', 't23', 'd3', 'd23', 'p2t3']
QUICK_FLOAT_KINDS = ['t3w', 't23a', 'd3w', 'd22', 'd3a', 'd23a', 'd23n', 't213', 'd213',
                     'p2d3']
METHODS = ['call', 'reduce', 'accumulate', 'outer', 'at', 'reduceat']


def _kind_dtypes(tier):
    """(kind, dtype) pairs of a tier, simplest first."""
    out = []
    if tier == 'quick':
        for k in QUICK_KINDS:
            for dt in DTYPES:
                out.append((k, dt))
        for k in QUICK_FLOAT_KINDS:
            out.append((k, 'float64'))
        return out
    for k in KIND_ORDER:
        for dt in DTYPES:
            if KINDS[k][2] and dt not in FLOATING:
                continue
            if k in ('t23a', 'd3a', 'd23a') and dt == 'float32':
                continue        # float64 weights cannot be given to a float32 space
            out.append((k, dt))
    return out


def _applicable(sec, uf, family):
    if sec == 'call':
        return True
    if sec == 'at':
        return uf.nout == 1 and uf.signature is None
    return uf.nin == 2 and uf.nout == 1 and uf.signature is None


def configs(tier):
    cfgs = []
    kd = _kind_dtypes(tier)
    fl = 1 if tier == 'thorough' else 0
    for k, dt in kd:
        cfgs.append({'sec': 'wrap', 'kind': k, 'dtype': dt, 'full': fl})
    for sec in METHODS:
        for k, dt in kd:
            for uf in UFUNCS:
                if not _applicable(sec, uf, KINDS[k][0]):
                    continue
                cfgs.append({'sec': sec, 'kind': k, 'dtype': dt, 'ufunc': uf.__name__,
                             'full': fl})
    names = [u[0] for u in OU.UFUNCS] + sorted(LEGACY_RED)
    # the nested power space belongs to the thorough tier, except for the legacy namespace,
    # whose recursive per-component broadcasting only a nested space exercises
    kd_legacy = kd + ([('p2p2t3', 'float64'), ('p3t2w', 'float64')] if tier == 'quick' else [])
    for k, dt in kd_legacy:
        for name in names:
            cfgs.append({'sec': 'legacy', 'kind': k, 'dtype': dt, 'ufunc': name, 'full': fl})
    for k, dt in kd:
        if KINDS[k][0] != 'power':
            cfgs.append({'sec': 'hist', 'kind': k, 'dtype': dt, 'full': fl})
    kd_parts = [(k, dt) for k, dt in kd if KINDS[k][0] == 'power']
    if tier == 'quick':
        kd_parts += [('p3t2w', 'float64'), ('p2p2t3', 'float64')]
    for k, dt in kd_parts:
        for lay in PART_LAYOUTS:
            cfgs.append({'sec': 'parts', 'kind': k, 'dtype': dt, 'layout': lay, 'full': fl})
    for k, dt in kd:
        if KINDS[k][0] == 'tensor' and (tier == 'thorough' or k in ('t3', 't23')):
            for m in ['__call__', 'reduce', 'accumulate', 'outer', 'at', 'reduceat']:
                cfgs.append({'sec': 'base', 'kind': k, 'dtype': dt, 'method': m, 'full': fl})
    # arrays handed out earlier must survive later conversions of the (modified) element
    for sname in ARRHIST_SPACES:
        for how in ('asarray', 'array_nocopy', '__array__', 'ufunc_operand'):
            cfgs.append({'sec': 'arrhist', 'kind': sname, 'dtype': 'float64', 'how': how, 'full': fl})
    return cfgs


ARRHIST_SPACES = ['rn3^2', 'rn2^3w', 'ud3^2', 'cn2^2', '(rn2^2)^2', 'rn3', 'ud3']


def run_arrhist(cfg):
    """a1 = array of x; x is modified in place; a2 = array of x.  An array handed out earlier that
    does not share memory with the data of x is the caller's: later conversions of x must not
    write into it (for tensors and discretized elements the array IS the data and follows x)."""
    import odl
    sp = {'rn3^2': lambda: odl.rn(3) ** 2,
          'rn2^3w': lambda: odl.ProductSpace(odl.rn(2), 3, weighting=2.0),
          'ud3^2': lambda: odl.uniform_discr(0, 1, 3) ** 2, 'cn2^2': lambda: odl.cn(2) ** 2,
          '(rn2^2)^2': lambda: (odl.rn(2) ** 2) ** 2, 'rn3': lambda: odl.rn(3),
          'ud3': lambda: odl.uniform_discr(0, 1, 3)}[cfg['kind']]()
    x = sp.one()
    x *= 3
    conv = {'asarray': lambda e: np.asarray(e), 'array_nocopy': lambda e: np.array(e, copy=False),
            '__array__': lambda e: e.__array__(),
            'ufunc_operand': lambda e: np.asarray(np.add(e, 0))}[cfg['how']]
    site = '%s.__array__[history;%s]' % (type(x).__name__, cfg['how'])
    viol = {}
    evals = 0

    def leaves(e):
        if isinstance(e.space, odl.ProductSpace):
            return [l for part in e for l in leaves(part)]
        return [np.asarray(e.tensor.data if hasattr(e, 'tensor') else e.data)]
    try:
        a1 = conv(x)
        v1 = np.array(a1, copy=True)
        private = not any(np.shares_memory(a1, l) for l in leaves(x))
        x *= 2
        a2 = conv(x)
        evals += 2
        if not np.array_equal(np.asarray(a2), 2 * v1):
            viol['values_differ'] = 'after x *= 2 the array of x is %s, expected %s' % (
                np.asarray(a2).tolist(), (2 * v1).tolist())
        if private and not np.array_equal(a1, v1):
            viol['earlier_array_overwritten_by_later_conversion'] = (
                'a1 = array of x (no memory shared with the parts of x) held %s; after x *= 2 and a '
                'second conversion it holds %s' % (v1.tolist(), np.asarray(a1).tolist()))
        d = np.asarray(np.subtract(x, a1))
        evals += 1
        if private and not np.array_equal(d, v1):
            viol['values_differ_with_earlier_array_as_operand'] = (
                'np.subtract(x, a1) = %s, expected %s' % (d.tolist(), v1.tolist()))
        # a third conversion after another update, the second array is held as well
        v2 = np.array(a2, copy=True)
        private2 = not any(np.shares_memory(a2, l) for l in leaves(x))
        x += x.space.one()
        a3 = conv(x)
        evals += 1
        if private2 and not np.array_equal(a2, v2):
            viol.setdefault('earlier_array_overwritten_by_later_conversion',
                            'second array changed from %s to %s' % (v2.tolist(),
                                                                    np.asarray(a2).tolist()))
        if not np.array_equal(np.asarray(a3), 2 * v1 + 1):
            viol.setdefault('values_differ', 'third conversion: %s' % np.asarray(a3).tolist())
    except Exception as e:       # noqa
        viol['raises:' + type(e).__name__] = repr(e)[:200]
        evals += 1
    return {'evals': evals, 'viol': [{'site': site, 'symptom': k, 'detail': d_}
                                     for k, d_ in viol.items()],
            'sig': '%s:%s' % (site, ','.join(sorted(viol)) or 'ok'), 'trivial': evals == 0}


def run(cfg):
    if cfg['sec'] == 'arrhist':
        with np.errstate(all='ignore'), warnings.catch_warnings():
            warnings.simplefilter('ignore')
            return run_arrhist(cfg)
    with np.errstate(all='ignore'), warnings.catch_warnings():
        warnings.simplefilter('ignore')
        ctx = Ctx(cfg['kind'], cfg['dtype'])
        full = bool(cfg.get('full', 0))
        sec = cfg['sec']
        if sec in SECTIONS:
            SECTIONS[sec](ctx, UF[cfg['ufunc']], full)
        elif sec == 'legacy':
            sec_legacy(ctx, cfg['ufunc'], full)
        elif sec == 'wrap':
            sec_wrap(ctx, full)
        elif sec == 'hist':
            sec_hist(ctx, full)
        elif sec == 'parts':
            sec_parts(ctx, cfg['layout'], full)
        elif sec == 'base':
            sec_base(ctx, cfg['method'], full)
        else:
            raise KeyError(sec)
    return ctx.result()


def trace_functions():
    T, P = OU.TensorSpaceUfuncs, OU.ProductSpaceUfuncs
    return [Tensor.__array_ufunc__, NumpyTensor.__array_ufunc__,
            DiscretizedSpaceElement.__array_ufunc__, OUT.writable_array,
            T.sin, T.modf, T.add, T.sum, T.prod, T.min, T.max,
            P.sin, P.modf, P.add, P.sum, P.prod, P.min, P.max,
            Tensor.__array__, Tensor.__array_wrap__,
            ProductSpaceElement.__array__, ProductSpaceElement.__array_wrap__,
            NumpyTensorSpace.element]


def summarize(results):
    by_sec = {}
    inappl = refused = 0
    for cfg, res in results:
        d = by_sec.setdefault(cfg['sec'], {'states': 0, 'calls_compared': 0})
        d['states'] += 1
        d['calls_compared'] += res['evals']
        st = res.get('stats') or {}
        inappl += st.get('inapplicable', 0)
        refused += st.get('refused', 0)
    return {'per_section': by_sec,
            'combinations_numpy_itself_refuses': inappl,
            'documented_refusals_accepted': refused,
            'ufuncs': len(UFUNCS)}


def meta(tier):
    kd = _kind_dtypes(tier)
    return {
        'rule': 'one state = (section, element kind, dtype, ufunc | legacy name | base method); '
                'inside a state every combination of operand mix x out kind x keyword options '
                'is executed by NumPy on copies of the underlying arrays and by odl on elements '
                'wrapping copies of the same data; results must agree bit for bit, be wrapped '
                'in an element of the same kind with NumPy\'s shape and dtype, out must be '
                'returned and written, other operands untouched. Entry-wise maps: the fills '
                'hold pairwise distinct dyadic entries, so one call visits a whole value '
                'alphabet and any axis / operand / output mix-up changes the result. '
                'distinct = distinct (method, outcome class, executed-line signature of the '
                'anchored functions) per state',
        'bounds': {
            'ufuncs': [u.__name__ for u in UFUNCS],
            'methods': ['__call__', 'reduce', 'accumulate', 'outer', 'at', 'reduceat'],
            'kinds x dtypes': ['%s/%s' % p for p in kd],
            'kinds': dict((k, '%s %s' % (KINDS[k][0], KINDS[k][1])) for k in KIND_ORDER),
            'fills per operand': 2,
            'history depth': 2 if tier == 'quick' else '3 (2 for 3-d elements)',
            'axis': 'absent, None, every int of both signs, every subset as a tuple, mixed-sign '
                    'tuples',
            'dtype keyword': DTYPE_KW,
            'legacy names': len(OU.UFUNCS) + 4,
            'operand dtypes': 'second / first operand of EVERY other dtype of the alphabet '
                              '(wider, narrower, other kind) as ndarray, nested list, Python '
                              'scalar, NumPy scalar, 0-d array, element of the sibling space; '
                              'np.<ufunc> calls (both orders), legacy interface, ufunc.at '
                              'values, ufunc.outer operands, one in-place history step',
            'special values (reductions)': 'NaN at each leaf in turn, +-inf, signed zeros, and '
                                           'the pairs %s at every ordered pair of distinct leaf '
                                           'positions' % (MIXED_SPECIALS,),
            'wrapping': 'array (C / F / strided), list, other dtype, read-only, order=, '
                        'data_ptr= of an array and of an element',
            'power-space part layouts': PART_LAYOUTS,
        },
        'assumptions': [
            'the reference model is NumPy itself applied to plain copies of the same arrays: a '
            'combination NumPy refuses there is not applicable and not counted',
            'bit equality assumes NumPy kernels are deterministic for equal data, dtype, shape '
            'and memory layout (both sides use fresh C-contiguous copies)',
            'operands are elements, arrays of the element shape, scalars or arrays broadcastable '
            'TO the element shape; results larger than the element and generalized ufuncs '
            '(matmul) are counted as unspecified',
            'power-space elements implement only __array__/__array_wrap__: out=<element>, '
            'ufunc.at and ufunc.outer are refused or answered by NumPy before any odl code runs '
            'and are counted as unspecified; weighting / exponent propagation is not judged '
            'beyond "must not make an admissible call fail"',
            'documented refusals accepted on discretized elements: reduceat, keepdims=True in '
            'reduce, outer with a non-element operand',
        ],
    }
