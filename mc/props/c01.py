"""C01 - vector arithmetic is element-wise exact under every aliasing pattern.

Exploration (bounded, exhaustive, nothing sampled):

* kind ``lincomb`` (configuration space): space x per-register memory layout; inside one state
  ``space.lincomb(a, r_i, b, r_j, out=r_k)`` for ALL 27 index triples of a register file
  r0, r1, r2 (they realise the five identity patterns of (x1, x2, out) several times each)
  x ALL (a, b) in S^2.  A register that is only ``out`` is additionally prefilled with
  NaN / huge values.  Register contents are a tiling of value-index triples (Latin square), so
  every pair (thorough: triple) of operand values of the alphabet V occurs in every call
  ("entry-wise independence").
* kind ``arith``: every operator overload / convenience method derived from lincomb, multiply and
  divide, on the same register files, all operand pairs (aliased ones included), scalars of S,
  array-like operands (list, tuple, ndarray of the space dtype / another dtype, stacked ndarray,
  range) on both sides, integer and fractional powers.
* kind ``bcast``: power-space broadcasting ``p o b`` / ``b o p`` / ``p o= b``, also with b being
  part k of p (every k) or a different element wrapping the memory of part k.
* mode ``Z`` of kind ``arith``: every form of element-wise division with exact zeros (both
  signs) among the divisor entries, reference = NumPy's IEEE quotient on copies (+-inf, nan).
* kind ``overlap``: x1 and x2 are DISTINCT elements wrapping overlapping shifted views
  (buf[1:], buf[:-1]) of one buffer and are only read; out is a separate register / new element.
* kind ``range``: lincomb over all 27 triples with scalars and entries that are powers of two
  near the ends of the exponent range; judged only where a*x1, b*x2 and their sum are finite.
* dtype sweep (kinds lincomb / arith / bcast / overlap / range): besides the main dtypes every
  other dtype class the library builds - half, extended precision (longdouble, clongdouble),
  complex64, non-native byte order, the remaining signed / unsigned integers - in every size
  regime with contiguous and strided registers.
* kind ``hist`` (history space): breadth-first search over sequences of in-place operations
  on the register file, depth 2 (thorough: 3 on two spaces), states canonicalised by register
  contents; the reference model is stepped alongside.

Oracle: ``mc.ref.arith`` (NumPy on flat copies in a wide dtype, cast to the space dtype); exact
equality on the dyadic alphabets; operands that are not the output must be byte-identical
afterwards; memory in the gaps of a strided view must not be written; ``lincomb`` /
``multiply`` / ``divide`` must return the ``out`` object given.
"""
import copy
import itertools
import math
import copy as _copy
import operator

import numpy as np
import odl
from odl.space.pspace import ProductSpaceElement

from mc.ref import arith as R

PROPERTY = 'C01'
BUDGET = {'quick': 1500, 'thorough': 3600}

# documented regimes of _lincomb_impl (THRESHOLD_SMALL, THRESHOLD_MEDIUM); only used to NAME
# the site of a violation and to split large states, never by the oracle
SMALL, MEDIUM = 100, 50000

GAPVAL = 77          # content of the memory between the entries of a strided view


# ------------------------------------------------------------------------------------------
# spaces

def build_space(spec):
    t = spec[0]
    if t == 'T':
        return odl.tensor_space(tuple(spec[1]), dtype=spec[2])
    if t == 'U':
        shape = tuple(spec[1])
        return odl.uniform_discr([0.0] * len(shape), [1.0] * len(shape), shape, dtype=spec[2])
    if t == 'P':
        return odl.ProductSpace(*[build_space(s) for s in spec[1:]])
    if t == 'W':
        return odl.ProductSpace(build_space(spec[1]), int(spec[2]))
    raise KeyError(t)


def is_ps(space):
    return isinstance(space, odl.ProductSpace)


def leaf_spaces(space):
    if is_ps(space):
        return [l for s in space.spaces for l in leaf_spaces(s)]
    return [space]


def flat_of(x):
    """Flat C-order copy of an element's entries, read through ``asarray()``."""
    if isinstance(x, ProductSpaceElement):
        return np.concatenate([flat_of(p) for p in x.parts])
    return np.asarray(x.asarray()).flatten()


def elem_arrays(x):
    if isinstance(x, ProductSpaceElement):
        return [a for p in x.parts for a in elem_arrays(p)]
    return [x.data]


class Info(object):
    def __init__(self, space):
        ls = leaf_spaces(space)
        self.dtype = np.dtype(ls[0].dtype)
        assert all(np.dtype(l.dtype) == self.dtype for l in ls)
        self.kind = R.kind(self.dtype)
        self.n = int(sum(l.size for l in ls))
        big = max(int(l.size) for l in ls)
        self.sizeclass = 'small' if big < SMALL else ('medium' if big < MEDIUM else 'large')
        self.big = big >= 10000
        self.skind = ('pspace' if is_ps(space) else
                      'discr' if isinstance(space, odl.DiscretizedSpace) else 'tensor')
        self.dkind = {'f': 'float', 'c': 'complex', 'i': 'int', 'u': 'uint'}[self.kind]
        self.tag = '%s,%s,%s' % (self.skind, self.dkind, self.sizeclass)
        self.descr = repr(space).replace('\n', ' ')
        self.ndim_max = max(len(l.shape) for l in ls)


# ------------------------------------------------------------------------------------------
# registers: elements wrapping arrays of a prescribed memory layout

def layouts_for(ndim, tier):
    if tier == 'quick':
        return ['C', 'S0'] if ndim == 1 else ['C', 'F', 'S0']
    if ndim == 1:
        return ['C', 'S0', 'R']
    if ndim == 2:
        return ['C', 'F', 'S0', 'S1', 'R']
    return ['C', 'F', 'S0', 'S1', 'P', 'R']


def alloc(shape, dtype, layout):
    """(view, gap): an array of the given logical shape with the requested layout."""
    shape = tuple(int(s) for s in shape)
    nd = len(shape)
    if layout == 'F' and nd >= 2:
        return np.zeros(shape, dtype=dtype, order='F'), None
    if layout == 'S0':                       # every second row of a larger C array
        base = np.full((2 * shape[0],) + shape[1:], GAPVAL, dtype=dtype)
        return base[::2], base[1::2]
    if layout == 'S1' and nd >= 2:           # every second entry along the last axis
        base = np.full(shape[:-1] + (2 * shape[-1],), GAPVAL, dtype=dtype)
        return base[..., ::2], base[..., 1::2]
    if layout == 'R':                        # negative stride
        base = np.zeros(shape, dtype=dtype)
        return base[::-1], None
    if layout == 'P' and nd >= 3:            # axes swapped: neither C nor F contiguous
        base = np.zeros((shape[1], shape[0]) + shape[2:], dtype=dtype)
        return base.swapaxes(0, 1), None
    return np.zeros(shape, dtype=dtype, order='C'), None


def _overlap_view(shape, dtype, layout, pool):
    """Layouts 'OA' / 'OB': the views buf[1:] / buf[:-1] (pool['order'] == 'C': shift along the
    first axis of a C buffer; 'F': shift along the last axis of an F buffer) of ONE buffer per
    leaf.  The 'OA' register creates the buffers, the 'OB' register picks them up in order."""
    shape = tuple(int(x) for x in shape)
    if layout == 'OA':
        if pool['order'] == 'F' and len(shape) >= 2:
            buf = np.zeros(shape[:-1] + (shape[-1] + 1,), dtype=dtype, order='F')
            va, vb, ax = buf[..., 1:], buf[..., :-1], -1
        else:
            buf = np.zeros((shape[0] + 1,) + shape[1:], dtype=dtype, order='C')
            va, vb, ax = buf[1:], buf[:-1], 0
        pool['bufs'].append((buf, va, vb, ax))
        return va
    buf, va, vb, ax = pool['bufs'][pool['pos']]
    pool['pos'] += 1
    return vb


def _make_elem(space, layout, views, gaps, shared=False, pool=None):
    if is_ps(space):
        if shared:
            sub = []
            q = _make_elem(space.spaces[0], layout, sub, gaps)
            parts = [q] * len(space)
            views.extend(sub * len(space))
        else:
            parts = [_make_elem(s, layout, views, gaps, pool=pool) for s in space.spaces]
        el = space.element(parts)
        if not all(p is q for p, q in zip(el.parts, parts)):
            raise AssertionError('harness: product element did not wrap its parts')
        return el
    if layout in ('OA', 'OB'):
        view, gap = _overlap_view(space.shape, space.dtype, layout, pool), None
    else:
        view, gap = alloc(space.shape, space.dtype, layout)
    el = space.element(view)
    d = el.data
    if not (d.shape == view.shape and (d is view or (
            d.strides == view.strides and
            d.__array_interface__['data'][0] == view.__array_interface__['data'][0]))):
        raise AssertionError('harness: element() copied the array, layout %s not realised'
                             % layout)
    views.append(view)
    if gap is not None:
        gaps.append(gap)
    return el


class Reg(object):
    """One register: an element of the space plus direct access to the wrapped arrays."""

    def __init__(self, space, layout, shared=False, pool=None):
        self.views = []
        self.gaps = []
        self.layout = layout
        self.elem = _make_elem(space, layout, self.views, self.gaps, shared, pool)
        self.sizes = [int(v.size) for v in self.views]
        self.offs = [0]
        for s in self.sizes[:-1]:
            self.offs.append(self.offs[-1] + s)
        self.n = sum(self.sizes)
        self.gap0 = self.gapbytes()

    def get(self):
        if len(self.views) == 1:
            return self.views[0].flatten()
        return np.concatenate([v.flatten() for v in self.views])

    def set(self, flat):
        for v, o, n in zip(self.views, self.offs, self.sizes):
            v[...] = flat[o:o + n].reshape(v.shape)

    # snapshots: exact (bit-wise) comparison of the wrapped memory before / after a call
    def bytes(self):
        return _snap(self.views)

    def same(self, snap):
        return _same(self.views, snap)

    def gapbytes(self):
        return _snap(self.gaps)

    def gaps_same(self):
        return _same(self.gaps, self.gap0)


def _padded(dtype):
    """longdouble / clongdouble: 10 significant bytes + padding per component; the padding is
    not part of the value, so these are compared by value (nan == nan, sign of zero included)
    instead of byte-wise."""
    return dtype.kind in 'fc' and dtype.itemsize // (2 if dtype.kind == 'c' else 1) > 8


def _bits(a):
    """Integer views of an array (any strides) so that equality is bit-wise."""
    k = a.dtype.kind
    if k == 'c':
        return _bits(a.real) + _bits(a.imag)
    if k == 'f':
        if _padded(a.dtype):
            return [a, np.signbit(a)]
        return [a.view('u%d' % a.dtype.itemsize)]
    return [a]


def _snap(arrs):
    out = []
    for a in arrs:
        if a.size < 4096 and not _padded(a.dtype):
            out.append(a.tobytes())
        else:
            out.append([b.copy(order='K') for b in _bits(a)])
    return out


def _same(arrs, snap):
    for a, s in zip(arrs, snap):
        if isinstance(s, bytes):
            if a.tobytes() != s:
                return False
        else:
            for b, c in zip(_bits(a), s):
                if not np.array_equal(b, c, equal_nan=(b.dtype.kind == 'f')):
                    return False
    return True


def nest(space, flat, as_list=False, dtype=None):
    """Array-like (not an element) with the structure of ``space`` holding ``flat``."""
    if is_ps(space):
        out, pos = [], 0
        for s in space.spaces:
            n = int(sum(l.size for l in leaf_spaces(s)))
            out.append(nest(s, flat[pos:pos + n], as_list, dtype))
            pos += n
        return out
    a = np.array(flat, dtype=dtype).reshape(space.shape)
    return a.tolist() if as_list else a


# ------------------------------------------------------------------------------------------
# scalars

def scalars(kind, tier, big=False):
    """Scalar alphabet S: 0, 1, -1, generic (2, 1/2), complex; python ints and floats mixed.

    |a|^2 is a power of two for the exact ones, so the divide-then-multiply of the fallback
    axpy is exact.  thorough adds 3 and 1+0.5j, judged with a stated tolerance.  In the quick
    tier arrays of >= BIG entries use one representative per scalar class."""
    if big and tier == 'quick':
        if kind == 'i':
            return [0, 1, -1, 2]
        if kind == 'u':
            return [0, 1, 2]
        return [0, 1, -1, 2.0] + ([1 + 1j] if kind == 'c' else [])
    if kind == 'i':
        return [0, 1, -1, 2, 3]
    if kind == 'u':
        return [0, 1, 2, 3]
    S = [0, 1, -1, 2.0, 0.5]
    if kind == 'c':
        S += [1j, -1j, 1 + 1j]
    if tier == 'thorough' and not big:
        S += [3.0]
        if kind == 'c':
            S += [1 + 0.5j]
    return S


def dyadic(a, kind):
    if kind in 'iu':
        return True
    a = complex(a)
    m = a.real * a.real + a.imag * a.imag
    if m == 0:
        return True
    f, _ = math.frexp(m)
    return f == 0.5 and float(a.real * 4).is_integer() and float(a.imag * 4).is_integer()


def sclass(a):
    if isinstance(a, complex) and a.imag != 0:
        return 'c'
    a = complex(a).real
    return {0: '0', 1: '1', -1: '-1'}.get(a, 'g')


def alias_name(i, j, k):
    if i == j == k:
        return 'all'
    if i == j:
        return 'x1=x2'
    if k == i:
        return 'out=x1'
    if k == j:
        return 'out=x2'
    return 'none'


def exc_name(e):
    for c in type(e).__mro__:
        if not c.__name__.startswith('_'):
            return c.__name__
    return type(e).__name__


TOL_ULPS = 8        # non-dyadic scalars / fractional powers: 8 eps x magnitude (stated, fixed)


# ------------------------------------------------------------------------------------------
# execution context shared by the kinds

class Ctx(object):
    def __init__(self, cfg, nreg=3):
        self.cfg = cfg
        self.tier = cfg.get('tier', 'quick')
        self.space = build_space(cfg['space'])
        self.info = Info(self.space)
        lay = cfg.get('lay', ['C', 'C', 'C'])
        self.pool = None
        if cfg.get('ovl'):
            # r0 and r1: DISTINCT elements over overlapping shifted views of one buffer (they
            # are only ever read), r2: a separate register for the output
            self.pool = {'order': cfg['ovl'], 'bufs': [], 'pos': 0}
            self.regs = [Reg(self.space, 'OA', pool=self.pool),
                         Reg(self.space, 'OB', pool=self.pool), Reg(self.space, lay[2])]
            for (buf, va, vb, ax), v0, v1 in zip(self.pool['bufs'], self.regs[0].views,
                                                 self.regs[1].views):
                if not (v0 is va and v1 is vb and np.shares_memory(va, vb)):
                    raise AssertionError('harness: overlapping views not realised')
        else:
            self.regs = [Reg(self.space, l) for l in lay]
        if cfg.get('shared'):
            self.regs.append(Reg(self.space, 'C', shared=True))
        self.E = [r.elem for r in self.regs]
        self.nreg = len(self.regs)
        self.first = {}
        self.evals = 0
        self.skipped = 0
        self.inexact = 0
        self.sigs = set()
        self.C = None
        self.snaps = None
        # tolerance unit for the NON-dyadic scalars: they are Python floats / complex numbers, i.e.
        # double precision; odl forms 1 / a and a * x with them in double precision, so on the
        # extended-precision dtypes (longdouble, clongdouble) results involving such a scalar are
        # accurate to double precision only - that is the precision of the operand, not a defect.
        # Dyadic scalars and element-element arithmetic stay exact in every dtype.
        self.eps = max(R.eps(self.info.dtype), float(np.finfo(np.float64).eps)) \
            if np.dtype(self.info.dtype).kind in 'fc' else R.eps(self.info.dtype)
        self.head = 'space=%s layouts=%s' % (self.info.descr, ','.join(
            r.layout for r in self.regs[:3]))

    # -- contents
    def phases(self):
        n = self.info.n
        if n < 25:
            return int(math.ceil(25.0 / n))                    # all value pairs
        if self.cfg.get('tri') and n < 125:
            return int(math.ceil(125.0 / n))                   # all value triples
        return 1

    def load(self, phase, mode='V', positive=False):
        n = self.info.n
        C = R.contents(self.info.dtype, n, phase, mode, 4)
        if positive:
            C = [np.abs(c).astype(self.info.dtype) for c in C]
        if self.nreg == 4:
            per = n // len(self.space)
            C[3] = np.concatenate([C[3][:per]] * len(self.space))
        self.C = C[:self.nreg]
        for r, c in zip(self.regs, self.C):
            r.set(c)
        self.snaps = [r.bytes() for r in self.regs]
        self.phase = phase
        self.mode = mode

    def load_overlap(self, phase, mode='V'):
        """Fill the shared buffers (de Bruijn tiling: all ordered value pairs meet in
        (r0[t], r1[t])) and the separate register r2; r0/r1 contents are read back."""
        for leaf, (buf, va, vb, ax) in enumerate(self.pool['bufs']):
            buf[...] = R.overlap_buffer(buf.shape, ax, self.info.dtype, phase, mode, leaf)
        c2 = R.contents(self.info.dtype, self.info.n, phase, mode, 3)[2]
        self.regs[2].set(c2)
        self.C = [self.regs[0].get(), self.regs[1].get(), c2]
        self.snaps = [r.bytes() for r in self.regs]
        self.phase = phase
        self.mode = mode

    def restore(self, k=None):
        if k is None:
            for r, c in zip(self.regs, self.C):
                r.set(c)
        else:
            self.regs[k].set(self.C[k])

    # -- violations
    def viol(self, fam, symptom, detail):
        site = '%s[%s]' % (fam, self.info.tag)
        key = (site, symptom)
        if key not in self.first:
            self.first[key] = '%s phase=%d mode=%s: %s' % (self.head, self.phase, self.mode,
                                                           detail)

    def diff_detail(self, got, exp, tol, operands, mask=None, ieee=False):
        if mask is not None and got.shape == exp.shape:
            # entries outside the mask are not judged: make them agree
            got = np.where(mask, got, exp)
        t = R.first_diff_ieee(got, exp) if ieee else R.first_diff(got, exp, tol)
        if t is None:
            t = 0
        s = 'flat index %d: expected %r got %r' % (t, exp[t].item(), got[t].item()
                                                   if t < got.size else None)
        for name, arr in operands:
            if arr is not None:
                s += ' %s=%r' % (name, np.asarray(arr).ravel()[t].item())
        return s

    def equal(self, got, exp, tol, mask=None, ieee=False):
        if ieee:
            return R.same_ieee(got, exp)
        if got.shape != exp.shape:
            return False
        if mask is not None:
            got, exp = got[mask], exp[mask]
            tol = None if tol is None else tol[mask]
        if tol is None:
            return bool(np.array_equal(got, exp))
        with np.errstate(invalid='ignore'):
            ok = bool(np.all(np.abs(got - exp) <= tol))
        if ok and not np.array_equal(got, exp):
            # diagnostic only: within the stated tolerance but not bit-exact (the divide-then-
            # multiply of the fallback axpy with a non-dyadic scalar, fractional powers)
            self.inexact += 1
        return ok

    def check(self, fam, label, thunk, exp, mut=None, tol=None, ret_is_out=True,
              operands=(), fresh=False, sig=None, arrays=(), where='', mask=None,
              ieee=False, lenient=False, pyobjs=()):
        """Execute ``thunk`` (one call into odl) and compare with the model.

        mut is None : the call returns a NEW element whose entries must equal ``exp``.
        mut = k     : register k must hold ``exp`` afterwards (and be the returned object).
        All other registers (and ``arrays``: (ndarray, bytes-before) pairs) must be unchanged.
        """
        E = self.E
        try:
            ret = thunk()
        except Exception as e:      # noqa  (library exception in an admissible call)
            if lenient and isinstance(e, TypeError):
                # a refusal (TypeError / NotImplemented) of an operand kind whose support the
                # documentation does not promise: counted as unspecified, not judged
                self.skipped += 1
                self.sigs.add('%s:%s:refused' % (fam, sig or label))
                self.restore()
                return None
            self.viol(fam, 'raises:' + exc_name(e), '%s raised %r' % (label, e))
            self.sigs.add('%s:%s:raise' % (fam, sig or label))
            self.restore()
            return None
        self.evals += 1
        ok = True
        if mut is None:
            if ret is None or not hasattr(ret, 'space') or ret.space != self.space:
                if lenient:
                    # not an element of this space (e.g. what __array_ufunc__ hands back for an
                    # ndarray on the left): unspecified here, only the operands are checked
                    self.skipped += 1
                    self.evals -= 1
                    sig = '%s:foreign' % (sig or label)
                else:
                    self.viol(fam, 'result_not_in_space', '%s returned %r' % (label, type(ret)))
                    ok = False
            else:
                if any(ret is e for e in E):
                    self.viol(fam, 'result_is_an_operand_object',
                              '%s returned one of its operands instead of a new element' % label)
                    ok = False
                got = flat_of(ret)
                if fresh:
                    ra = elem_arrays(ret)
                    for r in self.regs:
                        if any(np.may_share_memory(a, v) for a in ra for v in r.views):
                            self.viol(fam, 'copy_shares_memory',
                                      '%s: result shares memory with a register' % label)
                            ok = False
                            break
                if not self.equal(got, exp, tol, None, ieee):
                    self.viol(fam, 'result_differs' + where, '%s: %s' % (
                        label, self.diff_detail(got, exp, tol, operands, None, ieee)))
                    ok = False
        else:
            if ret_is_out and ret is not E[mut]:
                self.viol(fam, 'returned_object_is_not_out',
                          '%s returned %s, not the output element' % (label, type(ret).__name__))
                ok = False
            got = self.regs[mut].get()
            if not self.equal(got, exp, tol, mask, ieee):
                self.viol(fam, 'result_differs' + where, '%s: %s' % (
                    label, self.diff_detail(got, exp, tol, operands, mask, ieee)))
                ok = False
            if self.regs[mut].gaps and not self.regs[mut].gaps_same():
                self.viol(fam, 'memory_outside_view_written',
                          '%s wrote between the entries of the strided output' % label)
                ok = False
                for g in self.regs[mut].gaps:
                    g[...] = GAPVAL
        dirty = False
        for m in range(self.nreg):
            if m != mut and not self.regs[m].same(self.snaps[m]):
                # a shared-parts register is the same memory as nothing else; any change counts
                self.viol(fam, 'operand_modified',
                          '%s changed register r%d which is not the output: %s' % (
                              label, m, self.diff_detail(self.regs[m].get(), self.C[m], None,
                                                         ())))
                ok = False
                dirty = True
        for arr, before in arrays:
            if arr.tobytes() != before:
                self.viol(fam, 'operand_modified', '%s changed its array-like operand' % label)
                ok = False
        for obj, frozen in pyobjs:
            if not _same_obj(obj, frozen):
                self.viol(fam, 'operand_modified', '%s changed its array-like operand' % label)
                ok = False
        if dirty:
            self.restore()
        elif mut is not None:
            self.restore(mut)
        self.sigs.add('%s:%s:%s' % (fam, sig or label, 'ok' if ok else 'bad'))
        return ret

    def result(self, trivial=False):
        viol = [{'site': s, 'symptom': y, 'detail': d} for (s, y), d in self.first.items()]
        return {'evals': self.evals, 'viol': viol, 'skipped': self.skipped,
                'inexact': self.inexact,
                'sig': sorted('%s|%s' % (self.info.tag, s) for s in self.sigs),
                'trivial': self.evals == 0 or trivial}


# ------------------------------------------------------------------------------------------
# kind: lincomb

def run_lincomb(cfg):
    cx = Ctx(cfg)
    sp, E, regs, info = cx.space, cx.E, cx.regs, cx.info
    dt = info.dtype
    S = scalars(info.kind, cx.tier, info.big)
    A = S if cfg.get('a') is None else [S[cfg['a']]]
    P = R.poison_fill(dt, info.n)
    nreg = cx.nreg
    for phase in range(cx.phases()):
        cx.load(phase, 'V')
        C = cx.C
        for a in A:
            for b in S:
                exact = dyadic(a, info.kind) and dyadic(b, info.kind)
                sab = '%s,%s' % (sclass(a), sclass(b))
                for i in range(nreg):
                    for j in range(nreg):
                        exp = R.lincomb(a, C[i], b, C[j], dt)
                        tol = None if exact else \
                            TOL_ULPS * cx.eps * R.lincomb_scale(a, C[i], b, C[j])
                        for k in range(3):
                            al = alias_name(i, j, k)
                            for var in ((0, 1) if (k not in (i, j) and phase == 0) else (0,)):
                                if var:
                                    regs[k].set(P)
                                label = 'space.lincomb(%r, r%d, %r, r%d, out=r%d)%s' % (
                                    a, i, b, j, k, ' [out prefilled with nan/huge]' if var
                                    else '')
                                cx.check('lincomb', label,
                                         lambda: sp.lincomb(a, E[i], b, E[j], out=E[k]),
                                         exp, mut=k, tol=tol,
                                         operands=(('x1', C[i]), ('x2', C[j])),
                                         sig='%s:%s' % (al, sab), where='[%s]' % al)
    return cx.result()


# ------------------------------------------------------------------------------------------
# kind: range  (lincomb with scalars and entries of extreme but finite magnitude)

def run_range(cfg):
    """Scalars and entries are powers of two near the ends of the exponent range.  An entry is
    judged only where a*x1, b*x2 and their sum are all finite in the reference, i.e. where the
    documented expression ``a * x1 + b * x2`` neither overflows nor meets inf - inf; there the
    products are exact and the result must agree within 8 eps x (|a x1| + |b x2|)."""
    cx = Ctx(cfg)
    sp, E, regs, info = cx.space, cx.E, cx.regs, cx.info
    dt = info.dtype
    W = R.wide(dt)
    e = 600 if np.finfo(dt).maxexp > 200 else 60
    big, tiny = 2.0 ** e, 2.0 ** -e
    H = 2.0 ** (e * 5 // 6)
    tab = np.array([H, 1.0, 1.0 / H, 0.0, -H])
    S = [1, tiny, big, -big]
    if info.kind == 'c':
        S.append(1j * tiny)
    idx = R.triple_index(info.n, 0, 3)
    C = []
    for ix in idx:
        v = tab[ix]
        if info.kind == 'c':
            v = v + 1j * tab[(2 * ix + 3) % 5]
        C.append(np.asarray(v).astype(dt))
    cx.C = C
    for r, c in zip(regs, C):
        r.set(c)
    cx.snaps = [r.bytes() for r in regs]
    cx.phase, cx.mode = 0, 'X'
    Cw = [c.astype(W) for c in C]
    for a in S:
        for b in S:
            sab = '%s,%s' % ('1' if a == 1 else 'tiny' if abs(a) < 1 else 'huge',
                             '1' if b == 1 else 'tiny' if abs(b) < 1 else 'huge')
            for i in range(3):
                for j in range(3):
                    with np.errstate(all='ignore'):
                        p1, p2 = a * Cw[i], b * Cw[j]
                        ew = p1 + p2
                        exp = ew.astype(dt)
                        mask = np.isfinite(p1) & np.isfinite(p2) & np.isfinite(exp)
                        tol = TOL_ULPS * cx.eps * (np.abs(np.where(mask, p1, 0)) +
                                                   np.abs(np.where(mask, p2, 0)))
                        # results in the subnormal range are absolute-error territory
                        tol = tol + float(np.finfo(dt).tiny)
                    if not mask.any():
                        continue
                    for k in range(3):
                        al = alias_name(i, j, k)
                        with np.errstate(all='ignore'):
                            cx.check('lincomb_extreme_scalars',
                                     'space.lincomb(%r, r%d, %r, r%d, out=r%d)' % (a, i, b, j, k),
                                     lambda: sp.lincomb(a, E[i], b, E[j], out=E[k]), exp, mut=k,
                                     tol=tol, mask=mask,
                                     operands=(('x1', C[i]), ('x2', C[j])),
                                     sig='%s:%s' % (al, sab))
    return cx.result()


# ------------------------------------------------------------------------------------------
# kind: arith  (operators and convenience methods)

def _pow_max(info):
    if info.kind in 'iu':
        vmax = 5 if info.kind == 'u' else 3
        lim = np.iinfo(info.dtype).max
        n = 0
        while vmax ** (n + 1) <= lim and n < 4:
            n += 1
        return n
    return 4


def run_arith(cfg):
    cx = Ctx(cfg)
    sp, E, regs, info = cx.space, cx.E, cx.regs, cx.info
    dt, kind = info.dtype, info.kind
    mode = cfg['mode']
    if mode == 'Z':
        with np.errstate(all='ignore'):
            return _arith_zero_divisors(cx)
    S = scalars(kind, cx.tier, info.big)
    P = R.poison_fill(dt, info.n)
    W = R.wide(dt)
    isint = kind in 'iu'
    can_div = (not isint) and mode == 'D'
    tensorlike = not is_ps(sp)
    rng3 = range(3)

    def cast(x):
        return np.asarray(x).astype(dt)

    cov = [set(), set(), set()]
    for phase in range(cx.phases()):
        cx.load(phase, mode)
        C = cx.C
        Cw = [c.astype(W) for c in C]
        # operations with ONE element operand are run for register i only in the phases that
        # bring it a value it has not held yet (all 5 values are reached in every state)
        news = []
        for i in rng3:
            vals = set(np.unique(C[i]).tolist())
            news.append(not vals <= cov[i])
            cov[i] |= vals
        one = [i for i in rng3 if news[i]]

        # ---- element (op) element, out of place and in place, all 9 ordered pairs
        BIN = [('+', 'add_sub', operator.add, operator.iadd, R.add, True),
               ('-', 'add_sub', operator.sub, operator.isub, R.sub, kind != 'u'),
               ('*', 'elem_mul', operator.mul, operator.imul, R.mul, True),
               ('/', 'elem_div', operator.truediv, operator.itruediv, R.div, can_div)]
        for sym, fam, f, fi, ref, adm in BIN:
            if not adm:
                cx.skipped += 18 if (sym == '/' and isint) else 0
                continue
            for i in rng3:
                for j in rng3:
                    exp = ref(C[i], C[j], dt)
                    ops = (('x', C[i]), ('y', C[j]))
                    cx.check(fam, 'r%d %s r%d' % (i, sym, j), lambda: f(E[i], E[j]), exp,
                             operands=ops, sig='x%sy:%s' % (sym, 'same' if i == j else 'diff'))
                    cx.check(fam, 'r%d %s= r%d' % (i, sym, j), lambda: fi(E[i], E[j]), exp,
                             mut=i, operands=ops,
                             sig='x%s=y:%s' % (sym, 'same' if i == j else 'diff'))

        # ---- space.multiply / space.divide with out=, all 27 triples (+ prefilled out)
        for sym, fam, meth, ref, adm in (('multiply', 'elem_mul', sp.multiply, R.mul, True),
                                         ('divide', 'elem_div', sp.divide, R.div, can_div)):
            if not adm:
                continue
            for i in rng3:
                for j in rng3:
                    exp = ref(C[i], C[j], dt)
                    ops = (('x1', C[i]), ('x2', C[j]))
                    for k in rng3:
                        for var in ((0, 1) if (k not in (i, j) and phase == 0) else (0,)):
                            if var:
                                regs[k].set(P)
                            cx.check(fam, 'space.%s(r%d, r%d, out=r%d)%s' % (
                                sym, i, j, k, ' [out prefilled with nan/huge]' if var else ''),
                                lambda: meth(E[i], E[j], out=E[k]), exp, mut=k, operands=ops,
                                sig='%s:%s' % (sym, alias_name(i, j, k)))
                    cx.check(fam, 'space.%s(r%d, r%d)' % (sym, i, j),
                             lambda: meth(E[i], E[j]), exp, operands=ops, sig=sym + ':new')
                    cx.check(fam, 'r%d.%s(r%d)' % (i, sym, j),
                             lambda: getattr(E[i], sym)(E[j]), exp, operands=ops,
                             sig=sym + ':method')

        # ---- scalars
        for a in S:
            ex = dyadic(a, kind)
            sc = sclass(a)

            def tol_of(expw):
                return None if ex else TOL_ULPS * cx.eps * np.abs(expw).astype(float)
            for i in one:
                X = Cw[i]
                ops = (('x', C[i]),)
                e_mul = cast(a * X)
                t_mul = tol_of(a * X)
                # x + a is lincomb(1, x, a, one): the fallback axpy divides by a and multiplies
                # back, which is exact only for the dyadic scalars -> magnitude |x| + |a|
                t_add = None if ex else TOL_ULPS * cx.eps * (np.abs(X).astype(float) + abs(a))
                cx.check('scalar_mul', '%r * r%d' % (a, i), lambda: a * E[i], e_mul, tol=t_mul,
                         operands=ops, sig='a*x:' + sc)
                cx.check('scalar_mul', 'r%d * %r' % (i, a), lambda: E[i] * a, e_mul, tol=t_mul,
                         operands=ops, sig='x*a:' + sc)
                cx.check('scalar_mul', 'r%d *= %r' % (i, a), lambda: operator.imul(E[i], a),
                         e_mul, mut=i, tol=t_mul, operands=ops, sig='x*=a:' + sc)
                e_add = cast(X + a)
                cx.check('scalar_add', 'r%d + %r' % (i, a), lambda: E[i] + a, e_add, tol=t_add,
                         operands=ops, sig='x+a:' + sc)
                cx.check('scalar_add', '%r + r%d' % (a, i), lambda: a + E[i], e_add, tol=t_add,
                         operands=ops, sig='a+x:' + sc)
                cx.check('scalar_add', 'r%d += %r' % (i, a), lambda: operator.iadd(E[i], a),
                         e_add, mut=i, tol=t_add, operands=ops, sig='x+=a:' + sc)
                if kind != 'u':
                    e_sub = cast(X - a)
                    cx.check('scalar_add', 'r%d - %r' % (i, a), lambda: E[i] - a, e_sub,
                             tol=t_add, operands=ops, sig='x-a:' + sc)
                    cx.check('scalar_add', '%r - r%d' % (a, i), lambda: a - E[i], cast(a - X),
                             tol=t_add, operands=ops, sig='a-x:' + sc)
                    cx.check('scalar_add', 'r%d -= %r' % (i, a),
                             lambda: operator.isub(E[i], a), e_sub, mut=i, tol=t_add,
                             operands=ops, sig='x-=a:' + sc)
                if isint:
                    # X: "/" on integer spaces is not closed over the integers: unspecified
                    cx.skipped += 3
                    continue
                if a != 0:
                    ew = X / a
                    cx.check('scalar_div', 'r%d / %r' % (i, a), lambda: E[i] / a, cast(ew),
                             tol=tol_of(ew), operands=ops, sig='x/a:' + sc)
                    cx.check('scalar_div', 'r%d /= %r' % (i, a),
                             lambda: operator.itruediv(E[i], a), cast(ew), mut=i,
                             tol=tol_of(ew), operands=ops, sig='x/=a:' + sc)
                if can_div:
                    ew = a / X
                    cx.check('scalar_div', '%r / r%d' % (a, i), lambda: a / E[i], cast(ew),
                             tol=tol_of(ew), operands=ops, sig='a/x:' + sc)

        # ---- unary, copy, assign, zero, one, set_zero
        for i in one:
            ops = (('x', C[i]),)
            if kind != 'u':
                cx.check('scalar_mul', '-r%d' % i, lambda: -E[i], cast(-Cw[i]), operands=ops,
                         sig='neg')
            cx.check('copy_assign', '+r%d' % i, lambda: +E[i], C[i], operands=ops, fresh=True,
                     sig='pos')
            cx.check('copy_assign', 'r%d.copy()' % i, lambda: E[i].copy(), C[i], operands=ops,
                     fresh=True, sig='copy')
            # the copy protocol of the standard library reaches copy() through __copy__ / __deepcopy__
            cx.check('copy_assign', 'copy.copy(r%d)' % i, lambda: _copy.copy(E[i]), C[i],
                     operands=ops, fresh=True, sig='copy.copy')
            cx.check('copy_assign', 'copy.deepcopy(r%d)' % i, lambda: _copy.deepcopy(E[i]), C[i],
                     operands=ops, fresh=True, sig='copy.deepcopy')
            for j in rng3:
                for var in ((0, 1) if (i != j and phase == 0) else (0,)):
                    if var:
                        regs[i].set(P)
                    cx.check('copy_assign', 'r%d.assign(r%d)%s' % (
                        i, j, ' [r%d prefilled with nan/huge]' % i if var else ''),
                        lambda: E[i].assign(E[j]), C[j], mut=i, ret_is_out=False,
                        operands=(('other', C[j]),), sig='assign:' + ('same' if i == j
                                                                      else 'diff'))
            for var in ((0, 1) if phase == 0 else (0,)):
                if var:
                    regs[i].set(P)
                cx.check('zero_one', 'r%d.set_zero()%s' % (
                    i, ' [r%d prefilled with nan/huge]' % i if var else ''),
                    lambda: E[i].set_zero(), np.zeros(info.n, dtype=dt), mut=i,
                    ret_is_out=False, sig='set_zero:%d' % var)
        cx.check('zero_one', 'space.zero()', lambda: sp.zero(), np.zeros(info.n, dtype=dt),
                 fresh=True, sig='zero')
        cx.check('zero_one', 'space.one()', lambda: sp.one(), np.ones(info.n, dtype=dt),
                 fresh=True, sig='one')

        # ---- other calling conventions of lincomb
        for a in S:
            for i in one:
                exp = R.lincomb(a, C[i], 0, C[i], dt)
                ops = (('x1', C[i]),)
                cx.check('lincomb', 'space.lincomb(%r, r%d)' % (a, i),
                         lambda: sp.lincomb(a, E[i]), exp, operands=ops,
                         sig='1op:new:' + sclass(a))
                for k in rng3:
                    for var in ((0, 1) if (k != i and phase == 0) else (0,)):
                        if var:
                            regs[k].set(P)
                        cx.check('lincomb', 'space.lincomb(%r, r%d, out=r%d)%s' % (
                            a, i, k, ' [out prefilled with nan/huge]' if var else ''),
                            lambda: sp.lincomb(a, E[i], out=E[k]), exp, mut=k, operands=ops,
                            sig='1op:%s:%s' % ('same' if i == k else 'diff', sclass(a)))
        # (all of S^2 x 27 triples is the lincomb kind; here one pair per scalar, all triples)
        for p_, a in enumerate(S):
            b = S[(p_ + 2) % len(S)]
            if not (dyadic(a, kind) and dyadic(b, kind)):
                continue
            for i in rng3:
                for j in rng3:
                    exp = R.lincomb(a, C[i], b, C[j], dt)
                    ops = (('x1', C[i]), ('x2', C[j]))
                    cx.check('lincomb', 'space.lincomb(%r, r%d, %r, r%d)' % (a, i, b, j),
                             lambda: sp.lincomb(a, E[i], b, E[j]), exp, operands=ops,
                             sig='2op:new:%s,%s' % (sclass(a), sclass(b)))
                    for k in rng3:
                        cx.check('lincomb', 'r%d.lincomb(%r, r%d, %r, r%d)' % (k, a, i, b, j),
                                 lambda: E[k].lincomb(a, E[i], b, E[j]), exp, mut=k,
                                 ret_is_out=False, operands=ops,
                                 sig='method:%s' % alias_name(i, j, k))

        # ---- integer powers
        nmax = _pow_max(info)
        for n in range(-2, 5):
            if n < 0 and not can_div:
                if isint:
                    cx.skipped += 6
                continue
            if n > nmax:
                continue
            for i in one:
                exp = R.ipow(C[i], n, dt)
                ops = (('x', C[i]),)
                cx.check('pow', 'r%d ** %d' % (i, n), lambda: E[i] ** n, exp, operands=ops,
                         sig='x**%d' % n)
                cx.check('pow', 'r%d **= %d' % (i, n), lambda: operator.ipow(E[i], n), exp,
                         mut=i, operands=ops, sig='x**=%d' % n)
        if not isint:
            i = phase % 3
            cx.check('pow', 'r%d ** 2.0' % i, lambda: E[i] ** 2.0, R.ipow(C[i], 2, dt),
                     operands=(('x', C[i]),), sig='x**2.0')

        # ---- array-like operands (neither elements nor scalars) on BOTH sides of every binary
        # operator and on the right of the in-place forms; they are wrapped or converted by
        # space.element.  A TypeError (refusal) or a result outside the space is counted as
        # unspecified; wherever an element of the space comes back its values are judged, and
        # the array-like itself must be unchanged.
        for i in (rng3 if cx.phases() == 1 else [phase % 3]):
            j = (i + 1) % 3
            for vname, arr, Y in _array_likes(sp, info, C[j], phase, mode, j):
                before = [(a, a.tobytes()) for a in _iter_arrays(arr)]
                frozen = [] if isinstance(arr, (np.ndarray, range)) else \
                    [(arr, copy.deepcopy(arr))]
                zero_div = bool(np.any(Y == 0))
                for sym, fam, f, fi, ref, adm in BIN:
                    if not adm:
                        continue
                    ops = (('x', C[i]), ('arr', Y))
                    kw = dict(operands=ops, arrays=before, pyobjs=frozen, lenient=True)
                    if not (sym == '/' and zero_div):
                        exp = ref(C[i], Y, dt)
                        cx.check(fam, 'r%d %s <%s>' % (i, sym, vname), lambda: f(E[i], arr),
                                 exp, sig='x%sarr:%s' % (sym, vname), **kw)
                        cx.check(fam, 'r%d %s= <%s>' % (i, sym, vname), lambda: fi(E[i], arr),
                                 exp, mut=i, sig='x%s=arr:%s' % (sym, vname), **kw)
                    if not (sym == '-' and kind == 'u'):
                        cx.check(fam, '<%s> %s r%d' % (vname, sym, i), lambda: f(arr, E[i]),
                                 ref(Y, C[i], dt), sig='arr%sx:%s' % (sym, vname), **kw)

    # ---- fractional powers (tensor-like spaces only; product spaces document integer p only:
    # "This is only defined for integer ``p``"), on positive contents, tolerance 8 eps
    if tensorlike and not isint and mode == 'D':
        cx.load(0, 'D', positive=True)
        C = cx.C
        for p in (0.5, -1.5, 2.5):
            for i in rng3:
                with np.errstate(all='ignore'):
                    exp = np.power(C[i].astype(W), p).astype(dt)
                tol = TOL_ULPS * cx.eps * np.abs(exp).astype(float)
                cx.check('pow', 'r%d ** %r' % (i, p), lambda: E[i] ** p, exp, tol=tol,
                         operands=(('x', C[i]),), sig='x**frac')
                cx.check('pow', 'r%d **= %r' % (i, p), lambda: operator.ipow(E[i], p), exp,
                         mut=i, tol=tol, operands=(('x', C[i]),), sig='x**=frac')
    return cx.result()


def _arith_zero_divisors(cx):
    """Mode 'Z': every form of element-wise division with EXACT ZEROS (both signs) among the
    divisor entries.  Reference: NumPy's IEEE quotient on copies in the space dtype (x/0 = +-inf,
    0/0 = nan), compared with nan == nan and the signs of inf exactly; ``_divide`` documents
    "entry-wise quotient x1 / x2".  An out that is not an operand holds finite values (its own
    contents, then the constant 7) and, in phase 0, nan/huge."""
    sp, E, regs, info = cx.space, cx.E, cx.regs, cx.info
    dt = info.dtype
    n = info.n
    S = scalars(info.kind, cx.tier, info.big)
    P = R.poison_fill(dt, n)
    SEVEN = np.full(n, 7, dtype=dt)
    rng3 = range(3)
    for phase in range(cx.phases()):
        cx.load(phase, 'Z')
        C = cx.C
        for i in rng3:
            for j in rng3:
                exp = R.div_ieee(C[i], C[j], dt)
                ops = (('x1', C[i]), ('x2', C[j]))
                same = 'same' if i == j else 'diff'
                cx.check('elem_div', 'r%d / r%d' % (i, j), lambda: E[i] / E[j], exp,
                         operands=ops, ieee=True, sig='x/y:0:' + same)
                cx.check('elem_div', 'r%d /= r%d' % (i, j),
                         lambda: operator.itruediv(E[i], E[j]), exp, mut=i, operands=ops,
                         ieee=True, sig='x/=y:0:' + same)
                cx.check('elem_div', 'space.divide(r%d, r%d)' % (i, j),
                         lambda: sp.divide(E[i], E[j]), exp, operands=ops, ieee=True,
                         sig='divide:0:new')
                cx.check('elem_div', 'r%d.divide(r%d)' % (i, j), lambda: E[i].divide(E[j]),
                         exp, operands=ops, ieee=True, sig='divide:0:method')
                for k in rng3:
                    if k in (i, j):
                        variants = [('', None)]
                    else:
                        variants = [('', None), (' [out prefilled with 7]', SEVEN)]
                        if phase == 0:
                            variants.append((' [out prefilled with nan/huge]', P))
                    for txt, fill in variants:
                        if fill is not None:
                            regs[k].set(fill)
                        cx.check('elem_div', 'space.divide(r%d, r%d, out=r%d)%s' % (i, j, k, txt),
                                 lambda: sp.divide(E[i], E[j], out=E[k]), exp, mut=k,
                                 operands=ops, ieee=True,
                                 sig='divide:0:%s' % alias_name(i, j, k))
        for a in S:
            num = np.full(n, a, dtype=dt)
            for i in rng3:
                cx.check('scalar_div', '%r / r%d' % (a, i), lambda: a / E[i],
                         R.div_ieee(num, C[i], dt), operands=(('x', C[i]),), ieee=True,
                         sig='a/x:0:' + sclass(a))
        ones = np.ones(n, dtype=dt)
        for p_ in (-1, -2):
            for i in rng3:
                den = C[i] if p_ == -1 else R.mul(C[i], C[i], dt)
                exp = R.div_ieee(ones, den, dt)
                cx.check('pow', 'r%d ** %d' % (i, p_), lambda: E[i] ** p_, exp,
                         operands=(('x', C[i]),), ieee=True, sig='x**%d:0' % p_)
                cx.check('pow', 'r%d **= %d' % (i, p_), lambda: operator.ipow(E[i], p_), exp,
                         mut=i, operands=(('x', C[i]),), ieee=True, sig='x**=%d:0' % p_)
    return cx.result()


# ------------------------------------------------------------------------------------------
# kind: overlap  (two DISTINCT operands that are overlapping shifted views of one buffer)

def run_overlap(cfg):
    """x1 and x2 are different elements (r0 wraps buf[1:], r1 wraps buf[:-1]); they are only
    read, the output is the separate register r2 or a new element.  Identity, not memory
    overlap, selects the in-place formulas, so the result must be a*x1 + b*x2 entry-wise."""
    cx = Ctx(cfg)
    sp, E, regs, info = cx.space, cx.E, cx.regs, cx.info
    dt, kind = info.dtype, info.kind
    S = scalars(kind, cx.tier, info.big)
    P = R.poison_fill(dt, info.n)
    nr = min(int(b[0].shape[b[3]]) - 1 for b in cx.pool['bufs'])
    nph = 1 if info.n >= 30 else int(math.ceil(25.0 / max(1, nr)))
    FL, FA, FM, FD = ('lincomb(overlapping operands)', 'add_sub(overlapping operands)',
                      'elem_mul(overlapping operands)', 'elem_div(overlapping operands)')
    modes = ['V'] if kind in 'iu' else ['V', 'D']
    for mode in modes:
        for phase in range(nph):
            cx.load_overlap(phase, mode)
            C = cx.C
            pairs = [(0, 1), (1, 0)]
            if mode == 'V':
                for a in S:
                    for b in S:
                        exact = dyadic(a, kind) and dyadic(b, kind)
                        sab = '%s,%s' % (sclass(a), sclass(b))
                        for i, j in pairs + [(0, 0), (1, 1)]:
                            exp = R.lincomb(a, C[i], b, C[j], dt)
                            tol = None if exact else \
                                TOL_ULPS * cx.eps * R.lincomb_scale(a, C[i], b, C[j])
                            ops = (('x1', C[i]), ('x2', C[j]))
                            for var in ((0, 1) if phase == 0 else (0,)):
                                if var:
                                    regs[2].set(P)
                                cx.check(FL, 'space.lincomb(%r, r%d, %r, r%d, out=r2)%s' % (
                                    a, i, b, j, ' [out prefilled with nan/huge]' if var else ''),
                                    lambda: sp.lincomb(a, E[i], b, E[j], out=E[2]), exp, mut=2,
                                    tol=tol, operands=ops,
                                    sig='ovl:%s:%s' % ('same' if i == j else 'shift', sab))
                            if i != j:
                                cx.check(FL, 'space.lincomb(%r, r%d, %r, r%d)' % (a, i, b, j),
                                         lambda: sp.lincomb(a, E[i], b, E[j]), exp, tol=tol,
                                         operands=ops, sig='ovl:new:' + sab)
                for i, j in pairs:
                    ops = (('x', C[i]), ('y', C[j]))
                    cx.check(FA, 'r%d + r%d' % (i, j), lambda: E[i] + E[j],
                             R.add(C[i], C[j], dt), operands=ops, sig='ovl:x+y')
                    if kind != 'u':
                        cx.check(FA, 'r%d - r%d' % (i, j), lambda: E[i] - E[j],
                                 R.sub(C[i], C[j], dt), operands=ops, sig='ovl:x-y')
                    exp = R.mul(C[i], C[j], dt)
                    cx.check(FM, 'r%d * r%d' % (i, j), lambda: E[i] * E[j], exp, operands=ops,
                             sig='ovl:x*y')
                    cx.check(FM, 'space.multiply(r%d, r%d, out=r2)' % (i, j),
                             lambda: sp.multiply(E[i], E[j], out=E[2]), exp, mut=2,
                             operands=ops, sig='ovl:multiply')
            else:
                for i, j in pairs:
                    ops = (('x', C[i]), ('y', C[j]))
                    exp = R.div(C[i], C[j], dt)
                    cx.check(FD, 'r%d / r%d' % (i, j), lambda: E[i] / E[j], exp, operands=ops,
                             sig='ovl:x/y')
                    cx.check(FD, 'space.divide(r%d, r%d, out=r2)' % (i, j),
                             lambda: sp.divide(E[i], E[j], out=E[2]), exp, mut=2, operands=ops,
                             sig='ovl:divide')
    return cx.result()


def _same_obj(a, b):
    """Structural equality of nested lists / tuples / arrays (type, dtype and values)."""
    if isinstance(a, np.ndarray) or isinstance(b, np.ndarray):
        return (isinstance(a, np.ndarray) and isinstance(b, np.ndarray) and
                a.dtype == b.dtype and a.shape == b.shape and a.tobytes() == b.tobytes())
    if isinstance(a, (list, tuple)):
        return (type(a) is type(b) and len(a) == len(b) and
                all(_same_obj(x, y) for x, y in zip(a, b)))
    return type(a) is type(b) and a == b


def _tuplify(obj):
    return tuple(_tuplify(o) for o in obj) if isinstance(obj, list) else obj


def _array_likes(sp, info, Yflat, phase, mode, j):
    """[(name, array-like with the structure of the space, its entries as a flat array)]."""
    dt, kind, n = info.dtype, info.kind, info.n
    out = [('ndarray' if not is_ps(sp) else 'ndarrays', nest(sp, Yflat, False, dt), Yflat)]
    if is_ps(sp):
        try:
            st = np.array(nest(sp, Yflat, False, dt))
        except ValueError:
            st = None
        if st is not None and st.dtype != object and st.size == n:
            out.append(('stacked-ndarray', st, Yflat))
    # an ndarray of ANOTHER dtype (converted, i.e. copied, by space.element)
    if mode == 'V':
        if kind == 'u':
            ci = R.contents(np.uint8, n, phase, 'V', 3)[j].astype(np.int8)
        else:
            ci = R.contents(np.int8, n, phase, 'V', 3)[j]
        if dt != np.int8:
            out.append(('int8-ndarray', nest(sp, ci, False, np.int8), ci.astype(dt)))
    elif kind in 'fc':
        if kind == 'f':
            od = np.float32 if dt != np.float32 else np.float64
        else:
            od = np.complex64 if dt != np.complex64 else np.complex128
        out.append(('%s-ndarray' % np.dtype(od).name, nest(sp, Yflat.astype(od), False, od),
                    Yflat))
    if n <= 128:
        lst = nest(sp, Yflat, True, dt)
        out.append(('list', lst, Yflat))
        out.append(('tuple', _tuplify(nest(sp, Yflat, True, dt)), Yflat))
        if not is_ps(sp) and len(sp.shape) == 1 and dt.itemsize > 1 and n > 1:
            out.append(('range', range(n), np.arange(n).astype(dt)))
    return out


def _iter_arrays(obj):
    if isinstance(obj, np.ndarray):
        yield obj
    elif isinstance(obj, list):
        for o in obj:
            for a in _iter_arrays(o):
                yield a


# ------------------------------------------------------------------------------------------
# kind: bcast  (power-space broadcasting)

def _rewrap(space, elem):
    """A NEW element of ``space`` wrapping the very arrays of ``elem`` (shares all memory)."""
    if is_ps(space):
        return space.element([_rewrap(s, p) for s, p in zip(space.spaces, elem.parts)])
    return space.element(elem.data)


def run_bcast(cfg):
    cx = Ctx(cfg)
    sp, E, regs, info = cx.space, cx.E, cx.regs, cx.info
    dt, kind = info.dtype, info.kind
    base = sp[0]
    nparts = len(sp)
    nb = int(sum(l.size for l in leaf_spaces(base)))
    mode = cfg['mode']
    can_div = kind not in 'iu' and mode == 'D'
    bl = cfg.get('blay', 'C')
    B = [Reg(base, bl), Reg(base, 'C')]
    # site: direction of the broadcast and kind of the base space
    bk = 'base=%s' % ('pspace' if is_ps(base) else 'tensor')
    F_PB, F_BP, F_IN = ('broadcast(p.b,%s)' % bk, 'broadcast(b.p,%s)' % bk,
                        'broadcast(p.=b,%s)' % bk)
    F_INP = 'broadcast(p.=part_of_p,%s)' % bk
    OPS = [('+', operator.add, operator.iadd, R.add, True),
           ('-', operator.sub, operator.isub, R.sub, kind != 'u'),
           ('*', operator.mul, operator.imul, R.mul, True),
           ('/', operator.truediv, operator.itruediv, R.div, can_div)]
    for phase in range(cx.phases()):
        cx.load(phase, mode)
        C = cx.C
        # contents of the base-space registers: taken from the other end of the tiling
        CB = [c[:nb].copy() for c in R.contents(dt, max(nb, 25), phase + 1, mode, 2)]
        if len(CB[0]) < nb:
            raise AssertionError('harness: base contents')
        for r, c in zip(B, CB):
            r.set(c)
        bsn = [r.bytes() for r in B]

        def bchk(label):
            for m, r in enumerate(B):
                if not r.same(bsn[m]):
                    cx.viol(F_PB, 'operand_modified',
                            '%s changed the base-space operand b%d' % (label, m))
                    r.set(CB[m])
        for sym, f, fi, ref, adm in OPS:
            if not adm:
                continue
            for i in range(3):
                for m in range(2):
                    Yb = np.concatenate([CB[m]] * nparts)
                    ops = (('p', C[i]), ('b', Yb))
                    lab = 'r%d %s b%d' % (i, sym, m)
                    cx.check(F_PB, lab, lambda: f(E[i], B[m].elem), ref(C[i], Yb, dt),
                             operands=ops, sig='p%sb' % sym)
                    bchk(lab)
                    lab = 'b%d %s r%d' % (m, sym, i)
                    cx.check(F_BP, lab, lambda: f(B[m].elem, E[i]), ref(Yb, C[i], dt),
                             operands=ops, sig='b%sp' % sym)
                    bchk(lab)
                    # in place: the parts are updated in place; the returned element wraps them
                    lab = 'r%d %s= b%d' % (i, sym, m)
                    exp = ref(C[i], Yb, dt)

                    hold = []

                    def inplace():
                        ret = fi(E[i], B[m].elem)
                        if ret is not E[i]:
                            hold.append(hasattr(ret, 'space') and ret.space == sp and
                                        R.same_ieee(flat_of(ret), regs[i].get()))
                        return ret
                    cx.check(F_IN, lab, inplace, exp, mut=i, ret_is_out=False,
                             operands=ops, sig='p%s=b' % sym)
                    if hold and not hold[0]:
                        cx.viol(F_IN, 'inplace_return_value_differs',
                                '%s returned an element that does not hold the contents of '
                                'the updated left operand' % lab)
                    bchk(lab)
            # ---- the operand is a PART of the (in-place) target, for EVERY part index k, or a
            # different element that merely wraps the memory of part k.  Reference: NumPy on
            # copies (all parts op copy of part k).  Aliasing pattern "broadcast operand is a
            # component of the target" of the clause "every aliasing pattern".
            for i in range(3):
                for k in range(nparts):
                    own = E[i].parts[k]
                    alias = _rewrap(base, own)
                    if alias is own or not any(
                            np.shares_memory(a, b)
                            for a, b in zip(elem_arrays(alias), elem_arrays(own))):
                        raise AssertionError('harness: alias of a part not realised')
                    Yb = np.concatenate([C[i][k * nb:(k + 1) * nb]] * nparts)
                    ops = (('p', C[i]), ('p[k]', Yb))
                    for who, b_el in (('r%d[%d]' % (i, k), own),
                                      ('<element sharing memory with r%d[%d]>' % (i, k), alias)):
                        tag = 'part' if b_el is own else 'alias'
                        pos = 'first' if k == 0 else ('last' if k == nparts - 1 else 'middle')
                        cx.check(F_PB, 'r%d %s %s' % (i, sym, who), lambda: f(E[i], b_el),
                                 ref(C[i], Yb, dt), operands=ops,
                                 sig='p%s%s:%s' % (sym, tag, pos))
                        cx.check(F_BP, '%s %s r%d' % (who, sym, i), lambda: f(b_el, E[i]),
                                 ref(Yb, C[i], dt), operands=ops,
                                 sig='%s%sp:%s' % (tag, sym, pos))
                        lab = 'r%d %s= %s' % (i, sym, who)
                        exp = ref(C[i], Yb, dt)
                        hold = []

                        def inplace2():
                            ret = fi(E[i], b_el)
                            if ret is not E[i]:
                                hold.append(hasattr(ret, 'space') and ret.space == sp and
                                            R.same_ieee(flat_of(ret), regs[i].get()))
                            return ret
                        cx.check(F_INP, lab, inplace2, exp, mut=i, ret_is_out=False,
                                 operands=ops, sig='p%s=%s:%s' % (sym, tag, pos))
                        if hold and not hold[0]:
                            cx.viol(F_INP, 'inplace_return_value_differs',
                                    '%s returned an element that does not hold the contents of '
                                    'the updated left operand' % lab)
    return cx.result()


# ------------------------------------------------------------------------------------------
# kind: hist  (history space, BFS over in-place operations)

def _alphabet(cx):
    """[(name, exec(E) , model(list of wide arrays) -> list of wide arrays)]"""
    kind = cx.info.kind
    sp = cx.space
    ops = []

    def mk(name, ex, mo):
        ops.append((name, ex, mo))

    def upd(st, k, val):
        st = list(st)
        st[k] = val
        return st
    for i in range(3):
        for j in range(3):
            mk('r%d += r%d' % (i, j), lambda E, i=i, j=j: operator.iadd(E[i], E[j]),
               lambda st, i=i, j=j: upd(st, i, st[i] + st[j]))
            if kind != 'u':
                mk('r%d -= r%d' % (i, j), lambda E, i=i, j=j: operator.isub(E[i], E[j]),
                   lambda st, i=i, j=j: upd(st, i, st[i] - st[j]))
            mk('r%d *= r%d' % (i, j), lambda E, i=i, j=j: operator.imul(E[i], E[j]),
               lambda st, i=i, j=j: upd(st, i, st[i] * st[j]))
            if i != j:
                mk('r%d.assign(r%d)' % (i, j), lambda E, i=i, j=j: E[i].assign(E[j]),
                   lambda st, i=i, j=j: upd(st, i, st[j].copy()))
    sc = [2, 0] if kind == 'u' else [2, -1, 0]
    for i in range(3):
        for a in sc:
            mk('r%d *= %r' % (i, a), lambda E, i=i, a=a: operator.imul(E[i], a),
               lambda st, i=i, a=a: upd(st, i, st[i] * a))
        mk('r%d += 1' % i, lambda E, i=i: operator.iadd(E[i], 1),
           lambda st, i=i: upd(st, i, st[i] + 1))
        if kind in 'fc':
            mk('r%d /= 2' % i, lambda E, i=i: operator.itruediv(E[i], 2),
               lambda st, i=i: upd(st, i, st[i] / 2))
        mk('r%d.set_zero()' % i, lambda E, i=i: E[i].set_zero(),
           lambda st, i=i: upd(st, i, st[i] * 0))
        mk('r%d **= 2' % i, lambda E, i=i: operator.ipow(E[i], 2),
           lambda st, i=i: upd(st, i, st[i] * st[i]))
    if kind in 'fc':
        AB = [(2.0, -1), (0.5, 1)]
    elif kind == 'i':
        AB = [(2, -1), (-1, 3)]
    else:
        AB = [(2, 1), (1, 3)]
    for a, b in AB:
        for i in range(3):
            for j in range(3):
                for k in range(3):
                    mk('space.lincomb(%r, r%d, %r, r%d, out=r%d)' % (a, i, b, j, k),
                       lambda E, a=a, b=b, i=i, j=j, k=k: sp.lincomb(a, E[i], b, E[j],
                                                                     out=E[k]),
                       lambda st, a=a, b=b, i=i, j=j, k=k: upd(st, k, a * st[i] + b * st[j]))
    return ops


def hist_alphabet_size(kind):
    class _F(object):
        pass
    f = _F()
    f.info = _F()
    f.info.kind = kind
    f.space = None
    return len(_alphabet(f))


def run_hist(cfg):
    cx = Ctx(cfg)
    regs, E, info = cx.regs, cx.E, cx.info
    dt = info.dtype
    W = R.wide(dt)
    depth = int(cfg['depth'])
    ops = _alphabet(cx)
    cx.load(0, 'V')
    init = [c.astype(W) for c in cx.C]
    lim = float(np.finfo(dt).max) / 8 if info.kind in 'fc' else np.iinfo(dt).max // 8

    def key(st):
        return b'|'.join(s.tobytes() for s in st)
    seen = {key(init)}
    frontier = [(init, ())]
    nstates = 1
    for d in range(depth):
        nxt = []
        for st, hist in frontier:
            todo = ops
            if d == 0 and cfg.get('first') is not None:
                todo = [ops[cfg['first']]]
            for name, ex, mo in todo:
                for r, s in zip(regs, st):
                    r.set(s.astype(dt))
                try:
                    new = mo(st)
                    with np.errstate(all='ignore'):
                        narrow = [s.astype(dt) for s in new]
                        exact = all(np.array_equal(nw.astype(W), s)
                                    for nw, s in zip(narrow, new)) and \
                            all(np.all(np.abs(s) <= lim) for s in new)
                except (FloatingPointError, OverflowError):
                    exact = False
                if not exact:
                    cx.skipped += 1        # result not exactly representable: not judged
                    continue
                h = hist + (name,)
                try:
                    ex(E)
                except Exception as e:      # noqa
                    cx.phase, cx.mode = 0, 'V'
                    cx.viol('history', 'raises:' + exc_name(e),
                            'history %s: last call raised %r' % (' ; '.join(h), e))
                    cx.sigs.add('hist:raise')
                    continue
                cx.evals += 1
                bad = None
                for m in range(3):
                    got = regs[m].get()
                    if not np.array_equal(got, narrow[m]):
                        t = R.first_diff(got, narrow[m])
                        bad = 'r%d flat index %d: expected %r got %r' % (
                            m, t, narrow[m][t].item(), got[t].item())
                        break
                if bad is not None:
                    cx.viol('history', 'state_differs', 'history %s: %s (registers before the '
                            'last call at that index: %s)' % (
                                ' ; '.join(h), bad,
                                [s.ravel()[R.first_diff(got, narrow[m])].item() for s in st]))
                    continue
                if any(r.gaps and not r.gaps_same() for r in regs):
                    cx.viol('history', 'memory_outside_view_written', 'history %s' % ' ; '.join(h))
                    for r in regs:
                        for g in r.gaps:
                            g[...] = GAPVAL
                k = key(new)
                if k not in seen:
                    seen.add(k)
                    nstates += 1
                    if d + 1 < depth:
                        nxt.append((new, h))
        frontier = nxt
    cx.sigs.add('hist:depth%d:states%d' % (depth, nstates))
    res = cx.result()
    res['sample'] = {'distinct_register_states': nstates}
    return res


# ------------------------------------------------------------------------------------------
# configurations

ONE_D = [1, 3, 99, 100, 101, 49999, 50000, 50001]
TWO_D = [[9, 11], [10, 10], [250, 200]]
THREE_D = [[2, 5, 10]]
THREE_D_T = [[2, 5, 10], [40, 25, 50]]
DT_Q = ['float64', 'float32', 'complex128', 'int64']
DT_T = ['float64', 'float32', 'complex128', 'int64', 'complex64', 'int32', 'int8', 'uint8',
        'float16']

# Dtype sweep (both tiers, for the dtypes not already in DT_Q / DT_T): every other scalar dtype
# class the library can build ("dtype: ... in any way the numpy.dtype function understands",
# NumpyTensorSpace.available_dtypes()), in particular the float / complex dtypes on BOTH sides of
# the table of BLAS-capable dtypes (inside: complex64; outside: half, extended precision
# longdouble / clongdouble, non-native byte order), each in every size regime and with
# contiguous (C / F) as well as strided registers, so that the dtype arm of the dispatch
# "BLAS or fallback" is toggled together with the size and contiguity arms.
DT_X_FLOAT = ['longdouble', 'clongdouble', 'float16', 'complex64', '>f8']
DT_X_INT = ['int32', 'int16', 'int8', 'uint8', 'uint16', 'uint32', 'uint64', '>i4']
X_SHAPES_FLOAT = [[3], [100], [50000], [250, 200]]
X_SHAPES_INT = [[3], [100], [50000]]
X_SKIP = [['T', [250, 200], 'clongdouble']]      # (cost; the 2-d large case runs with longdouble)

RN = lambda n, dt='float64': ['T', [n], dt]      # noqa

PSPACES_Q = [
    ['P', RN(3), RN(2)],
    ['W', RN(3), 2],
    ['W', ['W', RN(2), 2], 2],
    ['W', RN(2, 'complex128'), 2],
    ['P', ['U', [3], 'float64'], RN(2)],
    ['P', RN(120), RN(3)],
    ['W', ['T', [2, 3], 'float64'], 2],
    ['W', RN(3, 'int64'), 2],
    ['P', RN(120, 'int64'), RN(3, 'int64')],
]
PSPACES_T = PSPACES_Q + [
    ['W', RN(3, 'float32'), 3],
    ['W', ['U', [2, 3], 'float64'], 2],
    ['W', RN(50000), 2],
    ['P', RN(50000, 'complex128'), RN(100, 'complex128'), RN(3, 'complex128')],
    ['W', ['P', RN(3), RN(101)], 2],
]
DISCR_Q = [['U', [3], 'float64'], ['U', [100], 'float64'], ['U', [10, 10], 'float64'],
           ['U', [2, 5, 10], 'float64'], ['U', [50000], 'float64'], ['U', [3], 'complex128'],
           ['U', [101], 'complex128'], ['U', [10, 10], 'float32']]
# discretized / product spaces over the dtypes of the sweep (large: the leaves reach the same
# size / dtype / contiguity dispatch as plain tensor spaces)
DISCR_X = [['U', [250, 200], 'longdouble'], ['U', [50000], 'clongdouble'],
           ['U', [10, 10], 'float16'], ['U', [100], 'longdouble']]
PSPACES_X = [['P', RN(50000, 'longdouble'), RN(3, 'longdouble')],
             ['W', RN(3, 'clongdouble'), 2], ['W', RN(3, 'float16'), 2]]
DISCR_T = DISCR_Q + [['U', [99], 'float64'], ['U', [250, 200], 'float64'],
                     ['U', [250, 200], 'complex128'], ['U', [50001], 'float32'],
                     ['U', [1], 'float64'], ['U', [10, 10], 'complex64']]


def _lay_combos(ndim, tier, maxdev):
    """Layout triples: every uniform triple (L, L, L) (BLAS needs all three C or all three F),
    plus all triples with at most ``maxdev`` registers deviating from C (None: full product)."""
    L = layouts_for(ndim, tier)
    out = []
    for c in itertools.product(L, repeat=3):
        dev = sum(1 for l in c if l != 'C')
        if maxdev is None or dev <= maxdev or len(set(c)) == 1:
            out.append((dev, [L.index(l) for l in c], list(c)))
    out.sort(key=lambda t: (t[0], t[1]))
    return [c for _, _, c in out]


def _spec_size(spec):
    if spec[0] in 'TU':
        return int(np.prod(spec[1]))
    if spec[0] == 'P':
        return sum(_spec_size(s) for s in spec[1:])
    return _spec_size(spec[1]) * spec[2]


def _spec_maxleaf(spec):
    if spec[0] in 'TU':
        return int(np.prod(spec[1]))
    if spec[0] == 'P':
        return max(_spec_maxleaf(s) for s in spec[1:])
    return _spec_maxleaf(spec[1])


def _spec_ndim(spec):
    if spec[0] in 'TU':
        return len(spec[1])
    if spec[0] == 'P':
        return max(_spec_ndim(s) for s in spec[1:])
    return _spec_ndim(spec[1])


def _spec_dtype(spec):
    if spec[0] in 'TU':
        return spec[2]
    return _spec_dtype(spec[1])


def _spec_is_power(spec):
    return spec[0] == 'W'


BIG = 10000        # states over arrays this large are split / use fewer layout triples


def _is_big(spec):
    return _spec_maxleaf(spec) >= BIG


def _lincomb_cfgs(spec, lay, tier, shared=False):
    """Large states are split over the first scalar so that one state stays below ~1 s."""
    base = {'kind': 'lincomb', 'space': spec, 'lay': lay, 'tier': tier}
    if shared:
        base['shared'] = 1
    if tier == 'thorough' and 25 <= _spec_size(spec) < 125 and _ndev(lay) <= 1:
        base['tri'] = 1     # all (x1, x2, previous out) value triples, not only all pairs
    if _is_big(spec):
        nS = len(scalars(R.kind(_spec_dtype(spec)), tier, True))
        return [dict(base, a=a) for a in range(nS)]
    return [base]


def _ndev(c):
    return sum(1 for l in c if l != 'C')


def configs(tier):
    thorough = tier == 'thorough'
    dts = DT_T if thorough else DT_Q
    cfgs = []
    one_d = ONE_D if thorough else [n for n in ONE_D if n != 50001]
    shapes = [[n] for n in one_d] + TWO_D + (THREE_D_T if thorough else THREE_D)
    shapes.sort(key=lambda s: (int(np.prod(s)), len(s)))
    tens = [['T', sh, dt] for dt in dts for sh in shapes]
    # dtype sweep: the remaining dtype classes, one size per regime (+ a large 2-d shape for
    # the float-like ones, where C / F contiguity decides the ravel order of the BLAS branch)
    tens += [['T', sh, dt] for dt in DT_X_FLOAT if dt not in dts for sh in X_SHAPES_FLOAT]
    tens += [['T', sh, dt] for dt in DT_X_INT if dt not in dts for sh in X_SHAPES_INT]
    tens = [t for t in tens if t not in X_SKIP]
    discr = (DISCR_T if thorough else DISCR_Q) + DISCR_X
    psp = (PSPACES_T if thorough else PSPACES_Q) + PSPACES_X

    def lin_combos(spec):
        nd, size = _spec_ndim(spec), _spec_size(spec)
        if spec[0] != 'T':
            return _lay_combos(nd, tier, 1)
        main = spec[2] in DT_Q
        if thorough:
            if size == 1:
                md = 0
            elif size < 25:
                md = 1
            elif _is_big(spec):
                md = 2 if (nd < 3 and spec[2] == 'float64') else 1
            else:
                md = None if main else 2        # full product for the four main dtypes
        else:
            md = 2 if 25 <= size < BIG else (1 if size > 1 else 0)
        return _lay_combos(nd, tier, md)

    def ar_combos(spec):
        # the derived API is a thin layer over lincomb/multiply/divide: fewer layout triples
        nd, size = _spec_ndim(spec), _spec_size(spec)
        if spec[0] != 'T':
            return _lay_combos(nd, tier, 1)
        c = _lay_combos(nd, tier, 2 if (thorough and 25 <= size < BIG) else 1)
        if size < 25 or _is_big(spec):
            c = [x for x in c if len(set(x)) == 1] + [x for x in c if _ndev(x) == 1][:1]
        return c

    # ---- lincomb
    for spec in tens + discr + psp:
        for lay in lin_combos(spec):
            cfgs += _lincomb_cfgs(spec, lay, tier)
        if _spec_is_power(spec):
            cfgs += _lincomb_cfgs(spec, ['C', 'C', 'C'], tier, shared=True)

    # ---- arith
    def modes(spec):
        # V: zeros among the values, no division; D: non-zero divisors, exact quotients;
        # Z: divisors with exact zeros, division only (IEEE inf/nan expected)
        return ['V'] if R.kind(_spec_dtype(spec)) in 'iu' else ['V', 'D', 'Z']
    for spec in tens + discr + psp:
        if spec[0] == 'T' and spec[1] in ([49999], [50001], [40, 25, 50]):
            continue        # regimes of the layer below are the business of the lincomb kind
        lays, mds = ar_combos(spec), modes(spec)
        if _is_big(spec) and _spec_dtype(spec) not in dts:
            # dtype sweep, large arrays: the derived API over contiguous registers (the ones
            # the dtype arm of the dispatch matters for), zero divisors are left to the small ones
            lays = [x for x in lays if len(set(x)) == 1 and x[0] in 'CF']
            mds = mds[:2]
        for lay in lays:
            for mode in mds:
                cfgs.append({'kind': 'arith', 'space': spec, 'lay': lay, 'mode': mode,
                             'tier': tier})

    # ---- broadcasting over power spaces (extra ones with >= 3 parts: first / middle / last)
    bsp = psp + [['W', RN(3), 3], ['W', ['U', [3], 'float64'], 3], ['W', RN(120), 3],
                 ['W', ['U', [2, 3], 'complex128'], 3]]
    if thorough:
        bsp += [['W', RN(3, 'int64'), 4], ['W', RN(101, 'float32'), 3],
                ['W', ['U', [50000], 'float64'], 3]]
    for spec in bsp:
        if not _spec_is_power(spec):
            continue
        for bl in ('C', 'S0'):
            for mode in modes(spec)[:2]:
                cfgs.append({'kind': 'bcast', 'space': spec, 'lay': ['C', 'C', 'C'],
                             'blay': bl, 'mode': mode, 'tier': tier})

    # ---- distinct operands that are overlapping shifted views of one buffer (read only)
    osp = []
    for dt in dts:
        for sh in ([3], [99], [100], [101], [50000]):
            osp.append((['T', sh, dt], 'C', 'C'))
        osp.append((['T', [10, 10], dt], 'F', 'C'))
    for dt in DT_X_FLOAT:
        if dt not in dts:
            for sh in ([100], [50000]):
                osp.append((['T', sh, dt], 'C', 'C'))
    osp += [(['T', [10, 10], 'float64'], 'C', 'F'), (['T', [250, 200], 'float64'], 'C', 'C'),
            (['T', [250, 200], 'float64'], 'F', 'F'), (['T', [2, 5, 10], 'float64'], 'C', 'C'),
            (['U', [100], 'float64'], 'C', 'C'), (['U', [50000], 'float64'], 'C', 'C'),
            (['U', [10, 10], 'float32'], 'F', 'F'), (['P', RN(120), RN(3)], 'C', 'C'),
            (['W', RN(3), 2], 'C', 'C')]
    if thorough:
        for dt in dts:
            for sh in ([49999], [50001]):
                osp.append((['T', sh, dt], 'C', 'C'))
            osp.append((['T', [250, 200], dt], 'F', 'F'))
            osp.append((['T', [100], dt], 'C', 'S0'))
        osp += [(['T', [40, 25, 50], 'float64'], 'C', 'C'),
                (['U', [250, 200], 'complex128'], 'C', 'C'),
                (['W', RN(50000), 2], 'C', 'C')]
    for spec, order, olay in osp:
        c = {'kind': 'overlap', 'space': spec, 'ovl': order, 'lay': ['OA', 'OB', olay],
             'tier': tier}
        if c not in cfgs:
            cfgs.append(c)

    # ---- extreme (finite) magnitudes
    rsp = [(RN(3), ['C', 'C', 'C']), (RN(100), ['C', 'C', 'C']), (RN(50000), ['C', 'C', 'C']),
           (RN(50000), ['C', 'C', 'S0']), (RN(100, 'float32'), ['C', 'C', 'C']),
           (RN(101, 'complex128'), ['C', 'C', 'C']), (['U', [10, 10], 'float64'], ['F', 'C', 'C']),
           (['P', RN(120), RN(3)], ['C', 'C', 'C']),
           (RN(100, 'longdouble'), ['C', 'C', 'C']), (RN(50000, 'longdouble'), ['C', 'C', 'C']),
           (RN(100, 'clongdouble'), ['C', 'C', 'C']), (RN(50000, 'complex64'), ['C', 'C', 'C'])]
    if thorough:
        rsp += [(RN(99), ['C', 'C', 'C']), (RN(49999), ['C', 'C', 'C']),
                (RN(50000, 'complex128'), ['C', 'C', 'C']),
                (RN(50000, 'float32'), ['S0', 'C', 'C']),
                (RN(100, 'complex64'), ['C', 'S0', 'C']),
                (['T', [250, 200], 'float64'], ['F', 'F', 'F']),
                (['T', [10, 10], 'float64'], ['C', 'F', 'S1'])]
    for spec, lay in rsp:
        cfgs.append({'kind': 'range', 'space': spec, 'lay': lay, 'tier': tier})

    # ---- histories
    hsp = [(RN(3), ['C', 'C', 'C']), (RN(100), ['C', 'C', 'C']), (RN(100), ['C', 'S0', 'C']),
           (RN(101, 'complex128'), ['C', 'C', 'C']), (RN(100, 'float32'), ['S0', 'C', 'C']),
           (['T', [10, 10], 'float64'], ['C', 'F', 'C']), (RN(3, 'int64'), ['C', 'C', 'C']),
           (RN(100, 'int64'), ['C', 'C', 'C']),
           (['W', RN(3), 2], ['C', 'C', 'C']), (['U', [100], 'float64'], ['C', 'C', 'C'])]
    if thorough:
        hsp += [(RN(99), ['C', 'C', 'C']), (RN(50000), ['C', 'C', 'C']),
                (RN(50000), ['C', 'S0', 'C']),
                (RN(50000, 'complex128'), ['C', 'C', 'C']),
                (['T', [250, 200], 'float64'], ['F', 'F', 'F']),
                (['T', [250, 200], 'float32'], ['F', 'C', 'F']),
                (['P', RN(120), RN(3)], ['C', 'C', 'C'])]
    deep = [(RN(100), ['C', 'S0', 'C']), (RN(101, 'complex128'), ['C', 'C', 'C'])]
    for spec, lay in hsp:
        depth = 3 if (thorough and (spec, lay) in deep) else 2
        nops = hist_alphabet_size(R.kind(_spec_dtype(spec)))
        for f in range(nops):
            cfgs.append({'kind': 'hist', 'space': spec, 'lay': lay, 'depth': depth, 'first': f,
                         'tier': tier})
    # distinct product-space elements that SHARE some of their part objects (an element built
    # from the parts of another one): identity aliasing on the level of the parts
    for sname in ('rn3^2', 'rn2^3', 'rn2xrn3xrn2', '(rn2^2)^2', 'ud3^2', 'cn2^3', 'rn120^2'):
        for op in ('assign', 'lincomb1', 'lincomb', 'add', 'multiply', 'divide'):
            cfgs.append({'kind': 'sharedpart', 'space': sname, 'op': op, 'tier': tier})
    return cfgs


def _sp_space(name):
    return {'rn3^2': lambda: odl.rn(3) ** 2, 'rn2^3': lambda: odl.rn(2) ** 3,
            'rn2xrn3xrn2': lambda: odl.ProductSpace(odl.rn(2), odl.rn(3), odl.rn(2)),
            '(rn2^2)^2': lambda: (odl.rn(2) ** 2) ** 2,
            'ud3^2': lambda: odl.uniform_discr(0, 1, 3) ** 2, 'cn2^3': lambda: odl.cn(2) ** 3,
            'rn120^2': lambda: odl.rn(120) ** 2}[name]()


def _sp_flat(x):
    if isinstance(x.space, odl.ProductSpace):
        return np.concatenate([_sp_flat(xi) for xi in x])
    return np.array(x.asarray(), copy=True).ravel()


def run_sharedpart(cfg):
    """out, x (and y) are different elements of a product space; every non-empty proper subset of
    the positions holds the SAME part object in out and x (for the two-operand forms also in out
    and y).  The result must be the entry-wise one computed from copies taken before the call;
    parts of the operands that are not parts of out must be unchanged."""
    sp = _sp_space(cfg['space'])
    n = len(sp)
    cplx = np.issubdtype(sp[0].dtype if not isinstance(sp[0], odl.ProductSpace)
                         else sp[0][0].dtype, np.complexfloating)
    V = np.array([-2.0, -0.5, 0.0, 1.0, 3.0, 0.5, 2.0])

    def fill(part_space, seed):
        if isinstance(part_space, odl.ProductSpace):
            return part_space.element([fill(p, seed + 3 * i + 1) for i, p in enumerate(part_space)])
        m = int(np.prod(part_space.shape))
        a = V[(np.arange(m) * (seed % 5 + 1) + seed) % len(V)]
        if cplx:
            a = a + 1j * V[(np.arange(m) + 2 * seed + 1) % len(V)]
        return part_space.element(a.reshape(part_space.shape))
    op = cfg['op']
    scal = [(1, 0), (2, -1), (0, 1), (-1, 0.5)] if op == 'lincomb' else [(1, 0)]
    viol, evals, sigs = {}, 0, set()
    site = '%s(distinct elements sharing part objects)[pspace,%s,%s]' % (
        {'assign': 'copy_assign', 'lincomb1': 'lincomb', 'lincomb': 'lincomb', 'add': 'add_sub',
         'multiply': 'elem_mul', 'divide': 'elem_div'}[op], 'complex' if cplx else 'float',
        'medium' if cfg['space'] == 'rn120^2' else 'small')
    import itertools as _it
    subsets = [sub for r in range(1, n) for sub in _it.combinations(range(n), r)]
    for sub in subsets:
        for who in (('x',) if op in ('assign', 'lincomb1') else ('x', 'y')):
            for a, b in scal:
                xparts = [fill(p, 1 + i) for i, p in enumerate(sp)]
                yparts = [fill(p, 11 + 2 * i) for i, p in enumerate(sp)]
                if op == 'divide':
                    for yp in yparts:            # no zero divisors
                        yp.lincomb(1, yp, 0, yp)
                        yp += yp.space.one() * 4
                oparts = [fill(p, 23 + i) for i, p in enumerate(sp)]
                src = xparts if who == 'x' else yparts
                for i in sub:
                    oparts[i] = src[i]
                x, y, out = sp.element(xparts), sp.element(yparts), sp.element(oparts)
                x0, y0 = _sp_flat(x), _sp_flat(y)
                try:
                    if op == 'assign':
                        out.assign(x)
                        exp = x0
                    elif op == 'lincomb1':
                        sp.lincomb(1, x, out=out)
                        exp = x0
                    elif op == 'lincomb':
                        sp.lincomb(a, x, b, y, out=out)
                        exp = a * x0 + b * y0
                    elif op == 'add':
                        sp.lincomb(1, x, 1, y, out=out)
                        exp = x0 + y0
                    elif op == 'multiply':
                        sp.multiply(x, y, out=out)
                        exp = x0 * y0
                    else:
                        sp.divide(x, y, out=out)
                        exp = x0 / y0
                except Exception as e:       # noqa
                    viol.setdefault('raises:' + type(e).__name__,
                                    'shared positions %s with %s: %r' % (list(sub), who, e))
                    evals += 1
                    continue
                evals += 1
                got = _sp_flat(out)
                sigs.add('%s:%d shared of %d' % (op, len(sub), n))
                if not np.array_equal(got, exp.astype(got.dtype)):
                    viol.setdefault('result_differs',
                                    '%s on %s, out shares the part objects at positions %s with %s '
                                    '(a=%r, b=%r): got %s, entry-wise result from the values before '
                                    'the call %s' % (op, cfg['space'], list(sub), who, a, b,
                                                     got.tolist()[:12], exp.tolist()[:12]))
                # parts of the operands that are not parts of out
                for nm, parts, before in (('x', xparts, x0), ('y', yparts, y0)):
                    pos = 0
                    for i, pt in enumerate(parts):
                        m = _sp_flat(pt).size
                        shared = (i in sub and nm == who)
                        if not shared and not np.array_equal(_sp_flat(pt), before[pos:pos + m]):
                            viol.setdefault('operand_modified',
                                            '%s: part %d of %s changed although it is not a part '
                                            'of out (shared positions %s with %s)'
                                            % (op, i, nm, list(sub), who))
                        pos += m
    return {'evals': evals, 'viol': [{'site': site, 'symptom': k, 'detail': d}
                                     for k, d in viol.items()],
            'sig': sorted(sigs) or ['none'], 'trivial': evals == 0}


RUNNERS = {'lincomb': run_lincomb, 'arith': run_arith, 'bcast': run_bcast, 'hist': run_hist,
           'range': run_range, 'overlap': run_overlap, 'sharedpart': run_sharedpart}


def run(cfg):
    return RUNNERS[cfg['kind']](cfg)


def trace_functions():
    from odl.space import npy_tensors as NT
    from odl.space import pspace as PS
    from odl.set.space import LinearSpaceElement
    return [NT._lincomb_impl, NT._blas_is_applicable, LinearSpaceElement.__ipow__,
            NT.NumpyTensor.__ipow__, PS.ProductSpaceElement.__add__]


def summarize(results):
    by = {}
    inexact = 0
    for cfg, res in results:
        d = by.setdefault(cfg['kind'], {'states': 0, 'evals': 0})
        d['states'] += 1
        d['evals'] += res['evals']
        inexact += res.get('inexact', 0)
    return {'per_kind': by,
            'diagnostic_within_tolerance_but_not_bit_exact': inexact}


def meta(tier):
    th = tier == 'thorough'
    return {
        'rule': 'one state = (kind, space, memory layout of each of the 3 registers[, mode, first '
                'scalar / first operation]); inside a lincomb state ALL 27 (x1,x2,out) register '
                'triples x ALL (a,b) in S^2 x {out keeps its contents, out prefilled with '
                'nan/huge when it is not an operand} are executed; "for all element values" by '
                'entry-wise independence: the registers hold a Latin-square tiling of value '
                'indices so that every pair of alphabet values (thorough, sizes 25..124, <= 1 '
                'layout deviation: every triple incl. the previous content of out) meets in '
                'every call; sizes < 25 run ceil(25/size) phases; every execution is compared '
                'exactly (8 eps x magnitude for the non-dyadic scalars and fractional powers) '
                'with mc/ref/arith.py; hist = BFS over in-place operation sequences, '
                'deduplicated by register contents. distinct = distinct (space kind, dtype '
                'kind, size regime, operation, aliasing pattern, scalar classes, outcome) + '
                'executed-line signature of _lincomb_impl, _blas_is_applicable, __ipow__, '
                '_broadcast_arithmetic_impl',
        'bounds': {
            'sizes_1d': ONE_D if th else [n for n in ONE_D if n != 50001],
            'shapes_2d': TWO_D, 'shapes_3d': THREE_D_T if th else THREE_D,
            'dtypes': DT_T if th else DT_Q,
            'dtype_sweep': {
                'float_like': [d for d in DT_X_FLOAT if d not in (DT_T if th else DT_Q)],
                'shapes_float_like': X_SHAPES_FLOAT,
                'int_like': [d for d in DT_X_INT if d not in (DT_T if th else DT_Q)],
                'shapes_int_like': X_SHAPES_INT, 'not_run': X_SKIP,
                'discretized': DISCR_X, 'product_spaces': PSPACES_X,
                'kinds': 'lincomb (same layout triples as the main dtypes), arith (>= 10000 '
                         'entries: contiguous uniform triples, modes V and D), bcast, overlap '
                         '(sizes 100, 50000), range (longdouble 100 / 50000, clongdouble 100, '
                         'complex64 50000)'},
            'layouts': {'1d': layouts_for(1, tier), '2d': layouts_for(2, tier),
                        '3d': layouts_for(3, tier),
                        'legend': 'C, F contiguous; S0/S1 every second entry along the first/'
                                  'last axis of a larger array; R reversed first axis; P first '
                                  'two axes swapped'},
            'layout_triples(lincomb)': (
                'all uniform triples (L,L,L) plus: full product for sizes 25..9999 with the '
                'four main dtypes (other dtypes <= 2 deviations from C); >= 10000 entries: <= 1 '
                'deviation (float64 1-d/2-d: <= 2); sizes 3: <= 1; size 1: uniform only'
                if th else
                'all uniform triples (L,L,L) plus <= 2 registers deviating from C for sizes '
                '25..9999, <= 1 for size 3 and for >= 10000 entries, uniform only for size 1'),
            'layout_triples(arith)': 'uniform triples + <= %d deviation(s); size < 25 and '
                                     '>= 10000 entries: uniform + one single deviation'
                                     % (2 if th else 1),
            'V': R.V_FLOAT, 'V_int': R.V_INT, 'V_uint': R.V_UINT, 'D(divisors)': R.D_FLOAT,
            'Z(divisors with zeros)': [str(v) for v in R.Z_FLOAT],
            'overlapping_operands': 'r0 = buf[1:], r1 = buf[:-1] of one buffer per leaf (C buffer '
                                    'shifted along the first axis / F buffer along the last), '
                                    'de Bruijn tiling: all 25 ordered value pairs (x1[t], x2[t]); '
                                    'lincomb (a,b) in S^2 with out = separate register or new, '
                                    'x+y, x-y, x*y, x/y, multiply/divide(out=); sizes 3, 99, 100, '
                                    '101, 50000, (10,10), (250,200), (2,5,10), discr, pspace',
            'S_real': [str(s) for s in scalars('f', tier)],
            'S_complex': [str(s) for s in scalars('c', tier)],
            'S_int': scalars('i', tier), 'S_uint': scalars('u', tier),
            'S(>=10000 entries)': {'real': [str(s) for s in scalars('f', tier, True)],
                                   'complex': [str(s) for s in scalars('c', tier, True)]},
            'powers': 'n in -2..4 (integer spaces: 0..4 capped by the dtype range), 2.0, '
                      'p in {0.5,-1.5,2.5} on tensor/discretized spaces',
            'discretized': DISCR_T if th else DISCR_Q,
            'product_spaces': PSPACES_T if th else PSPACES_Q,
            'extreme_magnitudes(range kind)': 'scalars {1, 2^-e, 2^e, -2^e (, i 2^-e)}, entries '
                                              '{2^(5e/6), 1, 2^-(5e/6), 0, -2^(5e/6)}, e = 600 '
                                              '(double) / 60 (single)',
            'history': 'alphabet of %d in-place operations (float), depth 2%s' % (
                hist_alphabet_size('f'),
                '; depth 3 on rn(100)[C,S0,C] and cn(101)' if th else ''),
        },
        'assumptions': [
            'aliasing = identity of element objects (property anchor); an OUTPUT that overlaps '
            'an operand without being identical to it, a product element used as OUTPUT whose '
            'parts are one object are not enumerated; distinct operands that only are READ may '
            'overlap (kind overlap); a broadcast operand that is (or shares the memory of) part '
            'k of the in-place target IS enumerated for every k (kind bcast)',
            'no NaN/Inf in operands; NaN/huge only in an out register that is not an operand, '
            'and in the target of set_zero(); divisors contain exact zeros only in mode Z, where '
            'the expected quotient is NumPy\'s IEEE result (+-inf, nan) on copies, compared with '
            'nan == nan and the sign of inf exactly',
            'integer spaces: only + - * and non-negative integer powers with integer scalars '
            'are judged; "/" on integer spaces counted as unspecified; unsigned: no subtraction',
            'non-dyadic scalars (3.0, 1+0.5j; thorough) and fractional powers are judged with '
            '8 eps x magnitude because the fallback axpy divides by the scalar and multiplies '
            'back; results inside that tolerance but not bit-exact are counted in '
            'diagnostic_within_tolerance_but_not_bit_exact',
            'longdouble / clongdouble registers are compared by value (nan == nan, sign of zero '
            'included) instead of byte-wise: their padding bytes are not part of the value; the '
            'reference computes in the dtype itself when it is wider than float64 / complex128; '
            'no history kind for them (padding would make the state key non-deterministic)',
            'dtype sweep: bool / string dtypes are outside the property (float/complex/integer); '
            'non-native byte order is enumerated for real float and int only',
            'shape () (space.size reports 0) and empty spaces are not enumerated (documentation '
            'asks for positive ints)',
            'left operands that are NumPy scalars/arrays dispatch through __array_ufunc__ '
            '(property C17) and are not enumerated here',
            'unreached anchor lines: __ipow__ field-is-None / non-integer-p ValueError arms '
            '(documented rejections), NumpyTensor.__ipow__ TypeError arm (p not convertible to '
            'int), _blas_is_applicable dtype-mismatch and >2^31-entries arms (unreachable '
            'within one space / machine), NotImplemented propagation inside the broadcast loop',
        ],
    }
