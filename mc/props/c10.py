"""C10 - proximals and solver building blocks are safe when ``out`` is aliased to the input.

Exploration: configuration space (factory x options x sigma kind x space) and, inside each
configuration, *every* point of the value alphabet V^n.  Oracle: differential, no expected
values: ``ref = P(x)``; ``y = x.copy(); r = P(y, out=y)`` must give ``r is y`` and ``y == ref``;
a NaN-prefilled non-aliased ``out`` must give ``ref`` as well and ``x`` must stay untouched.
"""
import ast
import glob
import itertools
import os

import numpy as np
import odl
from odl.solvers.nonsmooth import proximal_operators as PO

from mc import spaces as S
from mc.registry import functionals as FR

PROPERTY = 'C10'
BUDGET = {'quick': 1500, 'thorough': 3600}

TENS = ['rn3', 'rn3w2', 'ud3']
TENS_T = ['rn3', 'rn3w2', 'rn3wa', 'ud3', 'ud3b', 'rn2x2', 'rn3f32']
POW = ['pw_rn2_2']
POW_T = ['pw_rn2_2', 'pw_ud2_2', 'pw_rn2w2_2']
V = [-2.0, -0.5, 0.0, 1.0, 3.0]
V3 = [-2.0, 0.0, 3.0]

_G = [0.5, -1.0, 2.0, 1.0, -0.5, 0.25, 1.5, -2.0]
_GP = [0.5, 2.0, 1.0, 3.0, 0.25, 1.5, 1.0, 0.5]
_SIG = [0.5, 2.0, 1.0, 0.25, 4.0, 1.0, 0.5, 2.0]


def _el(sp, lst):
    n = S.flat_size(sp)
    a = np.resize(np.asarray(lst), n)      # cyclic repetition
    return S.from_flat(sp, a)


# elements handed to the factories as data term / translation during the current build: the
# "three-way alias" prox(g, out=g) (a solver started at its own data element) is tried on them
_DATA_ELEMS = []


def _g(sp, o, pos=False):
    if not o.get('g'):
        return None
    g = _el(sp, _GP if pos else _G)
    _DATA_ELEMS.append(g)
    return g


def _box(sp, o):
    lo, hi = o.get('lower'), o.get('upper')
    if lo == 'elem':
        lo = _el(sp, [-1.0, -0.5, 0.0, -2.0])
    if hi == 'elem':
        hi = _el(sp, [0.5, 1.0, 2.0, 0.0])
    return PO.proximal_box_constraint(sp, lo, hi)


_GL = [{'g': 0, 'lam': 1.0}, {'g': 1, 'lam': 1.0}, {'g': 0, 'lam': 2.0}, {'g': 1, 'lam': 0.5}]

# name -> (tensor-like?, power?, options, builder, sigma kinds)
RAW = {
    'proximal_const_func': ('T', [{}], lambda sp, o: PO.proximal_const_func(sp), ['scalar']),
    'proximal_box_constraint': (
        'T', [{'lower': -1.0, 'upper': 1.0}, {'lower': 0.0}, {'upper': 0.5},
              {'lower': 'elem', 'upper': 'elem'}, {'lower': 'elem', 'upper': 2.0}, {}],
        _box, ['scalar']),
    'proximal_nonnegativity': ('T', [{}], lambda sp, o: PO.proximal_nonnegativity(sp),
                               ['scalar']),
    'proximal_l1': ('TP', _GL, lambda sp, o: PO.proximal_l1(sp, o['lam'], _g(sp, o)),
                    ['scalar', 'elem']),
    'proximal_convex_conj_l1': (
        'TP', _GL, lambda sp, o: PO.proximal_convex_conj_l1(sp, o['lam'], _g(sp, o)),
        ['scalar', 'elem']),
    'proximal_l2': ('TP', _GL, lambda sp, o: PO.proximal_l2(sp, o['lam'], _g(sp, o)),
                    ['scalar']),
    'proximal_convex_conj_l2': (
        'TP', _GL, lambda sp, o: PO.proximal_convex_conj_l2(sp, o['lam'], _g(sp, o)),
        ['scalar']),
    'proximal_l2_squared': (
        'TP', _GL, lambda sp, o: PO.proximal_l2_squared(sp, o['lam'], _g(sp, o)),
        ['scalar', 'elem']),
    'proximal_convex_conj_l2_squared': (
        'TP', _GL, lambda sp, o: PO.proximal_convex_conj_l2_squared(sp, o['lam'], _g(sp, o)),
        ['scalar', 'elem']),
    'proximal_l1_l2': ('P', _GL, lambda sp, o: PO.proximal_l1_l2(sp, o['lam'], _g(sp, o)),
                       ['scalar']),
    'proximal_convex_conj_l1_l2': (
        'P', _GL, lambda sp, o: PO.proximal_convex_conj_l1_l2(sp, o['lam'], _g(sp, o)),
        ['scalar']),
    'proximal_linfty': ('T', [{}], lambda sp, o: PO.proximal_linfty(sp), ['scalar']),
    'proximal_convex_conj_linfty': (
        'T', [{}], lambda sp, o: PO.proximal_convex_conj_linfty(sp), ['scalar']),
    'proximal_convex_conj_kl': (
        'T', _GL, lambda sp, o: PO.proximal_convex_conj_kl(sp, o['lam'], _g(sp, o, True)),
        ['scalar']),
    'proximal_convex_conj_kl_cross_entropy': (
        'T', _GL,
        lambda sp, o: PO.proximal_convex_conj_kl_cross_entropy(sp, o['lam'], _g(sp, o, True)),
        ['scalar']),
    'proximal_huber': ('TP', [{'gamma': 0.5}, {'gamma': 1.0}],
                       lambda sp, o: PO.proximal_huber(sp, o['gamma']), ['scalar']),
}

BASES = ['proximal_l1', 'proximal_l2_squared', 'proximal_convex_conj_kl', 'proximal_l2',
         'proximal_box_constraint']


def _base(sp, name, g=1):
    o = dict(RAW[name][1][0])
    if 'g' in o:
        o['g'] = g
    return RAW[name][2](sp, o)


def _unitary(sp):
    n = sp.size
    P = np.zeros((n, n))
    for i in range(n):
        P[i, (i + 1) % n] = -1.0 if i == 0 else 1.0      # signed cyclic permutation
    return odl.MatrixOperator(P, domain=sp, range=sp)


WRAP = {
    'proximal_translation': (
        [{}], lambda sp, b, o: PO.proximal_translation(_base(sp, b), _data(_el(sp, _G)))),
    'proximal_arg_scaling': (
        [{'s': 2.0}, {'s': -0.5}, {'s': 0}, {'s': 'array'}],
        lambda sp, b, o: PO.proximal_arg_scaling(
            _base(sp, b), S.to_flat(_el(sp, _SIG)).reshape(sp.shape)
            if o['s'] == 'array' else o['s'])),
    'proximal_quadratic_perturbation': (
        [{'a': 1.5, 'u': 0}, {'a': 0.0, 'u': 1}, {'a': 1.5, 'u': 1}, {'a': 0.0, 'u': 0}],
        lambda sp, b, o: PO.proximal_quadratic_perturbation(
            _base(sp, b), o['a'], _el(sp, _G) if o['u'] else None)),
    'proximal_convex_conj': ([{}], lambda sp, b, o: PO.proximal_convex_conj(_base(sp, b))),
    'proximal_composition': (
        [{'mu': 1.0}], lambda sp, b, o: PO.proximal_composition(_base(sp, b), _unitary(sp),
                                                                 o['mu'])),
}


def _data(e):
    _DATA_ELEMS.append(e)
    return e


def _sigma(sp, kind, val):
    if kind == 'scalar':
        return val
    return val * _el(sp, _SIG)


# ------------------------------------------------------------------------------------------
# building blocks used in place by the shipped solvers

class _OopOnly(odl.Operator):
    """A user-style operator that only implements out-of-place evaluation (like the NuclearNorm
    proximal): x -> x * x + 1."""

    def __init__(self, sp):
        super(_OopOnly, self).__init__(sp, sp, linear=False)

    def _call(self, x):
        return x * x + 1


def _blocks(sp):
    v = _el(sp, _G)
    w = _el(sp, _SIG)
    I = odl.IdentityOperator(sp)
    out = {
        'ScalingOperator': odl.ScalingOperator(sp, 2.0),
        'ScalingOperator0': odl.ScalingOperator(sp, 0.0),
        'IdentityOperator': I,
        'ZeroOperator': odl.ZeroOperator(sp),
        'ConstantOperator': odl.ConstantOperator(v, sp),
        'MultiplyOperator[elem]': odl.MultiplyOperator(v, domain=sp, range=sp),
        'MultiplyOperator[scalar]': odl.MultiplyOperator(0.5, domain=sp, range=sp),
        'ResidualLike[I-c]': I - odl.ConstantOperator(v),
        'PowerOperator2': odl.PowerOperator(sp, 2) if not S.is_pspace(sp) else None,
        'prox_box': PO.proximal_box_constraint(sp, -1.0, 1.0)(1.0),
        'prox_l2ball': PO.proximal_convex_conj_l2(sp)(1.0),
        'prox_l2sq_g_elem': PO.proximal_l2_squared(sp, g=v)(w),
        'OopOnly': _OopOnly(sp),
    }
    return dict((k, o) for k, o in out.items() if o is not None)


def _wrappers(sp, A, B):
    v = _el(sp, _G)
    return {
        'OperatorSum': A + B,
        'OperatorSub': A - B,
        'OperatorComp': A * B,
        'OperatorLeftScalarMult': 3.0 * A,
        'OperatorRightScalarMult': odl.OperatorRightScalarMult(A, 0.5),
        'OperatorLeftVectorMult': v * A,
        'OperatorRightVectorMult': odl.OperatorRightVectorMult(A, v),
        'OperatorVectorSum': A + v,
        'OperatorPointwiseProduct': odl.OperatorPointwiseProduct(A, B),
        'Neg': -A,
        'FunctionalLeftVectorMult[inner]': odl.FunctionalLeftVectorMult(
            odl.InnerProductOperator(_el(sp, _SIG)) * A, v),
        'FunctionalLeftVectorMult[L2sq]': odl.FunctionalLeftVectorMult(
            odl.solvers.L2NormSquared(sp) * A, v),
        'Power3': A ** 3,
    }


BLOCK_NAMES = ['ScalingOperator', 'ScalingOperator0', 'IdentityOperator', 'ZeroOperator',
               'ConstantOperator', 'MultiplyOperator[elem]', 'MultiplyOperator[scalar]',
               'ResidualLike[I-c]', 'PowerOperator2', 'prox_box', 'prox_l2ball',
               'prox_l2sq_g_elem', 'OopOnly']
WRAP_NAMES = ['OperatorSum', 'OperatorSub', 'OperatorComp', 'OperatorLeftScalarMult',
              'OperatorRightScalarMult', 'OperatorLeftVectorMult', 'OperatorRightVectorMult',
              'OperatorVectorSum', 'OperatorPointwiseProduct', 'Neg',
              'FunctionalLeftVectorMult[inner]', 'FunctionalLeftVectorMult[L2sq]', 'Power3']
WRAP_LEAVES = ['ScalingOperator', 'MultiplyOperator[elem]', 'ResidualLike[I-c]', 'prox_box',
               'prox_l2sq_g_elem', 'PowerOperator2', 'OopOnly']


# ------------------------------------------------------------------------------------------
# AST scan of the solver sources for aliased call sites  op(x, out=x) / a.f(b, out=b)

def scan_aliased_sites(repo):
    sites = []
    for path in sorted(glob.glob(os.path.join(repo, 'odl', 'solvers', '**', '*.py'),
                                 recursive=True)):
        try:
            tree = ast.parse(open(path).read())
        except SyntaxError:
            continue
        for node in ast.walk(tree):
            if not isinstance(node, ast.Call):
                continue
            outs = [k.value for k in node.keywords if k.arg == 'out']
            if not outs:
                continue
            o = ast.dump(outs[0])
            names = [ast.dump(a) for a in node.args]
            recv = ast.dump(node.func.value) if isinstance(node.func, ast.Attribute) else None
            if o in names or (recv == o and node.args):
                sites.append('%s:%d %s' % (os.path.relpath(path, repo), node.lineno,
                                           ast.unparse(node)))
    return sites


# ------------------------------------------------------------------------------------------

def configs(tier):
    thorough = tier == 'thorough'
    tens = TENS_T if thorough else TENS
    pw = POW_T if thorough else POW
    sig_vals = [0.5, 2.0] if not thorough else [0.5, 2.0, 1.0]
    cfgs = []
    for name in RAW:
        kinds, opts, _, sigk = RAW[name]
        sps = (tens if 'T' in kinds else []) + (pw if 'P' in kinds else [])
        if thorough and name in ('proximal_l1', 'proximal_l2', 'proximal_l2_squared',
                                 'proximal_convex_conj_l1', 'proximal_convex_conj_l2_squared'):
            sps = sps + ['cn2']
        for sp in sps:
            for o in opts:
                for sk in sigk:
                    for sv in sig_vals:
                        cfgs.append({'kind': 'raw', 'name': name, 'space': sp, 'opt': o,
                                     'sigma_kind': sk, 'sigma': sv})
    # the same factories on spaces above the size threshold where lincomb / the arithmetic
    # switch to BLAS (the aliased patterns x.lincomb(a, x, b, y) of the proximals live there too)
    for name in RAW:
        kinds, opts, _, sigk = RAW[name]
        if 'T' not in kinds:
            continue
        for sp in (['rn60k'] if not thorough else ['rn60k', 'ud60k', 'cn60k']):
            if sp == 'cn60k' and name not in ('proximal_l1', 'proximal_l2', 'proximal_l2_squared',
                                              'proximal_convex_conj_l1',
                                              'proximal_convex_conj_l2_squared'):
                continue
            for o in opts:
                for sk in (sigk if thorough else sigk[:1]):
                    cfgs.append({'kind': 'raw', 'name': name, 'space': sp, 'opt': o,
                                 'sigma_kind': sk, 'sigma': 0.5, 'big': 1})
    for name in WRAP:
        opts, _ = WRAP[name]
        for b in BASES:
            elem_sigma_ok = 'elem' in RAW[b][3]
            for sp in (['rn3', 'ud3'] if not thorough else ['rn3', 'rn3w2', 'ud3', 'rn3wa']):
                for o in opts:
                    if o.get('s') == 'array' and not elem_sigma_ok:
                        continue    # documented: needs a factory accepting array steps
                    for sv in sig_vals:
                        cfgs.append({'kind': 'wrap', 'name': name, 'base': b, 'space': sp,
                                     'opt': o, 'sigma': sv})
                    if elem_sigma_ok:
                        # pointwise step given as a space element, passed through the wrapper
                        cfgs.append({'kind': 'wrap', 'name': name, 'base': b, 'space': sp,
                                     'opt': o, 'sigma': 0.5, 'sigma_kind': 'elem'})
    # combine_proximals on a product space
    for b1, b2 in itertools.product(['proximal_l1', 'proximal_l2_squared', 'proximal_l2'],
                                    repeat=2):
        for sv in sig_vals:
            cfgs.append({'kind': 'combine', 'b1': b1, 'b2': b2, 'sigma': sv})
    # Functional.proximal of every registered functional (and of its convex conjugate)
    for spec in FR.SPECS:
        for sp in spec.spaces:
            if not thorough and sp not in ('rn3', 'ud3', 'rn3w2', 'pw_rn2_2', 'nest_rn1_2x2',
                                           'pr_rn2_rn2_w', 'rn2'):
                continue
            for o in spec.opts:
                for via in ('proximal', 'convex_conj.proximal'):
                    for sv in sig_vals:
                        cfgs.append({'kind': 'functional', 'name': spec.name, 'space': sp,
                                     'opt': o, 'via': via, 'sigma': sv})
    # gradient operators (solvers evaluate them into their own work arrays, possibly the iterate)
    for spec in FR.SPECS:
        for sp in spec.spaces[:2]:
            for oi in range(len(spec.opts)):
                cfgs.append({'kind': 'gradient', 'name': spec.name, 'space': sp, 'oi': oi, 'comb': 'plain'})
    for comb in ('product', 'quotient', 'sum', 'comp', 'translated', 'rightscal', 'quadpert'):
        for nm in ('L2NormSquared', 'Huber', 'KullbackLeibler', 'L2Norm'):
            cfgs.append({'kind': 'gradient', 'name': nm, 'space': 'rn3', 'oi': 0, 'comb': comb})
    # derived functionals
    for der in ('translated', 'leftscal', 'rightscal', 'rightscal_neg', 'quadpert', 'scalarsum',
                'bregman', 'sepsum', 'defaultconj'):
        for fname in ('L1Norm', 'L2NormSquared', 'L2Norm', 'KullbackLeibler', 'IndicatorBox',
                      'Huber'):
            for sp in (['rn3', 'ud3'] if not thorough else ['rn3', 'ud3', 'rn3w2']):
                for sv in sig_vals:
                    cfgs.append({'kind': 'derived', 'der': der, 'name': fname, 'space': sp,
                                 'sigma': sv})
    # building blocks
    bspaces = ['rn3', 'ud3', 'pw_rn2_2'] if not thorough else ['rn3', 'ud3', 'pw_rn2_2',
                                                               'rn3w2', 'cn2', 'rn2x2']
    for sp in bspaces:
        for bn in BLOCK_NAMES:
            cfgs.append({'kind': 'block', 'name': bn, 'space': sp})
        for wn in WRAP_NAMES:
            for a, b in itertools.product(WRAP_LEAVES, repeat=2):
                if wn not in ('OperatorSum', 'OperatorSub', 'OperatorComp',
                              'OperatorPointwiseProduct') and b != WRAP_LEAVES[0]:
                    continue
                cfgs.append({'kind': 'wrapper', 'name': wn, 'A': a, 'B': b, 'space': sp})
        # depth 2: wrapper of wrapper
        if thorough:
            for w1, w2 in itertools.product(WRAP_NAMES, repeat=2):
                cfgs.append({'kind': 'wrapper2', 'name': w1, 'inner': w2, 'space': sp})
        for al in (0, 1):
            for ab in ([1.0, 1.0], [2.0, -0.5], [0.0, 1.0], [1.0, 0.0]):
                cfgs.append({'kind': 'lincomb', 'space': sp, 'alias': al, 'ab': ab})
    cfgs.append({'kind': 'ast-scan'})
    return cfgs


def _site(cfg):
    k = cfg['kind']
    if k == 'raw':
        o = ','.join('%s=%s' % kv for kv in sorted(cfg['opt'].items()) if kv[0] != 'lam')
        return '%s[%s,sigma=%s%s]' % (cfg['name'], o, cfg['sigma_kind'],
                                      ',large' if cfg.get('big') else '')
    if k == 'wrap':
        o = ','.join('%s=%s' % kv for kv in sorted(cfg['opt'].items()))
        if cfg.get('sigma_kind') == 'elem':
            o = (o + ',' if o else '') + 'sigma=elem'
        return '%s(%s)[%s]' % (cfg['name'], cfg['base'], o)
    if k == 'combine':
        return 'combine_proximals(%s,%s)' % (cfg['b1'], cfg['b2'])
    if k == 'functional':
        o = ','.join('%s=%s' % kv for kv in sorted(cfg['opt'].items()))
        return '%s(%s).%s' % (cfg['name'], o, cfg['via'])
    if k == 'derived':
        return '%s.%s.proximal' % (cfg['name'], cfg['der'])
    if k == 'gradient':
        return 'gradient:%s[%s]' % (cfg['name'], cfg['comb'])
    if k == 'block':
        return 'block:%s' % cfg['name']
    if k == 'wrapper':
        return 'wrapper:%s(%s,%s)' % (cfg['name'], cfg['A'], cfg['B'])
    if k == 'wrapper2':
        return 'wrapper2:%s(%s)' % (cfg['name'], cfg['inner'])
    if k == 'lincomb':
        return 'LinCombOperator[out is x[%d]]' % cfg['alias']
    return k


def _derived(f, der, sp):
    y = _el(sp, _G)
    if der == 'translated':
        return f.translated(_data(y))
    if der == 'leftscal':
        return 2.0 * f
    if der == 'rightscal':
        return f * 2.0
    if der == 'rightscal_neg':
        return f * (-0.5)
    if der == 'quadpert':
        return odl.solvers.FunctionalQuadraticPerturb(f, 1.5, y, 0.5)
    if der == 'scalarsum':
        return f + 3.0
    if der == 'bregman':
        return odl.solvers.BregmanDistance(f, _el(sp, _GP), _el(sp, _SIG))
    if der == 'defaultconj':
        from odl.solvers.functional.functional import FunctionalDefaultConvexConjugate
        return FunctionalDefaultConvexConjugate(f)
    raise KeyError(der)


def _build(cfg):
    """Return (operator, domain space, alphabet) for the configuration, or None if unbuildable."""
    k = cfg['kind']
    if k == 'raw':
        sp = S.build(cfg['space'])
        fac = RAW[cfg['name']][2](sp, cfg['opt'])
        return fac(_sigma(sp, cfg['sigma_kind'], cfg['sigma'])), sp
    if k == 'wrap':
        sp = S.build(cfg['space'])
        fac = WRAP[cfg['name']][1](sp, cfg['base'], cfg['opt'])
        return fac(_sigma(sp, cfg.get('sigma_kind', 'scalar'), cfg['sigma'])), sp
    if k == 'combine':
        sp = S.build('rn2')
        fac = PO.combine_proximals(_base(sp, cfg['b1'], g=0), _base(sp, cfg['b2'], g=1))
        op = fac(cfg['sigma'])
        return op, op.domain
    if k == 'functional':
        sp = S.build(cfg['space'])
        f = FR.BY_NAME[cfg['name']].build(sp, cfg['opt'])
        if cfg['via'] == 'convex_conj.proximal':
            f = f.convex_conj
        return f.proximal(cfg['sigma']), sp
    if k == 'derived':
        sp = S.build(cfg['space'])
        spec = FR.BY_NAME[cfg['name']]
        f = spec.build(sp, spec.opts[0])
        if cfg['der'] == 'sepsum':
            g = odl.solvers.SeparableSum(f, odl.solvers.L2NormSquared(sp))
            return g.proximal(cfg['sigma']), g.domain
        g = _derived(f, cfg['der'], sp)
        return g.proximal(cfg['sigma']), sp
    if k == 'gradient':
        sp = S.build(cfg['space'])
        spec = FR.BY_NAME[cfg['name']]
        f = spec.build(sp, spec.opts[cfg['oi']])
        g = odl.solvers.L2NormSquared(sp) + 1.0
        c = cfg['comb']
        if c == 'product':
            f = odl.solvers.FunctionalProduct(f, g)
        elif c == 'quotient':
            f = odl.solvers.FunctionalQuotient(f, g)
        elif c == 'sum':
            f = f + g
        elif c == 'comp':
            f = f * odl.ScalingOperator(sp, 2.0)
        elif c == 'translated':
            f = f.translated(_el(sp, _GP))
        elif c == 'rightscal':
            f = f * 2.0
        elif c == 'quadpert':
            f = odl.solvers.FunctionalQuadraticPerturb(f, 1.5, _el(sp, _G), 0.5)
        return f.gradient, sp
    if k == 'block':
        sp = S.build(cfg['space'])
        return _blocks(sp).get(cfg['name']), sp
    if k == 'wrapper':
        sp = S.build(cfg['space'])
        bl = _blocks(sp)
        if cfg['A'] not in bl or cfg['B'] not in bl:
            return None, sp
        return _wrappers(sp, bl[cfg['A']], bl[cfg['B']])[cfg['name']], sp
    if k == 'wrapper2':
        sp = S.build(cfg['space'])
        bl = _blocks(sp)
        A, B = bl['ResidualLike[I-c]'], bl['prox_box']
        inner = _wrappers(sp, A, B)[cfg['inner']]
        return _wrappers(sp, inner, bl['MultiplyOperator[elem]'])[cfg['name']], sp
    raise KeyError(k)


def _unbuildable_ok(cfg, exc):
    """Construction failures that the documentation allows (counted as unspecified)."""
    if isinstance(exc, NotImplementedError):
        return True
    # negative scaling / nonconvex: rejected by the library
    if cfg['kind'] == 'derived' and cfg['der'] == 'rightscal_neg':
        return False
    return False


def _close(a, b, dt):
    tol = 1e-12 if dt.itemsize >= 8 and dt.kind != 'c' or dt == np.complex128 else 2e-5
    a = np.asarray(a)
    b = np.asarray(b)
    if a.shape != b.shape:
        return False
    fin = np.isfinite(a) & np.isfinite(b)
    if not np.array_equal(np.isfinite(a), np.isfinite(b)):
        return False
    if not np.array_equal(a[~fin], b[~fin], equal_nan=True):
        return False
    scale = 1.0 + np.maximum(np.abs(a[fin]), np.abs(b[fin]))
    return bool(np.all(np.abs(a[fin] - b[fin]) <= tol * scale))


def _L(a):
    """Array for a message: complete when small, first entries otherwise."""
    a = np.asarray(a)
    if a.size <= 16:
        return a.tolist()
    return '%s ... (%d entries)' % (a.ravel()[:8].tolist(), a.size)


def run(cfg):
    if cfg['kind'] == 'ast-scan':
        from mc.engine import REPO
        sites = scan_aliased_sites(REPO)
        return {'evals': max(1, len(sites)), 'viol': [], 'sig': ['ast:%s' % s for s in sites],
                'sample': sites, 'trivial': False}
    site = _site(cfg)
    viol = []
    if cfg['kind'] == 'lincomb':
        return _run_lincomb(cfg, site)
    del _DATA_ELEMS[:]
    try:
        op, sp = _build(cfg)
    except Exception as e:
        # whether this combination can be built is judged by C03/C07, not here
        return {'evals': 0, 'skipped': 1, 'sig': 'unbuildable:' + type(e).__name__,
                'trivial': True}
    if op is None:
        return {'evals': 0, 'skipped': 1, 'sig': 'n/a', 'trivial': True}
    n = S.flat_size(sp)
    dt = S.dtype_of(sp)
    alph = V if n <= 3 else V3
    evals = 0
    skipped = 0
    sigs = set()
    first = {}
    if n > 8:
        # large spaces: two cyclic patterns over the alphabet (the size regime matters, not the
        # values)
        pts = [np.resize(np.array(V), n), np.resize(1.5 * np.array(V[::-1]), n)]
    else:
        pts = S.points(n, alph)
    for z in pts:
        if S.is_complex(sp):
            z = z * (1 + 0.5j)
        x = S.from_flat(sp, z)
        x0 = S.to_flat(x)
        # (a) out-of-place
        try:
            ref = S.to_flat(op(x))
        except Exception as e:
            # prox(x) itself fails: nothing to compare the aliased call with (C03/C07 judge it)
            skipped += 1
            continue
        if not np.array_equal(S.to_flat(x), x0):
            first.setdefault('input_modified', 'x=%s' % _L(z))
        if ref.dtype.kind in 'fc' and not np.all(np.isfinite(ref)):
            skipped += 1        # x is a singular point of this operator (outside its domain)
            continue
        # (c) aliased
        y = x.copy()
        try:
            r = op(y, out=y)
            got = S.to_flat(y)
            if r is not y:
                first.setdefault('returned_object_is_not_out', 'aliased x=%s' % _L(z))
            if not _close(got, ref, dt):
                first.setdefault('aliased_call_differs',
                                 'x=%s prox(x)=%s but prox(x,out=x) left %s'
                                 % (_L(z), _L(ref), _L(got)))
        except Exception as e:
            first.setdefault('aliased_call_raises:' + type(e).__name__,
                             'x=%s: %r' % (_L(z), e))
        evals += 2
        sigs.add(str(np.sign(ref - x0.real).astype(int).tolist()) if not S.is_complex(sp)
                 else 'c')
    # history: the caller updates its data element in place (a new measurement in the same buffer)
    # and uses the SAME operator object again - the aliased call must still agree with the plain
    # call (an operator that cached something derived from g in one of the two paths would not)
    mod = [g for g in _DATA_ELEMS if hasattr(g, 'space') and g.space == sp]
    if mod and evals:
        try:
            for g in mod:
                g *= 2
            z = np.asarray(pts[0] if n > 8 else next(iter(S.points(n, alph))))
            if S.is_complex(sp):
                z = z * (1 + 0.5j)
            x = S.from_flat(sp, z)
            ref = S.to_flat(op(x))
            if not (ref.dtype.kind in 'fc' and not np.all(np.isfinite(ref))):
                y = x.copy()
                op(y, out=y)
                evals += 2
                if not _close(S.to_flat(y), ref, dt):
                    first.setdefault('aliased_call_differs_after_data_element_was_modified',
                                     'after g *= 2 (in place) on the data element: x=%s prox(x)=%s but '
                                     'prox(x,out=x) left %s' % (_L(z), _L(ref), _L(S.to_flat(y))))
        except Exception as e:
            first.setdefault('history_raises:' + type(e).__name__, repr(e)[:200])
    # three-way alias: the evaluation point IS the data / translation element given to the factory
    # (done last: it overwrites that element)
    for g in list(_DATA_ELEMS):
        if not hasattr(g, 'space') or g.space != sp:
            continue
        try:
            ref = S.to_flat(op(g.copy()))
        except Exception:
            skipped += 1
            continue
        try:
            r = op(g, out=g)
            got = S.to_flat(g)
            evals += 2
            if r is not g:
                first.setdefault('returned_object_is_not_out', 'x is the data element')
            if not _close(got, ref, dt):
                first.setdefault('aliased_call_at_data_element_differs',
                                 'prox(g) = %s but prox(g, out=g) with g the data/translation '
                                 'element itself left %s' % (_L(ref), _L(got)))
        except Exception as e:
            first.setdefault('aliased_call_raises:' + type(e).__name__,
                             'x is the data element: %r' % (e,))
        break
    for sym, det in first.items():
        viol.append({'site': site, 'symptom': sym, 'detail': det})
    return {'evals': evals, 'viol': viol, 'skipped': skipped,
            'sig': ['%s:%d' % (site.split('[')[0], len(sigs))], 'trivial': evals == 0}


def _run_lincomb(cfg, site):
    sp = S.build(cfg['space'])
    a, b = cfg['ab']
    op = odl.LinCombOperator(sp, a, b)
    n = S.flat_size(sp)
    dt = S.dtype_of(sp)
    first = {}
    evals = 0
    alph = V3
    for z1 in S.points(n, alph):
        for z2 in S.points(n, alph[::-1]):
            x = op.domain.element([S.from_flat(sp, z1), S.from_flat(sp, z2)])
            ref = S.to_flat(op(x))
            tgt = x[cfg['alias']]
            try:
                r = op(x, out=tgt)
                if r is not tgt:
                    first.setdefault('returned_object_is_not_out', '')
                if not _close(S.to_flat(tgt), ref, dt):
                    first.setdefault('aliased_call_differs', 'x=(%s,%s) a=%s b=%s ref=%s got=%s'
                                     % (z1.tolist(), z2.tolist(), a, b, ref.tolist(),
                                        S.to_flat(tgt).tolist()))
                other = S.to_flat(x[1 - cfg['alias']])
                if not np.array_equal(other, (z2 if cfg['alias'] == 0 else z1).astype(dt)):
                    first.setdefault('input_modified', 'other component changed')
            except Exception as e:
                first.setdefault('aliased_call_raises:' + type(e).__name__, repr(e))
            evals += 2
    return {'evals': evals, 'sig': 'lincomb:%s:%s' % (a, b),
            'viol': [{'site': site, 'symptom': s, 'detail': d} for s, d in first.items()]}


def trace_functions():
    fs = [PO.proj_l1, PO.proj_simplex]
    return fs


def meta(tier):
    return {
        'rule': 'one state = (proximal factory | Functional.proximal | derived functional | '
                'wrapper | building block) x options x sigma kind x space; inside a state every '
                'x in V^n (two cyclic patterns on the spaces above the BLAS threshold) is executed '
                'two ways (prox(x) and prox(y, out=y) on a copy y of x), again after the data '
                'element was doubled in place, and at the data element itself. '
                'distinct = distinct (site, number of distinct sign patterns of prox(x)-x, '
                'executed-line signature); the AST scan contributes one per aliased call site '
                'found in odl/solvers',
        'bounds': {'V': V, 'V(n>3)': V3, 'sigma': [0.5, 2.0] + ([1.0] if tier == 'thorough'
                                                                 else []),
                   'spaces': TENS_T + POW_T if tier == 'thorough' else TENS + POW},
        'assumptions': ['aliasing means identity of the element object (x is out), as in the '
                        'shipped solvers; overlapping memory of distinct objects is not explored',
                        'tolerance 1e-12 relative (2e-5 single precision): in-place and '
                        'out-of-place paths may order the same arithmetic differently'],
    }
