"""C11 - optimised solvers = their shipped references; split runs resume exactly; callbacks see
one iterate per iteration.

Exploration: history space.  A *state* is one problem class (solver x operator(s) x functional(s)
[x option class]); inside a state the whole inner alphabet (step sizes x start points [x relaxation
x projection x ...]) is executed, and for each such problem instance *every* iteration count
k <= N and *every* splitting of a run is executed:

 (a) lock-step refinement   admm_linearized / adupdates / doubleprox_dc  vs  their ``_simple``
     reference shipped in the same file: the state after exactly k iterations of the optimised
     code equals the state after exactly k iterations of the reference, for every k <= N
     (1e-12 x magnitude: same algorithm, differently ordered arithmetic);
 (b) confluence of histories   landweber, kaczmarz (fixed order), proximal_gradient (constant
     lam), mlem / osmlem, steepest_descent (constant step), pdhg (x_relax= and y= passed back):
     n iterations followed by m more on the same objects give bit-for-bit the state of n+m
     iterations at once, for ALL (n, m), n+m <= N (thorough: also all 3-way splittings);
     for pdhg additionally: the run with the documented defaults (x_relax=None, y=None) equals the
     run with the explicit initial state;
     random=True (adupdates vs adupdates_simple, kaczmarz vs a replay loop and its own split
     runs): numpy's generator is seeded by the harness before each run from a fresh state and
     carried over between the parts of a split run;
 (c) callbacks   every solver of the anchored files: the callback is called exactly once per
     iteration (per inner step where ``callback_loop='inner'`` is documented), record k is
     bit-for-bit the iterate after exactly k iterations, the final x is the last record; this
     holds whatever the truth value of the callback object (plain function, fresh empty
     CallbackStore, callable with __bool__ False).

No expected value is stored anywhere: all oracles are differential (optimised vs shipped
reference) or confluence (different histories of the same code).  Problem objects (operators,
functionals, right-hand sides) are built once per state and shared by all runs of the state, so
state hidden in them shows up as a confluence failure as well.

Inner alphabets: the small pools (landweber, kaczmarz, mlem, steepest descent, one-block
adupdates, ...) run the full product of their option alphabets; the large (operator x f x g)
pools run every instance with at most one deviation from the default instance (``_grid``).
Exceptions: raised inside functional / operator code by the reference too -> counted as
unspecified (C03/C07 judge them); raised by a line of the solver itself in a documented
configuration -> ``raises:<Type>``; raised by the optimised solver only -> ``optimised_raises``.
"""
import itertools
import os
import traceback

import numpy as np
import odl
from odl.solvers.iterative import iterative as M_it
from odl.solvers.iterative import statistical as M_st
from odl.solvers.nonsmooth import admm as M_admm
from odl.solvers.nonsmooth import alternating_dual_updates as M_adu
from odl.solvers.nonsmooth import difference_convex as M_dc
from odl.solvers.nonsmooth import douglas_rachford as M_dr
from odl.solvers.nonsmooth import primal_dual_hybrid_gradient as M_pdhg
from odl.solvers.nonsmooth import proximal_gradient_solvers as M_pg
from odl.solvers.smooth import gradient as M_gr

from mc import spaces as S

PROPERTY = 'C11'
BUDGET = {'quick': 1500, 'thorough': 3600}
TOL = 1e-12
_THIS = os.path.abspath(__file__)


class _Harness(Exception):
    """An exception that comes from this module (a harness bug): must escape ``run``."""


class _Unspecified(Exception):
    """Raised by a harness-built reference loop when it cannot be applied (counted, not judged)."""


class _Finding(Exception):
    """Raised by a harness-built reference loop when the solver breaks a documented clause."""

    def __init__(self, symptom, detail):
        Exception.__init__(self, detail)
        self.symptom = symptom
        self.detail = detail


# The random source of the solvers with a ``random=True`` option (numpy's global generator,
# consumed through numpy.random.permutation) is owned by the harness: it is seeded from the
# configuration immediately before every run that starts from a fresh state, carried over between
# the parts of a split run, and every drawn order is recorded (one list per solver call) so that
# a state whose orders are all the identity / never change between iterations is known vacuous.
_PERMS = []
_ORIG_PERMUTATION = np.random.permutation


def _recording_permutation(*args, **kwargs):
    p = _ORIG_PERMUTATION(*args, **kwargs)
    if _PERMS:
        _PERMS[-1].append([int(i) for i in np.asarray(p).ravel()])
    return p


def _seeded(st, seed):
    """Seed the generator when the state is fresh; a resumed state carries the generator on."""
    if '_rng' not in st:
        np.random.seed(seed)
        st['_rng'] = True
    _PERMS.append([])


# ------------------------------------------------------------------------------------------
# problem pool

_B = [0.5, -1.0, 2.0, 1.0, -0.5, 0.25, 1.5, -2.0]      # translations / right-hand sides
_P = [0.5, 2.0, 1.0, 3.0, 0.25, 1.5, 1.0, 0.5]         # positive data (KL prior, MLEM data)
_P0 = [2.0, 0.0, 1.0, 0.5, 3.0, 0.0, 1.5, 1.0]         # non-negative data with zeros
_X0 = [1.0, -2.0, 0.5, 3.0, -0.5, 2.0, -1.0, 0.25]     # start pattern
_XP = [1.0, 2.0, 0.5, 3.0, 0.25, 1.5, 1.0, 0.5]        # positive start pattern
_SS = [0.5, 1.0, 0.25, 0.5, 1.0, 0.25, 0.5, 1.0]       # per-point inner step sizes
_M23 = np.array([[1.0, 0.5, 0.0], [0.0, -1.0, 2.0]])
_M32 = np.array([[1.0, 0.0], [0.5, -1.0], [0.0, 2.0]])
_P23 = np.array([[1.0, 0.5, 0.0], [0.0, 1.0, 2.0]])
_P33 = np.array([[1.0, 0.0, 0.5], [0.25, 1.0, 0.0], [0.0, 2.0, 1.0]])
_SYM3 = np.array([[2.0, 0.5, 0.0], [0.5, 1.0, -0.5], [0.0, -0.5, 1.5]])
_D3 = [2.0, -0.5, 1.0]


def _space(name):
    if name == 'rn3':
        return odl.rn(3)
    if name == 'rn2':
        return odl.rn(2)
    if name == 'ud4':
        return odl.uniform_discr(0, 2, 4)                     # cell 1/2
    if name == 'ud22':
        return odl.uniform_discr([0, 0], [1, 2], (2, 2))      # cells 1/2 x 1
    if name == 'ud5':
        return odl.uniform_discr(0, 2.5, 5)                   # cell 1/2
    if name == 'rn2^2':
        return odl.rn(2) ** 2
    raise KeyError(name)


def _el(sp, lst):
    n = S.flat_size(sp)
    return S.from_flat(sp, np.asarray((list(lst) * 4)[:n], float))


# operator name -> domain name
# SQUARE operators (domain == range) whose evaluation / adjoint is NOT safe when ``out`` is the
# input: a solver that takes its domain and range temporaries from one pool runs them aliased
SQOPS = ['PD4', 'PSO', 'PD5']
DKIND = {'PSO': 'W'}        # kind of the domain (default: tensor space)
DOM = {'PD4': 'ud4', 'PD5': 'ud5', 'PSO': 'rn2^2',
       'I3': 'rn3', 'M23': 'rn3', 'D3': 'rn3', 'B3': 'rn3', 'B11': 'rn3', 'M32': 'rn2',
       'I4': 'ud4', 'G4': 'ud4', 'I22': 'ud22', 'G22': 'ud22',
       'P23': 'rn3', 'P33': 'rn3', 'Sq3': 'rn3', 'Sym3': 'rn3'}
# kind of the range: T tensor, W power space, X product of two different spaces,
# V power space with one-dimensional components
RKIND = {'PD4': 'T', 'PD5': 'T', 'PSO': 'W',
         'I3': 'T', 'M23': 'T', 'D3': 'T', 'B3': 'X', 'B11': 'V', 'M32': 'T', 'I4': 'T',
         'G4': 'W', 'I22': 'T', 'G22': 'W', 'P23': 'T', 'P33': 'T', 'Sq3': 'T', 'Sym3': 'T'}
QOPS = ['I3', 'M23', 'G22', 'B3']
DOPS = ['I3', 'M23', 'G22', 'B3', 'M32', 'G4', 'I22', 'B11']
GROUPS_Q = {'rn3': ['I3', 'M23', 'B3'], 'ud22': ['G22'], 'ud4': ['PD4'], 'rn2^2': ['PSO']}
GROUPS_D = {'rn3': ['I3', 'M23', 'B3', 'D3', 'B11'], 'rn2': ['M32'], 'ud4': ['I4', 'G4', 'PD4'],
            'ud22': ['I22', 'G22'], 'rn2^2': ['PSO'], 'ud5': ['PD5']}


def _op(name):
    dom = _space(DOM[name])
    if name in ('I3', 'I4', 'I22'):
        return odl.IdentityOperator(dom)
    if name == 'M23':
        return odl.MatrixOperator(_M23, domain=dom)
    if name == 'M32':
        return odl.MatrixOperator(_M32, domain=dom)
    if name == 'P23':
        return odl.MatrixOperator(_P23, domain=dom)
    if name == 'P33':
        return odl.MatrixOperator(_P33, domain=dom)
    if name == 'Sym3':
        return odl.MatrixOperator(_SYM3, domain=dom, range=dom)
    if name == 'D3':
        return odl.MultiplyOperator(dom.element(_D3), domain=dom, range=dom)
    if name in ('G4', 'G22'):
        return odl.Gradient(dom)
    if name == 'B3':
        return odl.BroadcastOperator(odl.IdentityOperator(dom),
                                     odl.MatrixOperator(_M23, domain=dom))
    if name == 'B11':
        return odl.BroadcastOperator(
            odl.MatrixOperator(np.array([[1.0, -1.0, 0.0]]), domain=dom),
            odl.MatrixOperator(np.array([[0.0, 2.0, -0.5]]), domain=dom))
    if name == 'Sq3':
        return odl.PowerOperator(dom, 2)
    if name == 'PD4':
        return odl.PartialDerivative(dom, 0, method='forward', pad_mode='constant')
    if name == 'PD5':
        return odl.PartialDerivative(dom, 0, method='backward', pad_mode='symmetric')
    if name == 'PSO':
        r2 = dom[0]
        return odl.ProductSpaceOperator(
            [[odl.IdentityOperator(r2), odl.MatrixOperator(np.array([[1.0, 0.5], [0.0, -1.0]]),
                                                           domain=r2, range=r2)],
             [odl.ScalingOperator(r2, 2.0), None]], domain=dom, range=dom)
    raise KeyError(name)


# functional pools per kind of space, simplest / most distinct first; the quick tier uses the
# first QN[kind] entries
FPOOL = {
    'T': ['L1', 'L2sqt', 'Box', 'KL', 'L2', 'Huber', 'L1t', 'Zero', 'Nonneg', 'L2sq', 'L2t'],
    'W': ['L1', 'GL1', 'L2sqt', 'Box', 'KL', 'L2', 'Zero', 'Nonneg', 'L1t', 'L2sq'],
    'X': ['Sep(L1,L2sq)', 'L1', 'Sep(L2,Box)', 'L2sqt', 'Zero', 'Sep(KL,L1t)', 'L2'],
    'V': ['Sep(L1,L1)', 'GL1', 'L2sqt', 'L1', 'Sep(L2sq,Box)'],
}
QN = {'T': 8, 'W': 7, 'X': 5, 'V': 3}
SHORT = {'T': ['L1', 'L2sqt', 'Box', 'KL'], 'W': ['L1', 'GL1', 'L2sqt', 'Nonneg'],
         'X': ['Sep(L1,L2sq)', 'L1', 'L2sqt'], 'V': ['Sep(L1,L1)', 'GL1', 'L2sqt']}
SMOOTH = ['L2sqt', 'Huber', 'L2sq', 'Zero']


def _pool(kind, deep):
    return FPOOL[kind] if deep else FPOOL[kind][:QN[kind]]


def _fg_pairs(L, deep):
    """(f on L.domain, g on L.range) pairs of the large pools; the square non-alias-safe
    operators get the short pools in the quick tier."""
    dk, rk = DKIND.get(L, 'T'), RKIND[L]
    if L in SQOPS and not deep:
        return [(f, g) for f in SHORT[dk][:3] for g in SHORT[rk][:3]]
    fs = [f for f in _pool(dk, deep) if not (dk != 'T' and f == 'Huber')]
    return [(f, g) for f in fs for g in _pool(rk, deep)]


def _func(name, sp):
    s = odl.solvers
    if name == 'L1':
        return s.L1Norm(sp)
    if name == 'L2':
        return s.L2Norm(sp)
    if name == 'L2sq':
        return s.L2NormSquared(sp)
    if name == 'L1t':
        return s.L1Norm(sp).translated(_el(sp, _B))
    if name == 'L2t':
        return s.L2Norm(sp).translated(_el(sp, _B))
    if name == 'L2sqt':
        return s.L2NormSquared(sp).translated(_el(sp, _B))
    if name == 'GL1':
        return s.GroupL1Norm(sp)
    if name == 'Box':
        return s.IndicatorBox(sp, -0.5, 1.5)
    if name == 'Nonneg':
        return s.IndicatorNonnegativity(sp)
    if name == 'KL':
        return s.KullbackLeibler(sp, prior=_el(sp, _P))
    if name == 'Huber':
        return s.Huber(sp, 0.5)
    if name == 'Zero':
        return s.ZeroFunctional(sp)
    if name.startswith('Sep('):
        a, b = name[4:-1].split(',')
        return s.SeparableSum(_func(a, sp[0]), _func(b, sp[1]))
    raise KeyError(name)


def _start(sp, kind):
    if kind == 'zero':
        return sp.zero()
    if kind == 'one':
        return sp.one()
    if kind == 'pat':
        return _el(sp, _X0)
    if kind == 'ppat':
        return _el(sp, _XP)
    raise KeyError(kind)


def _clip(x):
    """Projection onto the non-negative orthant, in place (the documented use of projection=)."""
    if S.is_pspace(x.space):
        for xi in x:
            _clip(xi)
    else:
        x.ufuncs.maximum(0, out=x)


# ------------------------------------------------------------------------------------------
# generic machinery

class Case(object):
    """One problem instance: how to make a fresh state and how to advance it by n iterations."""

    def __init__(self, label, fresh, run, ref=None, keys=('x',), mult=1, resumable=False,
                 early=False, default_run=None, files=(), count_alt=None, raise_site=None,
                 cbkey=None, ref_traj=None, ref_name='reference'):
        self.label = label
        self.fresh = fresh          # () -> dict of elements (the state the caller owns)
        self.run = run              # (state, n, callback) -> None      implementation
        self.ref = ref              # (state, n) -> None                shipped reference
        self.keys = keys            # state entries compared; keys[0] is what callbacks receive
        self.mult = mult            # documented callbacks per iteration
        self.resumable = resumable
        self.early = early          # documented early termination (tol= / zero residual)
        self.default_run = default_run
        self.files = files          # source files of the solver (to attribute exceptions)
        self.count_alt = count_alt  # second admissible callbacks-per-iteration (docs ambiguous)
        self.raise_site = raise_site    # coarser site for exceptions raised by the solver itself
        self.cbkey = cbkey          # callback position class (the full callback alphabet is run
        #                             for the first instance of every class of a state)
        self.ref_traj = ref_traj    # (N) -> [state after k iterations, k = 0..N] of a reference
        #                             loop built by the harness from the documented iteration
        self.ref_name = ref_name


def _snap(st, keys):
    return tuple(S.to_flat(st[k]) for k in keys)


def _finite(sn):
    return all(bool(np.all(np.isfinite(a))) for a in sn)


def _same(a, b):
    return all(x.shape == y.shape and np.array_equal(x, y) for x, y in zip(a, b))


def _close(a, b, scale):
    for x, y in zip(a, b):
        if x.shape != y.shape:
            return False
        if not np.all(np.isfinite(x)):
            return False
        if not np.all(np.abs(x - y) <= TOL * scale):
            return False
    return True


def _mag(sn):
    return max([float(np.max(np.abs(a))) if a.size else 0.0 for a in sn] + [0.0])


def _fmt(sn):
    return '|'.join(np.array2string(a, precision=17, separator=',').replace('\n', '')
                    for a in sn)


def _attempt(fn, files):
    """Run fn(); -> None, or ('own'|'inner', exception).  Exceptions raised from this module's
    own frames are harness errors and escape."""
    try:
        fn()
        return None
    except Exception as e:         # noqa
        if isinstance(e, _Finding):
            return ('finding', e)
        if isinstance(e, _Unspecified):
            return ('unspecified', e)
        tb = traceback.extract_tb(e.__traceback__)
        last = os.path.abspath(tb[-1].filename)
        if last == _THIS:
            raise _Harness('%s\n%s' % (repr(e), ''.join(traceback.format_tb(e.__traceback__))))
        own = any(os.path.basename(last) == os.path.basename(f) for f in files)
        return ('own' if own else 'inner', e)


class _FalsyCallback(object):
    """A valid callback (callable) whose truth value is False: ``if callback:`` skips it."""

    def __init__(self):
        self.recs = []

    def __call__(self, x):
        self.recs.append(S.to_flat(x))

    def __bool__(self):
        return False

    __nonzero__ = __bool__

    def __len__(self):
        return 0


class _Acc(object):
    def __init__(self):
        self.first = {}
        self.evals = 0
        self.skipped = 0
        self.why = {}
        self.sigs = set()

    def viol(self, sym, detail, site=None):
        self.first.setdefault((site, sym), detail)

    def skip(self, why):
        self.skipped += 1
        self.why[why] = self.why.get(why, 0) + 1


def _check_case(c, N, three_way, acc, name, full_cb=True):
    lab = '%s %s' % (name, c.label)
    # ---- reference first: is the problem instance executable at all?
    ref = c.ref
    if ref is not None:
        st = c.fresh()
        r = _attempt(lambda: ref(st, 1), c.files)
        if r is not None and r[0] == 'unspecified':
            acc.skip('reference loop not applicable: %s' % r[1])
            ref = None
        elif r is not None:
            kind, e = r
            if kind == 'finding':
                acc.viol(e.symptom, '%s: %s' % (lab, e.detail))
            elif kind == 'own':
                acc.viol('raises:' + type(e).__name__,
                         '%s: the shipped reference (and the optimised solver) cannot run a '
                         'documented configuration: %r' % (lab, e), site=c.raise_site)
            else:
                acc.skip('reference raises in functional/operator code: ' + type(e).__name__)
            return
    # ---- F[k] = state after exactly k iterations (one call), k = 0..N
    F = []
    for k in range(N + 1):
        st = c.fresh()
        r = _attempt(lambda: c.run(st, k, None), c.files)
        if r is not None:
            kind, e = r
            if ref is not None:
                acc.viol('optimised_raises:' + type(e).__name__,
                         '%s niter=%d: reference runs, optimised raises %r' % (lab, k, e))
            elif kind == 'own':
                acc.viol('raises:' + type(e).__name__, '%s niter=%d: %r' % (lab, k, e),
                         site=c.raise_site)
            else:
                acc.skip('raises in functional/operator code: ' + type(e).__name__)
            return
        F.append(_snap(st, c.keys))
    start = _snap(c.fresh(), c.keys)
    acc.evals += 1
    if not _same(F[0], start):
        acc.viol('zero_iterations_change_state', '%s: niter=0 changed %s -> %s'
                 % (lab, _fmt(start), _fmt(F[0])))
    # rule 4: nothing is judged from the first non-finite iterate on
    K = N
    for k in range(N + 1):
        if not _finite(F[k]):
            K = k - 1
            break
    acc.sigs.add(str(np.sign(F[K][0] - start[0]).astype(int).tolist()))
    # ---- (a) lock-step against the shipped reference / the documented iteration
    traj = None
    if ref is None and c.ref_traj is not None:
        box = []
        r = _attempt(lambda: box.append(c.ref_traj(N)), c.files)
        if r is not None:
            acc.skip('reference loop raises in functional/operator code: '
                     + type(r[1]).__name__)
        else:
            traj = box[0]
    if ref is not None or traj is not None:
        scale = 1.0 + _mag(start)
        for k in range(0, N + 1):
            if traj is not None:
                R = traj[k]
            else:
                st = c.fresh()
                r = _attempt(lambda: ref(st, k), c.files)
                if r is not None:
                    if r[0] == 'finding':
                        acc.viol(r[1].symptom, '%s niter=%d: %s' % (lab, k, r[1].detail))
                    else:
                        acc.skip('reference raises at niter=%d: %s'
                                 % (k, type(r[1]).__name__))
                    break
                R = _snap(st, c.keys)
            if not _finite(R):
                acc.skip('non-finite reference iterate')
                break
            scale = max(scale, 1.0 + _mag(R))
            if k <= K:
                scale = max(scale, 1.0 + _mag(F[k]))
            acc.evals += 1
            if k > K or not _close(F[k], R, scale):
                acc.viol('iterate_differs_from_reference',
                         '%s: after %d iteration(s) %s %s, optimised %s (tolerance %.1e)'
                         % (lab, k, c.ref_name, _fmt(R), _fmt(F[k]), TOL * scale))
                break
    elif K < N:
        acc.skip('non-finite iterate')
    # ---- (c) callbacks
    st = c.fresh()
    recs = []

    def cb(x):
        recs.append((S.to_flat(x),) + tuple(S.to_flat(st[k]) for k in c.keys[1:]))

    r = _attempt(lambda: c.run(st, N, cb), c.files)
    if r is not None:
        acc.viol('raises_with_callback:' + type(r[1]).__name__, '%s niter=%d: %r'
                 % (lab, N, r[1]))
        return
    fin = _snap(st, c.keys)
    acc.evals += 1
    if not _same(fin, F[N]) and K == N:
        acc.viol('callback_changes_result', '%s niter=%d: without callback %s, with callback %s'
                 % (lab, N, _fmt(F[N]), _fmt(fin)))
    mult = c.mult
    cnt = len(recs)
    if c.count_alt is not None and cnt == N * c.count_alt and c.count_alt != mult:
        mult = c.count_alt
        acc.skip('callbacks per iteration not fixed by the documentation')
    if cnt % mult != 0 or cnt > N * mult or (cnt < N * mult and not c.early):
        acc.viol('callback_count', '%s niter=%d: %d callback calls, documented %d'
                 % (lab, N, cnt, N * c.mult))
    else:
        done = cnt // mult
        for k in range(1, done + 1):
            if k > K:
                break
            acc.evals += 1
            if not _same(recs[k * mult - 1], F[k]):
                acc.viol('callback_record_is_not_iterate',
                         '%s niter=%d: record of iteration %d is %s, the iterate after %d '
                         'iteration(s) is %s' % (lab, N, k, _fmt(recs[k * mult - 1]), k,
                                                 _fmt(F[k])))
                break
        if done < N:
            acc.sigs.add('early')
            for k in range(done + 1, min(K, N) + 1):
                acc.evals += 1
                if not _same(F[k], F[done]):
                    acc.viol('iterate_changes_after_last_callback',
                             '%s: %d callbacks for niter=%d but niter=%d gives %s != %s'
                             % (lab, cnt, N, k, _fmt(F[k]), _fmt(F[done])))
                    break
    # ---- the callback is called whatever its truth value: an empty CallbackStore (it defines
    #      __len__, so it is falsy until it holds a record) and a falsy callable object must see
    #      exactly what the plain function saw
    if full_cb:
        for kind in ('a fresh empty odl.solvers.CallbackStore()',
                     'a callable with __bool__ False'):
            st2 = c.fresh()
            if kind.startswith('a fresh'):
                cbo = odl.solvers.CallbackStore()
            else:
                cbo = _FalsyCallback()
            r = _attempt(lambda: c.run(st2, N, cbo), c.files)
            if r is not None:
                acc.viol('raises_with_falsy_callback:' + type(r[1]).__name__,
                         '%s niter=%d callback=%s: %r' % (lab, N, kind, r[1]))
                continue
            acc.evals += 1
            got = cbo.recs if isinstance(cbo, _FalsyCallback) else [S.to_flat(e)
                                                                    for e in cbo.results]
            if len(got) != cnt:
                acc.viol('falsy_callback_count',
                         '%s niter=%d: a plain function is called %d times, %s (a valid callback '
                         'whose truth value is False) %d times' % (lab, N, cnt, kind, len(got)))
            elif any(not (a.shape == b[0].shape and np.array_equal(a, b[0]))
                     for a, b in zip(got, recs)):
                acc.viol('falsy_callback_record_differs',
                         '%s niter=%d: %s recorded other iterates than a plain function'
                         % (lab, N, kind))
            if not _same(_snap(st2, c.keys), fin):
                acc.viol('falsy_callback_changes_result', '%s niter=%d callback=%s'
                         % (lab, N, kind))
    # ---- documented defaults = explicit initial state
    if c.default_run is not None:
        for k in sorted(set([1, N])):
            if k > K:
                break
            st = c.fresh()
            r = _attempt(lambda: c.default_run(st, k), c.files)
            if r is not None:
                acc.viol('raises_with_defaults:' + type(r[1]).__name__, '%s niter=%d: %r'
                         % (lab, k, r[1]))
                break
            acc.evals += 1
            got = _snap(st, c.keys[:1])
            if not _same(got, F[k][:1]):
                acc.viol('default_state_differs',
                         '%s niter=%d: x with the documented defaults %s, with the explicit '
                         'initial state %s' % (lab, k, _fmt(got), _fmt(F[k][:1])))
                break
    # ---- (b) all splittings of a run into parts >= 1 (a part of 0 iterations is the
    #      zero_iterations_change_state clause above)
    if c.resumable:
        splits = [(n, m) for n in range(1, N) for m in range(1, N + 1 - n)]
        if three_way:
            splits += [(a, b, cc) for a in range(1, N - 1) for b in range(1, N - a)
                       for cc in range(1, N - a - b + 1)]
        for sp in splits:
            tot = sum(sp)
            if tot > K:
                continue
            st = c.fresh()
            bad = None
            for seg in sp:
                bad = _attempt(lambda: c.run(st, seg, None), c.files)
                if bad is not None:
                    break
            if bad is not None:
                acc.viol('resume_raises:' + type(bad[1]).__name__, '%s split %s: %r'
                         % (lab, '+'.join(map(str, sp)), bad[1]))
                break
            acc.evals += 1
            got = _snap(st, c.keys)
            if not _same(got, F[tot]):
                acc.viol('split_run_differs',
                         '%s: %s iterations give %s, %d at once give %s'
                         % (lab, '+'.join(map(str, sp)), _fmt(got), tot, _fmt(F[tot])))
                break


# ------------------------------------------------------------------------------------------
# solver adapters: cfg -> iterable of Case

STEP_PAIRS = [(0.5, 1.0), (1.0, 0.25), (0.25, 0.5)]
STEPS = [0.5, 1.0, 0.25]
STARTS = ['pat', 'zero', 'one']
SEEDS = (1, 2, 3)       # numpy.random.seed values of the random=True states (never cut)


def _grid(cfg, *dims):
    """Inner alphabet of a state: all combinations of the per-dimension alphabets (first entry
    = default) with at most cfg['dev'] non-default entries, simplest first.  The quick tier uses
    the first two entries of every dimension given as a list (a tuple is never cut), the thorough
    tier all of them."""
    if not cfg['deep']:
        dims = [d if isinstance(d, tuple) else d[:2] for d in dims]
    k = cfg['dev']
    out = []
    for combo in itertools.product(*[range(len(d)) for d in dims]):
        nd = sum(1 for i in combo if i)
        if nd <= k:
            out.append((nd, combo))
    out.sort()
    return [tuple(d[i] for d, i in zip(dims, combo)) for _, combo in out]


def _cases_admm(cfg):
    L = _op(cfg['L'])
    f = _func(cfg['f'], L.domain)
    g = _func(cfg['g'], L.range)
    files = (M_admm.__file__,)
    for (tau, sigma), x0 in _grid(cfg, STEP_PAIRS, STARTS):
        def fresh(x0=x0):
            return {'x': _start(L.domain, x0)}

        def run(st, n, cb, tau=tau, sigma=sigma):
            M_admm.admm_linearized(st['x'], f, g, L, tau, sigma, n, callback=cb)

        def ref(st, n, tau=tau, sigma=sigma):
            M_admm.admm_linearized_simple(st['x'], f, g, L, tau, sigma, n)

        yield Case('L=%s tau=%s sigma=%s x0=%s' % (cfg['L'], tau, sigma, x0), fresh, run, ref,
                   files=files)


def _inner_ss(kind, val, ran):
    if kind == 'scalar':
        return val
    if kind == 'elem':
        return _el(ran, _SS)
    if kind == 'list':
        return [0.5, 0.25]
    raise KeyError(kind)


def _cases_adupdates(cfg):
    blocks = cfg['blocks']
    if cfg.get('sameobj'):
        # ONE operator object in several positions of L (a user who builds A once and uses it in
        # two terms): the dual variables are per position, not per operator
        made = {}
        Ls = [made.setdefault(b['L'], _op(b['L'])) for b in blocks]
    else:
        Ls = [_op(b['L']) for b in blocks]
    gs = [_func(b['g'], L.range) for b, L in zip(blocks, Ls)]
    dom = Ls[0].domain
    files = (M_adu.__file__,)
    vals = [0.5, 0.25] if any(b['ss'] == 'scalar' for b in blocks) else [0.5]
    loops = ['outer', 'inner'] if len(blocks) > 1 else ['outer']
    rk = {'T': 'tensor', 'W': 'power', 'X': 'product', 'V': 'power-of-1d'}
    special = sorted(set('inner_stepsizes=%s,range=%s' % (b['ss'], rk[RKIND[b['L']]])
                         for b in blocks if b['ss'] != 'scalar'))
    rsite = 'adupdates[%s]' % (';'.join(special) or 'inner_stepsizes=scalar')
    rnd = bool(cfg.get('random'))
    seeds = SEEDS if rnd else (None,)
    for mu, val, x0, seed in _grid(cfg, STEPS, vals, STARTS, seeds):
        inner = [_inner_ss(b['ss'], val, L.range) for b, L in zip(blocks, Ls)]
        for loop in loops:
            def fresh(x0=x0):
                return {'x': _start(dom, x0)}

            def run(st, n, cb, mu=mu, inner=inner, loop=loop, seed=seed):
                if rnd:
                    _seeded(st, seed)
                M_adu.adupdates(st['x'], gs, Ls, mu, inner, n, random=rnd, callback=cb,
                                callback_loop=loop)

            def ref(st, n, mu=mu, inner=inner, seed=seed):
                # random=True: both implementations start from the same generator state
                if rnd:
                    _seeded(st, seed)
                M_adu.adupdates_simple(st['x'], gs, Ls, mu, inner, n, random=rnd)

            yield Case('L=%s stepsize=%s inner_stepsizes=%s x0=%s callback_loop=%s%s'
                       % ([b['L'] for b in blocks], mu,
                          [b['ss'] if b['ss'] != 'scalar' else val for b in blocks], x0, loop,
                          ' random=True numpy.random.seed(%d)' % seed if rnd else ''),
                       fresh, run, ref if loop == 'outer' else None, files=files,
                       mult=len(blocks) if loop == 'inner' else 1, raise_site=rsite, cbkey=loop)


def _cases_dpdc(cfg):
    K = _op(cfg['L'])
    f = _func(cfg['f'], K.domain)
    phi = _func(cfg['phi'], K.domain)
    g = _func(cfg['g'], K.range)
    files = (M_dc.__file__,)
    for (gam, mu), x0, y0 in _grid(cfg, STEP_PAIRS, STARTS, ['pat', 'zero']):
        def fresh(x0=x0, y0=y0):
            return {'x': _start(K.domain, x0), 'y': _start(K.range, y0)}

        def run(st, n, cb, gam=gam, mu=mu):
            M_dc.doubleprox_dc(st['x'], st['y'], f, phi, g, K, n, gam, mu, callback=cb)

        def ref(st, n, gam=gam, mu=mu):
            M_dc.doubleprox_dc_simple(st['x'], st['y'], f, phi, g, K, n, gam, mu)

        yield Case('K=%s gamma=%s mu=%s x0=%s y0=%s' % (cfg['L'], gam, mu, x0, y0), fresh, run,
                   ref, keys=('x', 'y'), files=files)


def _cases_pdhg(cfg):
    L = _op(cfg['L'])
    f = _func(cfg['f'], L.domain)
    g = _func(cfg['g'], L.range)
    files = (M_pdhg.__file__,)
    acc = cfg.get('acc')
    thetas = [None] if acc else [1, 0.5, 0]
    for theta, (tau, sigma), x0 in _grid(cfg, thetas, STEP_PAIRS, STARTS):
        kw = {}
        if acc == 'primal':
            kw['gamma_primal'] = 0.5
        elif acc == 'dual':
            kw['gamma_dual'] = 0.5
        else:
            kw['theta'] = theta

        def fresh(x0=x0):
            x = _start(L.domain, x0)
            return {'x': x, 'x_relax': x.copy(), 'y': L.range.zero()}

        def run(st, n, cb, tau=tau, sigma=sigma, kw=kw):
            M_pdhg.pdhg(st['x'], f, g, L, n, tau, sigma, x_relax=st['x_relax'], y=st['y'],
                        callback=cb, **kw)

        def default_run(st, n, tau=tau, sigma=sigma, kw=kw):
            M_pdhg.pdhg(st['x'], f, g, L, n, tau, sigma, **kw)

        def ref_traj(N, tau=tau, sigma=sigma, theta=theta, fresh=fresh):
            # The documented iteration (doc/source/math/solvers/nonsmooth/pdhg.rst), naive and
            # out of place:   y+ = prox_{sigma g*}(y + sigma L xbar),
            #                 x+ = prox_{tau f}(x - tau L^* y+),   xbar+ = x+ + theta (x+ - x)
            st = fresh()
            x, xbar, y = st['x'], st['x_relax'], st['y']
            prox_d = g.convex_conj.proximal(sigma)
            prox_p = f.proximal(tau)
            out = [(S.to_flat(x), S.to_flat(xbar), S.to_flat(y))]
            for _ in range(N):
                y = prox_d(y + sigma * L(xbar))
                xn = prox_p(x - tau * L.adjoint(y))
                xbar = xn + theta * (xn - x)
                x = xn
                out.append((S.to_flat(x), S.to_flat(xbar), S.to_flat(y)))
            return out

        # X (DESIGN): the accelerated variants keep their step sizes as locals: not resumable
        yield Case('L=%s %s tau=%s sigma=%s x0=%s' % (cfg['L'], kw, tau, sigma, x0), fresh, run,
                   keys=('x', 'x_relax', 'y'), resumable=not acc, default_run=default_run,
                   files=files, ref_traj=None if acc else ref_traj,
                   ref_name='documented iteration (math/solvers/nonsmooth/pdhg.rst)')


def _cases_landweber(cfg):
    op = _op(cfg['L'])
    nonlin = cfg['L'] == 'Sq3'
    rhs = _el(op.range, _P if nonlin else _B)
    files = (M_it.__file__,)
    omegas = [0.25, 0.125] if nonlin else STEPS
    starts = ['one', 'zero'] if nonlin else STARTS
    for om, proj, x0 in _grid(cfg, omegas, [None, _clip], starts):
        def fresh(x0=x0):
            return {'x': _start(op.domain, x0)}

        def run(st, n, cb, om=om, proj=proj):
            M_it.landweber(op, st['x'], rhs, n, omega=om, projection=proj, callback=cb)

        yield Case('op=%s omega=%s projection=%s x0=%s'
                   % (cfg['L'], om, 'clip' if proj else None, x0), fresh, run, resumable=True,
                   files=files)


def _cases_kaczmarz(cfg):
    ops = [_op(n) for n in cfg['ops']]
    nonlin = 'Sq3' in cfg['ops']
    rhs = [_el(o.range, _P) if n == 'Sq3' else _el(o.range, _B[i:] + _B[:i])
           for i, (n, o) in enumerate(zip(cfg['ops'], ops))]
    dom = ops[0].domain
    files = (M_it.__file__,)
    omegas = [0.125] if nonlin else [0.5, [0.25, 1.0, 0.5][:len(ops)], 1.0]
    starts = ['one', 'zero'] if nonlin else STARTS
    rnd = bool(cfg.get('random'))
    seeds = SEEDS if rnd else (None,)
    for om, proj, x0, loop, seed in _grid(cfg, omegas, [None, _clip], starts,
                                          ['outer', 'inner'], seeds):
        def fresh(x0=x0):
            return {'x': _start(dom, x0)}

        def run(st, n, cb, om=om, proj=proj, loop=loop, seed=seed):
            if rnd:
                _seeded(st, seed)
            M_it.kaczmarz(ops, st['x'], rhs, n, omega=om, projection=proj, random=rnd,
                          callback=cb, callback_loop=loop)

        ref = None
        if rnd and loop == 'outer':
            def ref(st, n, om=om, proj=proj, run=run, fresh=fresh):
                # Reference loop for "the order of the operators is randomized in each
                # iteration": the orders the solver really drew in a run of n iterations from
                # the same generator state are replayed with single fixed-order steps.
                run(fresh(), n, None)
                orders = list(_PERMS[-1])
                if n and not orders:
                    raise _Unspecified('orders not drawn through numpy.random.permutation')
                ident = list(range(len(ops)))
                if len(orders) != n or any(sorted(o) != ident for o in orders):
                    raise _Finding('order_not_drawn_once_per_iteration',
                                   'random=True, niter=%d: orders drawn %s' % (n, orders))
                for o in orders:
                    for i in o:
                        M_it.kaczmarz([ops[i]], st['x'], [rhs[i]], 1,
                                      omega=om if np.isscalar(om) else om[i], projection=proj,
                                      random=False)

        yield Case('ops=%s omega=%s projection=%s x0=%s callback_loop=%s%s'
                   % (cfg['ops'], om, 'clip' if proj else None, x0, loop,
                      ' random=True numpy.random.seed(%d)' % seed if rnd else ''), fresh, run,
                   ref, resumable=(loop == 'outer'), mult=len(ops) if loop == 'inner' else 1,
                   files=files, cbkey=loop)


def _smooth(name, L):
    """Differentiable term on L.domain: a pool functional or the least-squares term."""
    if name == 'LS':
        return odl.solvers.L2NormSquared(L.range).translated(_el(L.range, _B)) * L
    return _func(name, L.domain)


def _cases_proxgrad(cfg):
    L = _op(cfg['L'])
    f = _func(cfg['f'], L.domain)
    g = _smooth(cfg['g'], L)
    files = (M_pg.__file__,)
    accel = cfg.get('acc')
    lams = [None] if accel else [1.0, 0.5]
    for gam, lam, x0 in _grid(cfg, [0.5, 0.125, 1.0], lams, STARTS):
        def fresh(x0=x0):
            return {'x': _start(L.domain, x0)}

        if accel:
            def run(st, n, cb, gam=gam):
                M_pg.accelerated_proximal_gradient(st['x'], f, g, gam, n, callback=cb)
        else:
            def run(st, n, cb, gam=gam, lam=lam):
                M_pg.proximal_gradient(st['x'], f, g, gam, n, callback=cb, lam=lam)

        yield Case('dom(L=%s) gamma=%s lam=%s x0=%s' % (cfg['L'], gam, lam, x0), fresh, run,
                   resumable=not accel, files=files)


def _cases_mlem(cfg):
    ops = [_op(n) for n in cfg['ops']]
    dom = ops[0].domain
    files = (M_st.__file__,)
    datas = [[_el(o.range, _P[i:] + _P[:i]) for i, o in enumerate(ops)],
             [_el(o.range, _P0[i:] + _P0[:i]) for i, o in enumerate(ops)]]
    for di, se, x0 in _grid(cfg, [0, 1], ('none', 'list', 'float', 'elem'),
                            ['ppat', 'one', 'zero']):
        data = datas[di]
        # the keyword object is the caller's: ONE object per instance, reused by every call
        # (all iteration counts, all parts of a split run)
        kw = {}
        if se == 'float':
            kw['sensitivities'] = 2.0
        elif se == 'elem':
            kw['sensitivities'] = _el(dom, _XP[2:])
        elif se == 'list':
            kw['sensitivities'] = [_el(dom, _XP[2 + i:]) for i in range(len(ops))]

        def fresh(x0=x0):
            return {'x': _start(dom, x0)}

        if cfg['solver'] == 'mlem':
            def run(st, n, cb, data=data, kw=kw):
                M_st.mlem(ops[0], st['x'], data[0], n, callback=cb, **kw)
        else:
            def run(st, n, cb, data=data, kw=kw):
                M_st.osmlem(ops, st['x'], data, n, callback=cb, **kw)

        # osmlem: "callback: Function called with the current iterate after each iteration",
        # "niter: Number of iterations", the Notes define partial updates x_{n+m/M}; the code
        # calls back after every partial update.  The count for M > 1 is counted as unspecified.
        yield Case('op=%s data=%s sensitivities=%s x0=%s' % (cfg['ops'], 'P0' if di else 'P',
                                                            se, x0), fresh, run,
                   resumable=True, files=files, mult=1,
                   count_alt=len(ops) if len(ops) > 1 else None)


def _cases_steepest(cfg):
    L = _op(cfg['L'])
    f = _smooth(cfg['f'], L)
    files = (M_gr.__file__,)
    for step, proj, tol, x0 in _grid(cfg, [0.5, 0.125, 1.0], [None, _clip], [1e-16, 0.25],
                                     STARTS):
        def fresh(x0=x0):
            return {'x': _start(L.domain, x0)}

        def run(st, n, cb, step=step, proj=proj, tol=tol):
            M_gr.steepest_descent(f, st['x'], line_search=step, maxiter=n, tol=tol,
                                  projection=proj, callback=cb)

        yield Case('dom(L=%s) step=%s projection=%s tol=%s x0=%s'
                   % (cfg['L'], step, 'clip' if proj else None, tol, x0), fresh, run,
                   resumable=True, early=True, files=files)


def _cases_adam(cfg):
    L = _op(cfg['L'])
    f = _smooth(cfg['f'], L)
    files = (M_gr.__file__,)
    for lr, x0 in _grid(cfg, [0.5, 0.125], STARTS):
        def fresh(x0=x0):
            return {'x': _start(L.domain, x0)}

        def run(st, n, cb, lr=lr):
            M_gr.adam(f, st['x'], learning_rate=lr, maxiter=n, callback=cb)

        yield Case('dom(L=%s) learning_rate=%s x0=%s' % (cfg['L'], lr, x0), fresh, run,
                   early=True, files=files)


def _cases_dr(cfg):
    Ls = [_op(n) for n in cfg['ops']]
    dom = Ls[0].domain if Ls else _space(cfg['dom'])
    f = _func(cfg['f'], dom)
    gs = [_func(gn, L.range) for gn, L in zip(cfg['g'], Ls)]
    kw = {}
    if cfg.get('l'):
        # infimal convolution terms: "l : sequence of Functionals ... l[i].convex_conj.proximal"
        kw['l'] = [_func(ln, L.range) for ln, L in zip(cfg['l'], Ls)]
    files = (M_dr.__file__,)
    for tau, lam, x0 in _grid(cfg, STEPS, [1.0, 0.5, 1.5], STARTS):
        sig = [0.5, 0.25][:len(Ls)]

        def fresh(x0=x0):
            return {'x': _start(dom, x0)}

        def run(st, n, cb, tau=tau, lam=lam, sig=sig):
            M_dr.douglas_rachford_pd(st['x'], f, gs, Ls, n, tau=tau, sigma=sig, callback=cb,
                                     lam=lam, **kw)

        yield Case('L=%s tau=%s sigma=%s lam=%s x0=%s' % (cfg['ops'], tau, sig, lam, x0), fresh,
                   run, files=files)


def _cases_cg(cfg):
    op = _op(cfg['L'])
    rhs = _el(op.range, _B)
    files = (M_it.__file__,)
    for x0 in STARTS:
        def fresh(x0=x0):
            return {'x': _start(op.domain, x0)}

        if cfg['solver'] == 'conjugate_gradient':
            def run(st, n, cb):
                M_it.conjugate_gradient(op, st['x'], rhs, n, callback=cb)
        elif cfg['solver'] == 'conjugate_gradient_normal':
            def run(st, n, cb):
                M_it.conjugate_gradient_normal(op, st['x'], rhs, n, callback=cb)
        else:
            def run(st, n, cb):
                # the default zero_seq is ONE generator object shared by all calls (module-level
                # hidden state); the harness passes a fresh one so that run(cfg) is pure
                M_it.gauss_newton(op, st['x'], rhs, n, zero_seq=M_it.exp_zero_seq(2.0),
                                  callback=cb)

        yield Case('op=%s x0=%s' % (cfg['L'], x0), fresh, run, early=True, files=files)


def _cases_dca(cfg):
    sp = _space(cfg['space'])
    files = (M_dc.__file__,)
    # f strongly convex with a smooth conjugate, g smooth: every step is single valued
    f = odl.solvers.L2NormSquared(sp).translated(_el(sp, _B))
    g = _func(cfg['g'], sp)
    for gam, x0 in _grid(cfg, STEPS, STARTS):
        def fresh(x0=x0):
            return {'x': _start(sp, x0)}

        if cfg['solver'] == 'dca':
            def run(st, n, cb):
                M_dc.dca(st['x'], f, g, n, callback=cb)
        else:
            fp = _func(cfg['f'], sp)

            def run(st, n, cb, gam=gam, fp=fp):
                M_dc.prox_dca(st['x'], fp, g, n, gam, callback=cb)

        yield Case('space=%s gamma=%s x0=%s' % (cfg['space'], gam, x0), fresh, run, files=files)


ADAPTERS = {
    'admm_linearized': _cases_admm,
    'adupdates': _cases_adupdates,
    'doubleprox_dc': _cases_dpdc,
    'pdhg': _cases_pdhg,
    'landweber': _cases_landweber,
    'kaczmarz': _cases_kaczmarz,
    'proximal_gradient': _cases_proxgrad,
    'mlem': _cases_mlem,
    'osmlem': _cases_mlem,
    'steepest_descent': _cases_steepest,
    'adam': _cases_adam,
    'douglas_rachford_pd': _cases_dr,
    'conjugate_gradient': _cases_cg,
    'conjugate_gradient_normal': _cases_cg,
    'gauss_newton': _cases_cg,
    'dca': _cases_dca,
    'prox_dca': _cases_dca,
}


# ------------------------------------------------------------------------------------------
# enumeration

def _ss_kinds(g, rkind='T'):
    """Documented kinds of inner_stepsizes for a functional (adupdates docstring)."""
    kinds = ['scalar']
    # not enumerated: an element of a product space that is not a power space (both solvers
    # convert it with numpy.asarray, which such elements refuse: ValueError)
    if g in ('L1', 'L2sq', 'L1t', 'L2sqt') and rkind != 'X':
        # "g_i is an L1Norm or an L2NormSquared": a g_i.domain element (odl's own test uses a
        # translated L2NormSquared)
        kinds.append('elem')
    if g.startswith('Sep('):
        kinds.append('list')        # "g_i is a SeparableSum": a list of positive floats
    return kinds


FULL = 99       # deviation bound meaning "the full product of the inner alphabets"


def configs(tier):
    deep = tier == 'thorough'
    N = 8 if deep else 5
    ops = DOPS if deep else QOPS
    groups = GROUPS_D if deep else GROUPS_Q
    sq = SQOPS if deep else SQOPS[:2]
    cfgs = []

    def add(dev, **kw):
        kw['N'] = N
        kw['deep'] = deep
        kw['dev'] = dev
        cfgs.append(kw)

    # small pools first (cheap, full inner products) ---------------------------------------
    # (b) landweber, kaczmarz
    for L in DOPS + ['D3', 'I4', 'Sq3', 'P23', 'PD4', 'PD5']:
        add(FULL, solver='landweber', L=L)
    for dom, gops in list(GROUPS_D.items()) + [('rn3-nonlinear', ['Sq3', 'M23'])]:
        for L in gops:
            add(FULL, solver='kaczmarz', ops=[L])
        for L1, L2 in itertools.product(gops, repeat=2):
            add(FULL if not deep else 2, solver='kaczmarz', ops=[L1, L2])
    for tri in (['I3', 'M23', 'B3'], ['M23', 'M23', 'D3'], ['G4', 'I4', 'G4']):
        add(FULL if not deep else 2, solver='kaczmarz', ops=tri)
    # random order, generator owned by the harness: reference loop replaying the drawn orders,
    # resumption with the generator state carried over
    for dom, gops in list(GROUPS_D.items()) + [('rn3-nonlinear', ['Sq3', 'M23'])]:
        for L1, L2 in itertools.product(gops, repeat=2):
            if deep or L1 != L2:
                add(2, solver='kaczmarz', ops=[L1, L2], random=True)
    for tri in (['I3', 'M23', 'B3'], ['M23', 'M23', 'D3'], ['G4', 'I4', 'G4']):
        add(2, solver='kaczmarz', ops=tri, random=True)
    # (b) mlem / osmlem
    pos = ['I3', 'P23', 'P33']
    for L in pos:
        add(FULL, solver='mlem', ops=[L])
    for r in (1, 2, 3):
        for t in itertools.product(pos, repeat=r):
            add(FULL if not deep else 2, solver='osmlem', ops=list(t))
    # (b) steepest descent with a constant step; (c) adam
    for L in ['I3', 'M23', 'M32', 'G4', 'I22', 'B3']:
        for f in ['LS', 'L2sqt', 'Huber', 'L2sq']:
            add(FULL if not deep else 2, solver='steepest_descent', L=L, f=f)
            add(FULL, solver='adam', L=L, f=f)
    # (c) CG family, Gauss-Newton, DCA
    add(FULL, solver='conjugate_gradient', L='Sym3')
    add(FULL, solver='conjugate_gradient', L='I3')
    for L in ['I3', 'M23', 'M32', 'G4', 'B3', 'P33']:
        add(FULL, solver='conjugate_gradient_normal', L=L)
    for L in ['Sq3', 'P33', 'M23']:
        add(FULL, solver='gauss_newton', L=L)
    for sp in ('rn3', 'ud4', 'ud22'):
        for g in ('Huber', 'L2sqt', 'L2sq'):
            add(FULL, solver='dca', space=sp, g=g)
            for f in _pool('T', deep):
                add(1, solver='prox_dca', space=sp, g=g, f=f)
    # (a) alternating dual updates, one block
    for L in DOPS + ['D3', 'I4'] + sq:
        for g in (FPOOL[RKIND[L]] if deep or L not in SQOPS else SHORT[RKIND[L]]):
            for k in _ss_kinds(g, RKIND[L]):
                add(FULL if not deep else 2, solver='adupdates',
                    blocks=[{'L': L, 'g': g, 'ss': k}])
    # large pools (inner alphabet: at most one deviation from the default instance) ----------
    # (a) linearized ADMM: every operator x every f on its domain x every g on its range
    for L in ops + sq:
        for f, g in _fg_pairs(L, deep):
            add(1, solver='admm_linearized', L=L, f=f, g=g)
    # (a) alternating dual updates, two blocks (fixed order; equal ranges share the temporary)
    for dom, gops in groups.items():
        for L1, L2 in itertools.product(gops, repeat=2):
            n = 4 if deep else 3
            for g1, g2 in itertools.product(SHORT[RKIND[L1]][:n], SHORT[RKIND[L2]][:n]):
                k1s, k2s = _ss_kinds(g1, RKIND[L1]), _ss_kinds(g2, RKIND[L2])
                kk = [('scalar', 'scalar'), (k1s[-1], k2s[-1])]
                if deep:
                    kk = list(itertools.product(k1s, k2s))
                for k1, k2 in sorted(set(kk), key=lambda t: (t != ('scalar', 'scalar'), t)):
                    add(1, solver='adupdates', blocks=[{'L': L1, 'g': g1, 'ss': k1},
                                                       {'L': L2, 'g': g2, 'ss': k2}])
    # (a) alternating dual updates in random order (numpy's generator seeded identically before
    # the optimised and the reference run): every operator pair, two functionals per range kind
    for dom, gops in GROUPS_D.items():
        for L1, L2 in itertools.product(gops, repeat=2):
            s1, s2 = SHORT[RKIND[L1]], SHORT[RKIND[L2]]
            # two different blocks always (identical blocks commute: the order would not matter)
            pairs = [(s1[0], s2[1]), (s1[1], s2[0])]
            if deep:
                pairs = [(a, b) for a in s1[:3] for b in s2[:3] if (L1, a) != (L2, b)]
            for g1, g2 in pairs:
                k1 = [k for k in _ss_kinds(g1, RKIND[L1]) if k != 'list'][-1]
                add(1, solver='adupdates', random=True,
                    blocks=[{'L': L1, 'g': g1, 'ss': k1}, {'L': L2, 'g': g2, 'ss': 'scalar'}])
    for tri, gg in ((['I3', 'M23', 'B3'], ['L1', 'L2sqt', 'Sep(L1,L2sq)']),
                    (['M23', 'D3', 'M23'], ['KL', 'Box', 'L1']),
                    (['G4', 'I4', 'G4'], ['GL1', 'L2sqt', 'L1']),
                    (['I22', 'G22', 'I22'], ['L1', 'GL1', 'Nonneg'])):
        add(1 if not deep else 2, solver='adupdates', random=True,
            blocks=[{'L': L, 'g': g, 'ss': 'scalar'} for L, g in zip(tri, gg)])
        add(1, solver='adupdates',
            blocks=[{'L': L, 'g': g, 'ss': 'scalar'} for L, g in zip(tri, gg)])
        if len(set(tri)) < len(tri):
            add(1, solver='adupdates', sameobj=1,
                blocks=[{'L': L, 'g': g, 'ss': 'scalar'} for L, g in zip(tri, gg)])
            add(1, solver='adupdates', sameobj=1, random=True,
                blocks=[{'L': L, 'g': g, 'ss': 'scalar'} for L, g in zip(tri, gg)])
    for L, g1, g2 in (('I3', 'L1', 'L2sqt'), ('M23', 'KL', 'L1'), ('G4', 'GL1', 'L2sqt')):
        add(1, solver='adupdates', sameobj=1,
            blocks=[{'L': L, 'g': g1, 'ss': 'scalar'}, {'L': L, 'g': g2, 'ss': 'scalar'}])
    # (a) double-proximal d.c.
    for L in ops + sq:
        for phi in SMOOTH:
            if phi == 'Huber' and DKIND.get(L, 'T') != 'T':
                continue
            for f, g in _fg_pairs(L, deep):
                if phi != 'L2sqt' and not (deep and L in QOPS) and not (
                        f in ('L1', 'Box') and g in ('L1', 'L2sqt', 'GL1', 'Sep(L1,L2sq)')):
                    continue
                add(1, solver='doubleprox_dc', L=L, f=f, phi=phi, g=g)
    # (b) pdhg with the state passed back; (c) accelerated variants
    for L in ops + sq:
        for f, g in _fg_pairs(L, deep):
            add(1, solver='pdhg', L=L, f=f, g=g)
    for L in ops + sq:
        for f, g in (('L2sqt', 'L1'), ('L2sq', 'L2sqt'), ('Box', 'L2sqt')):
            if g in FPOOL[RKIND[L]]:
                add(1, solver='pdhg', L=L, f=f, g=g, acc='primal')
                add(1, solver='pdhg', L=L, f=f, g=g, acc='dual')
    # (b) proximal gradient (constant lam); (c) accelerated
    for L in (['I3', 'M23', 'I22'] if not deep else ['I3', 'M23', 'I22', 'M32', 'G4', 'B3']):
        for g in SMOOTH + ['LS']:
            for f in _pool('T', deep):
                add(1, solver='proximal_gradient', L=L, f=f, g=g)
                if f in ('L1', 'Box', 'KL', 'L2') and g in ('LS', 'Huber'):
                    add(1, solver='proximal_gradient', L=L, f=f, g=g, acc=True)
    # (c) Douglas-Rachford
    for dom, gops in groups.items():
        dk = DKIND.get(gops[0], 'T')
        for f in ([x for x in _pool(dk, False) if dk == 'T' or x != 'Huber'] if deep
                  else SHORT[dk]):
            for L in gops:
                for g in (_pool(RKIND[L], False) if deep else SHORT[RKIND[L]]):
                    add(1, solver='douglas_rachford_pd', ops=[L], f=f, g=[g])
            for L1, L2 in itertools.product(gops, repeat=2):
                add(1, solver='douglas_rachford_pd', ops=[L1, L2], f=f,
                    g=[SHORT[RKIND[L1]][0], SHORT[RKIND[L2]][2]])
    for f in SHORT['T']:
        add(1, solver='douglas_rachford_pd', ops=[], f=f, g=[], dom='rn3')
        for L in groups['rn3']:
            add(1, solver='douglas_rachford_pd', ops=[L], f=f, g=[SHORT[RKIND[L]][0]],
                l=[SHORT[RKIND[L]][2]])
    keys = set()
    out = []
    for c in cfgs:
        k = repr(sorted(c.items(), key=lambda kv: kv[0]))
        if k not in keys:
            keys.add(k)
            out.append(c)
    return out


# ------------------------------------------------------------------------------------------

def _site(cfg):
    s = cfg['solver']
    if s == 'adupdates':
        return 'adupdates[%s%s]' % (';'.join('g=%s,inner_stepsizes=%s' % (b['g'], b['ss'])
                                             for b in cfg['blocks']),
                                    (';random' if cfg.get('random') else '')
                                    + (';one operator object in several positions'
                                       if cfg.get('sameobj') else ''))
    if s == 'pdhg':
        return 'pdhg[f=%s,g=%s%s]' % (cfg['f'], cfg['g'],
                                      ',gamma_%s' % cfg['acc'] if cfg.get('acc') else '')
    if s == 'proximal_gradient':
        return '%s[f=%s,g=%s]' % ('accelerated_proximal_gradient' if cfg.get('acc') else s,
                                  cfg['f'], cfg['g'])
    if s == 'doubleprox_dc':
        return 'doubleprox_dc[f=%s,phi=%s,g=%s]' % (cfg['f'], cfg['phi'], cfg['g'])
    if s == 'admm_linearized':
        return 'admm_linearized[f=%s,g=%s]' % (cfg['f'], cfg['g'])
    if s in ('kaczmarz', 'osmlem'):
        return '%s[%d operators%s]' % (s, len(cfg['ops']), ',random' if cfg.get('random') else '')
    if s == 'douglas_rachford_pd':
        return 'douglas_rachford_pd[f=%s,g=%s%s]' % (
            cfg['f'], '+'.join(cfg['g']) or 'none',
            ',l=' + '+'.join(cfg['l']) if cfg.get('l') else '')
    if s in ('steepest_descent', 'adam'):
        return '%s[f=%s]' % (s, cfg['f'])
    if s == 'prox_dca':
        return 'prox_dca[f=%s,g=%s]' % (cfg['f'], cfg['g'])
    if s == 'dca':
        return 'dca[g=%s]' % cfg['g']
    return s


def run(cfg):
    site = _site(cfg)
    acc = _Acc()
    name = cfg['solver']
    try:
        cases = list(ADAPTERS[name](cfg))
    except _Harness:
        raise
    except Exception as e:
        tb = traceback.extract_tb(e.__traceback__)
        if os.path.abspath(tb[-1].filename) == _THIS:
            raise
        # whether this functional / operator can be built on this space is C03/C07 matter
        return {'evals': 0, 'skipped': 1, 'trivial': True, 'sig': 'unbuildable',
                'why': {'construction raises: ' + type(e).__name__: 1}}
    rnd = bool(cfg.get('random'))
    seen_cb = set()
    if rnd:
        rng_state = np.random.get_state()
        del _PERMS[:]
        np.random.permutation = _recording_permutation
    try:
        for i, c in enumerate(cases):
            # thorough: 3-way splittings for every instance of the small pools, for the default
            # instance of the large pools
            three = cfg['deep'] and (i == 0 or cfg['dev'] > 1)
            ck = (c.mult, c.cbkey)
            _check_case(c, cfg['N'], three, acc, name, full_cb=ck not in seen_cb)
            seen_cb.add(ck)
    finally:
        if rnd:
            np.random.permutation = _ORIG_PERMUTATION
            np.random.set_state(rng_state)
    vacuous = False
    if rnd:
        # the drawn orders must include a non-identity order and a solver call whose order
        # changes between iterations, otherwise random=True was not really exercised
        calls = [g for g in _PERMS if g]
        nonid = any(o != sorted(o) for g in calls for o in g)
        varying = any(len(set(map(tuple, g))) > 1 for g in calls)
        acc.sigs.add('orders:%d' % len(set(tuple(o) for g in calls for o in g)))
        del _PERMS[:]
        if not (nonid and varying):
            vacuous = True
            acc.skip('random=True: drawn orders all identical / identity (vacuous state)')
    viol = [{'site': st or site, 'symptom': s, 'detail': d}
            for (st, s), d in acc.first.items()]
    return {'evals': acc.evals, 'viol': viol, 'skipped': acc.skipped,
            'sig': ['%s:%s' % (name, s) for s in sorted(acc.sigs)] or [name + ':none'],
            'trivial': acc.evals == 0 or vacuous, 'why': acc.why}


def summarize(results):
    by = {}
    why = {}
    for cfg, res in results:
        d = by.setdefault(cfg['solver'] + (':accelerated' if cfg.get('acc') else ''),
                          {'states': 0, 'compared': 0, 'skipped': 0})
        d['states'] += 1
        d['compared'] += res['evals']
        d['skipped'] += res['skipped']
        for k, v in (res.get('why') or {}).items():
            why[k] = why.get(k, 0) + v
    return {'per_solver': by, 'skipped_reasons': why}


def trace_functions():
    return [M_admm.admm_linearized, M_adu.adupdates, M_dc.doubleprox_dc, M_dc.dca,
            M_dc.prox_dca, M_pdhg.pdhg, M_dr.douglas_rachford_pd, M_pg.proximal_gradient,
            M_pg.accelerated_proximal_gradient, M_it.landweber, M_it.kaczmarz,
            M_it.conjugate_gradient, M_it.conjugate_gradient_normal, M_it.gauss_newton,
            M_st.osmlem, M_gr.steepest_descent, M_gr.adam]


def meta(tier):
    deep = tier == 'thorough'
    N = 8 if deep else 5
    cut = (lambda l: l) if deep else (lambda l: l[:2])
    return {
        'rule': 'one state = solver x operator(s) x functional(s) [x kind of inner step sizes]; '
                'inside a state every instance of the inner alphabet (step sizes x start point '
                '[x relaxation x projection x callback loop x sensitivities x tol ...]; large '
                'pools: all instances with at most one deviation from the default instance, small '
                'pools: the full product / <= 2 deviations) is executed for EVERY iteration count '
                'k <= N in one call each, once more with a recording callback, (a) the shipped '
                '_simple reference for every k <= N, (b) EVERY splitting n+m <= N (thorough: and '
                'every a+b+c <= N) into parts >= 1 on the same objects.  Oracles: (a) 1e-12 x '
                '(1 + max magnitude of the iterates so far); (b), (c) bit-for-bit.  distinct = '
                'solver x sign pattern of (last iterate - start) x early-stop flag + '
                'executed-line signature of the solver functions',
        'bounds': {'N': N, 'steps': cut(STEPS), 'step_pairs': cut(STEP_PAIRS),
                   'starts': cut(STARTS),
                   'operators': (DOPS + SQOPS if deep else QOPS + SQOPS[:2]),
                   'operators_small_pools': DOPS + SQOPS + ['D3', 'I4', 'P23', 'P33', 'Sq3',
                                                            'Sym3'],
                   'functionals': dict((k, _pool(k, deep)) for k in FPOOL),
                   'smooth_terms': SMOOTH + ['LS'],
                   'three_way_splits': 'default instance of every state; all instances of the '
                                       'small pools' if deep else 'none'},
        'extra': {'unreached_explained':
                  'all unreached anchor lines are argument-validation raise statements, the two '
                  'random-order arms (random=True: the property is about the fixed order) and '
                  'the default-omega arm of landweber (random power-method start; resumption '
                  'needs an explicit omega); every line of every loop body is reached'},
        'assumptions': [
            'entries, step sizes and start points are dyadic; nothing is judged from the first '
            'non-finite iterate on (counted under unspecified_skipped)',
            'a configuration in which the shipped reference itself raises inside functional / '
            'operator code is C03/C07 matter and only counted; an exception raised by a line of '
            'the solver itself in a documented configuration is reported',
            'osmlem with M > 1 subsets calls back after every partial update (M x niter calls); '
            'the docstring says "after each iteration" and defines partial updates: the count is '
            'counted as unspecified, the records at full iterations are still compared',
            'accelerated pdhg (gamma_primal / gamma_dual) keeps its step sizes as locals and is '
            'excluded from (b) as in DESIGN.md; conjugate gradient variants, Gauss-Newton, adam, '
            'Douglas-Rachford, accelerated proximal gradient, dca, prox_dca keep hidden state or '
            'are not named by the property: only (c) applies',
            'gauss_newton is always given a fresh zero_seq (its default is one generator object '
            'shared by all calls)',
            'random=True (adupdates, kaczmarz): numpy.random.seed(s), s in %s, is set immediately '
            'before every run that starts from a fresh state (optimised and reference alike) '
            'and the generator state is carried over between the parts of a split run; every '
            'order drawn through numpy.random.permutation is recorded and a state whose orders '
            'are all the identity or never change within a call is counted as vacuous.  '
            'kaczmarz has no shipped reference: the reference loop replays the orders the solver '
            'drew (one per outer iteration, as documented) with single fixed-order steps'
            % (SEEDS,),
            'callback alphabet: a plain function for every instance; for the first instance of '
            'every callback position class of a state additionally a fresh empty '
            'odl.solvers.CallbackStore() (falsy while empty) and a callable with __bool__ False / '
            '__len__ 0: both must be called exactly as often as the plain function and see the '
            'same iterates',
            'operator alphabet includes square operators whose adjoint / evaluation is not safe '
            'with out aliased to the input (PartialDerivative forward/constant and '
            'backward/symmetric, a 2x2 ProductSpaceOperator with off-diagonal blocks), so that a '
            'solver sharing its domain and range temporaries differs from its reference',
            'pdhg (not accelerated) is additionally compared, per iterate and for x, x_relax, y, '
            'with a naive out-of-place loop of the iteration documented in '
            'doc/source/math/solvers/nonsmooth/pdhg.rst (1e-12 x magnitude)',
            'mlem / osmlem: the sensitivities object (float, element, caller-owned list) is ONE '
            'object per instance reused by all calls, as a caller resuming a run would do',
        ],
    }
