"""C19 - acquisition geometries are rigid-motion consistent for all parameters.

Exploration: configuration space K.  One state = one geometry (class x orientation x way the
initial system is given x translation x radii x detector curvature x pitch x shift functions x
angle range x input container x check_bounds), enumerated as *all configurations with at most
k deviations from the default configuration* (k = 2 quick, 3 thorough), plus detector states,
utility-function states and factory states.  Inside a state the whole parameter alphabet
(12 angles / Euler grids x 5 detector parameters per axis) is evaluated parameter by parameter
and through every calling convention (scalar, zipped arrays, outer meshes, broadcasting inside a
parameter group, length-1 arrays, n-d arrays), and every value is compared with the independent
rigid-motion model in ``mc/ref/geom_ref.py`` (built from the constructor *arguments* and the
docstrings, never from attributes of the odl object).

Tolerance: 1e-12 * (1 + max |expected|)  (trigonometric functions of O(10) arguments).
"""
import itertools
import math

import numpy as np
import odl
from odl.tomo.geometry import detector as DET
from odl.tomo.util import utility as UT

from mc.ref import geom_ref as G

PROPERTY = 'C19'
BUDGET = {'quick': 1500, 'thorough': 3600}
TOL = 1e-12
PI = math.pi

# ------------------------------------------------------------------------------------------
# alphabets

O3 = {'z': (0, 0, 1), '-z': (0, 0, -1), 'y': (0, 1, 0), 'x': (1, 0, 0), 'g122': (1, 2, 2),
      'g2m12': (2, -1, 2), 'd110': (1, 1, 0), 'g034': (0, 3, 4)}
O2 = {'y': (0, 1), '-y': (0, -1), 'x': (1, 0), '-x': (-1, 0), 'g34': (3, 4), 'gm43': (-4, 3),
      'd11': (1, 1), 'g5m12': (5, -12)}
O3_Q = list(O3)
O2_Q = list(O2)
# extra orientations of single classes: antiparallel to the Euler default det_pos_init, and
# Parallel2dGeometry: "If ``det_pos_init == (0, 0)``, no rotation is performed."
O3_ALL = dict(O3, **{'-y': (0, -1, 0)})
# axes of nearly but not exactly unit length, generic direction ("axis : array-like ... Vector
# defining the fixed rotation axis"; `axis` is documented as the NORMALIZED axis): 5-decimal
# roundings of (1,1,1)/sqrt(3) (norm 1 - 5e-7), (0,1,-1)/sqrt(2) (norm 1 + 4.6e-6) and
# (1,2,2)/3 (norm 1 + 2.2e-6)
NEAR_UNIT = {'nu111': (0.57735, 0.57735, 0.57735), 'nu011': (0.0, 0.70711, -0.70711),
             'nu122': (0.33333, 0.66667, 0.66667)}
O3_ALL.update(NEAR_UNIT)
# values that the quick tier visits as single deviations only (full lattice in thorough)
SINGLE_ONLY = {'orient': set(NEAR_UNIT), 'init': {'matrix_round'}, 'pitch': {(0.0, -0.75)}}
O2_ALL = dict(O2, zero=(0, 0))

ANG = {'std': [0.0, PI / 2, PI, 2 * PI, PI / 6, 1.0, 2.5, 3 * PI / 4, 4.0, 5.5, 3 * PI / 2, 0.1],
       'wide': [-PI, -1.0, 0.0, PI / 2, 1.0, PI, 2.5, 2 * PI, 7.0, 3 * PI, 11.0, 4 * PI]}
ARANGE = {'std': (0.0, 2 * PI), 'wide': (-PI, 4 * PI)}
NCELL = 8
EUL = {2: ([0.0, PI / 2, 1.0, 2 * PI, 4.0], [0.0, PI / 2, 0.7, PI]),
       3: ([0.0, PI / 2, 1.0, 2 * PI], [0.0, 0.7, PI], [0.0, 1.3, 2 * PI])}
EUL_SMALL = {2: ([0.0, PI / 2, 1.0, 2 * PI], [0.0, 0.7, PI]),
             3: ([0.0, 1.0, 2 * PI], [0.0, 0.7, PI], [1.3, 2 * PI])}
EUL_MAX = (2 * PI, PI, 2 * PI)
EUL_SHAPE = (4, 3, 2)
D1 = [[-1.0, -0.25, 0.0, 0.7, 1.5]]
D2 = [[-1.0, -0.25, 0.0, 0.7, 1.5], [-0.5, -0.125, 0.0, 0.4, 1.0]]
T2 = (1.0, -2.0)
T3 = (1.0, -2.0, 0.5)
E2 = (2.0, 1.0)                                  # explicit detector axis (2d)
P3 = (2.0, -1.0, 0.5)                            # explicit det_pos_init / src_to_det_init (3d)
A3_FLAT = ((1.0, 2.0, 2.0), (0.0, 1.0, 1.0))     # explicit axes, not orthogonal (flat only)
A3_PERP = ((1.0, 2.0, 2.0), (2.0, -2.0, 1.0))    # exactly perpendicular in floating point
RADII = [(2.0, 3.0), (0.0, 3.0), (5.0, 0.0), (1.5, 1.5)]
PITCH = [(0.0, 0.0), (2.0, 0.0), (-1.5, 0.5), (0.0, -0.75)]
CURV_R = 3.0

DET_AXES3 = {'std': ((1, 0, 0), (0, 0, 1)), 'swap': ((0, 0, 1), (1, 0, 0)),
             'neg1': ((1, 0, 0), (0, 0, -1)), 'neg0': ((-1, 0, 0), (0, 0, 1)),
             'my_mz': ((0, -1, 0), (0, 0, -1)), 'gen': A3_PERP, 'gen_swap': A3_PERP[::-1],
             'scaled': ((2, 0, 0), (0, 0, 3)), 'nonorth': A3_FLAT}


# shift functions: vectorised over 1-d angle arrays (like odl.tomo.flying_focal_spot, which
# asserts ``angle.ndim == 1``), and their single-angle twins for the model
def _src_shift_np(k):
    def f(a):
        a = np.asarray(a, dtype=float)
        return np.stack([0.1 * np.sin(a), 0.05 + 0.02 * a, 0.03 * np.cos(a)], axis=-1)[..., :k]
    return f


def _det_shift_np(k):
    def f(a):
        a = np.asarray(a, dtype=float)
        return np.stack([0.2 * np.cos(a), -0.1 * np.sin(2 * a), 0.04 * a], axis=-1)[..., :k]
    return f


def _src_shift_1(k):
    return lambda a: (0.1 * math.sin(a), 0.05 + 0.02 * a, 0.03 * math.cos(a))[:k]


def _det_shift_1(k):
    return lambda a: (0.2 * math.cos(a), -0.1 * math.sin(2 * a), 0.04 * a)[:k]


# ------------------------------------------------------------------------------------------
# bookkeeping

class Rec(object):
    def __init__(self):
        self.first = {}
        self.evals = 0
        self.skipped = 0
        self.ctx = ''

    def fail(self, site, symptom, detail):
        d = str(detail)[:800]
        if self.ctx:
            d += ' [cfg: %s]' % self.ctx
        self.first.setdefault((site, symptom), d)

    def viol(self):
        return [{'site': s, 'symptom': y, 'detail': d} for (s, y), d in self.first.items()]

    def call(self, site, what, f, *a, **k):
        """Execute odl code; an exception in an admissible configuration is a violation.

        The violation is filed under the innermost odl function on the traceback (where the
        defect lives: e.g. ``Geometry.det_point_position``, ``euler_matrix``,
        ``CylindricalDetector.surface``), so that one defect reached through several classes
        and methods is one site.  ``fam`` = calling-convention family for vectorised calls.
        """
        fam = k.pop('_fam', '')
        self.evals += 1
        try:
            return True, f(*a, **k)
        except Exception as e:           # noqa
            inner = None
            tb = e.__traceback__
            while tb is not None:
                code = tb.tb_frame.f_code
                if '/odl/' in code.co_filename:
                    inner = code.co_qualname
                tb = tb.tb_next
            osite = inner or site
            if fam and fam != 'basic':
                osite = '%s[%s]' % (osite, fam)
            self.fail(osite, '%sraises:%s' % (what, type(e).__name__),
                      '%s args=%s -> %r' % (site, _fmt(a), e))
            return False, None


def _fmt(a):
    def one(x):
        if isinstance(x, np.ndarray):
            if x.size <= 8:
                return 'array(%s)' % np.round(x, 6).tolist()
            return 'array(shape=%s)' % (x.shape,)
        if isinstance(x, (tuple, list)):
            return '(' + ', '.join(one(y) for y in x) + ')'
        if isinstance(x, float):
            return '%.6g' % x
        return repr(x)
    return one(tuple(a))


def _close(got, exp, tol=TOL):
    got = np.asarray(got)
    exp = np.asarray(exp, dtype=float)
    if got.shape != exp.shape:
        return False
    if got.size == 0:
        return True
    if not np.all(np.isfinite(got)):
        return False
    return bool(np.abs(got - exp).max() <= tol * (1.0 + np.abs(exp).max()))


def _worst(got, exp):
    got = np.asarray(got, dtype=float)
    exp = np.asarray(exp, dtype=float)
    d = np.abs(got - exp)
    k = np.unravel_index(int(np.nanargmax(d)) if np.any(np.isfinite(d)) else 0, d.shape)
    return 'entry %s: expected %s got %s (max abs diff %.3g)' % (
        list(k[:max(0, d.ndim - 1)]), np.round(exp[k[:-1]] if d.ndim else exp, 9).tolist(),
        np.round(got[k[:-1]] if d.ndim else got, 9).tolist(), float(np.nanmax(d)))


def compare(rec, site, symptom, got, exp, ctx):
    """Shape clause and value clause, reported separately."""
    exp = np.asarray(exp, dtype=float)
    try:
        got = np.asarray(got, dtype=float)
    except Exception:                     # noqa
        rec.fail(site, 'shape_not_documented', '%s: result is not an array: %r' % (ctx, got))
        return False
    if got.shape != exp.shape:
        rec.fail(site, 'shape_not_documented',
                 '%s: documented shape %s, got %s' % (ctx, exp.shape, got.shape))
        return False
    if not _close(got, exp):
        rec.fail(site, symptom, '%s: %s' % (ctx, _worst(got, exp)))
        return False
    return True


# ------------------------------------------------------------------------------------------
# calling conventions, described by INDEX arrays into the per-axis parameter alphabets
# (an ``int`` index = a Python float argument, an index array = a float array argument)

def _Z(sizes, L, off=0):
    return tuple((np.arange(L) * (k + 1) + k + off) % n for k, n in enumerate(sizes))


def _W(sizes):
    r = len(sizes)
    out = []
    for k, n in enumerate(sizes):
        shp = [1] * r
        shp[k] = n
        out.append(np.arange(n).reshape(shp))
    return tuple(out)


def _S(sizes, which):
    if which == 0:
        return tuple(0 for n in sizes)
    if which == 1:
        return tuple(n - 1 for n in sizes)
    return tuple(n // 2 for n in sizes)


def _reshape(idx, shape):
    return tuple(i if isinstance(i, int) else i.reshape(shape) for i in idx)


def _gshape(idx):
    arrs = [np.asarray(i) for i in idx]
    return np.broadcast(*arrs).shape if len(arrs) > 1 else arrs[0].shape


def _outer(mi, di, rev=False):
    gm, gd = _gshape(mi), _gshape(di)
    if rev:
        mi2 = tuple(i if isinstance(i, int) else i.reshape((1,) * len(gd) + i.shape)
                    for i in mi)
        di2 = tuple(i if isinstance(i, int) else i.reshape(i.shape + (1,) * len(gm))
                    for i in di)
    else:
        mi2 = tuple(i if isinstance(i, int) else i.reshape(i.shape + (1,) * len(gd))
                    for i in mi)
        di2 = tuple(i if isinstance(i, int) else i.reshape((1,) * len(gm) + i.shape)
                    for i in di)
    return mi2, di2


def motion_conventions(ms):
    """(name, family, midx) for methods of the motion parameters only."""
    out = [('zip7', 'basic', _Z(ms, 7)), ('nd2x3', 'basic', _reshape(_Z(ms, 6), (2, 3))),
           ('len1', 'basic', tuple(np.array([n // 2]) for n in ms)),
           ('list', 'basic', _Z(ms, 5, 1))]
    if len(ms) == 1:
        out.append(('all', 'basic', (np.arange(ms[0]),)))
    else:
        out.append(('mesh_within', 'within', _W(ms)))
        z = _Z(ms, 5)
        out.append(('scalar_first', 'within', (1,) + z[1:]))
        out.append(('scalar_rest', 'within', z[:1] + tuple(n // 2 for n in ms[1:])))
    return out


def joint_conventions(ms, ds):
    """(name, family, midx, didx) for methods of motion and detector parameters."""
    rm, rd = len(ms), len(ds)
    out = []
    out.append(('zip7', 'basic', _Z(ms, 7), _Z(ds, 7, 2)))
    out.append(('len1', 'basic', tuple(np.array([n // 2]) for n in ms),
                tuple(np.array([n - 1]) for n in ds)))
    out.append(('nd2x3', 'basic', _reshape(_Z(ms, 6), (2, 3)), _reshape(_Z(ds, 6, 1), (2, 3))))
    out.append(('outer_zip', 'basic') + _outer(_Z(ms, 4), _Z(ds, 3)))
    out.append(('outer_zip_rev', 'basic') + _outer(_Z(ms, 4), _Z(ds, 3), rev=True))
    for w in (0, 1, 2):
        out.append(('m_scalar%d_d_zip' % w, 'basic', _S(ms, w), _Z(ds, 5, w)))
        out.append(('m_zip_d_scalar%d' % w, 'basic', _Z(ms, 5, w), _S(ds, w)))
    out.append(('m_len1_d_scalar', 'basic', tuple(np.array([n // 2]) for n in ms), _S(ds, 2)))
    out.append(('m_scalar_d_len1', 'basic', _S(ms, 2), tuple(np.array([n // 2]) for n in ds)))
    # the whole alphabet in one call: outer product of everything
    if rm == 1 and rd == 1:
        out.append(('full_outer', 'basic') + _outer((np.arange(ms[0]),), (np.arange(ds[0]),)))
    else:
        wm = _W(ms) if rm > 1 else (np.arange(ms[0]),)
        wd = _W(ds) if rd > 1 else (np.arange(ds[0]),)
        out.append(('full_outer', 'within') + _outer(wm, wd))
    # broadcasting inside one parameter group, equal number of dimensions between the groups
    if rd > 1:
        one = tuple(np.array([n // 2]).reshape((1,) * rd) for n in ms)
        out.append(('d_mesh_within', 'within', one, _W(ds)))
        z = _Z(ds, 5)
        out.append(('d_scalar_first', 'within', _Z(ms, 5, 1), (1,) + z[1:]))
        out.append(('d_scalar_rest', 'within', _Z(ms, 5, 1),
                    z[:1] + tuple(n // 2 for n in ds[1:])))
        out.append(('m_scalar_d_scalar_first', 'within', _S(ms, 2), (1,) + z[1:]))
    if rm > 1:
        one = tuple(np.array([n // 2]).reshape((1,) * rm) for n in ds)
        out.append(('m_mesh_within', 'within', _W(ms), one))
        z = _Z(ms, 5)
        out.append(('m_scalar_first', 'within', (1,) + z[1:], _Z(ds, 5, 1)))
        out.append(('m_scalar_rest', 'within', z[:1] + tuple(n // 2 for n in ms[1:]),
                    _Z(ds, 5, 1)))
    # different number of dimensions between the two groups (plain NumPy broadcasting)
    out.append(('m_scalar_d_nd2x3', 'unequal_ndim', _S(ms, 2), _reshape(_Z(ds, 6), (2, 3))))
    out.append(('m_nd2x3_d_scalar', 'unequal_ndim', _reshape(_Z(ms, 6), (2, 3)), _S(ds, 2)))
    out.append(('m_1d_d_column', 'unequal_ndim', _Z(ms, 4), _reshape(_Z(ds, 3), (3, 1))))
    out.append(('m_column_d_1d', 'unequal_ndim', _reshape(_Z(ms, 4), (4, 1)), _Z(ds, 3)))
    return out


def make_arg(alph, idx, aslist=False):
    """Turn index objects into the argument passed to odl."""
    vals = []
    for a, i in zip(alph, idx):
        if isinstance(i, int):
            vals.append(float(a[i]))
        elif aslist:
            vals.append(np.asarray(a)[i].tolist())
        else:
            vals.append(np.asarray(a, dtype=float)[i].copy())
    if len(alph) == 1:
        return vals[0]
    if all(isinstance(i, int) for i in idx):
        return list(vals)
    return tuple(vals)


def flat_index(idx, sizes):
    """Flat index into the product alphabet, with the broadcast shape of the index arrays."""
    arrs = np.broadcast_arrays(*[np.asarray(i) for i in idx])
    return np.ravel_multi_index(tuple(arrs), sizes)


def max_ndim(idx):
    return max([0] + [i.ndim for i in idx if not isinstance(i, int)])


# ------------------------------------------------------------------------------------------
# construction of the odl geometry and of its model from the same configuration

CLS = {'Parallel2d': odl.tomo.Parallel2dGeometry, 'Parallel3dAxis': odl.tomo.Parallel3dAxisGeometry,
       'Parallel3dEuler': odl.tomo.Parallel3dEulerGeometry, 'FanBeam': odl.tomo.FanBeamGeometry,
       'ConeBeam': odl.tomo.ConeBeamGeometry}
IS3D = {'Parallel2d': False, 'FanBeam': False, 'Parallel3dAxis': True, 'Parallel3dEuler': True,
        'ConeBeam': True}
DIVERGENT = ('FanBeam', 'ConeBeam')


def _vec(v, arr):
    """Container in which an initial vector is handed to odl."""
    if v is None:
        return None
    if arr:
        return np.array(v, dtype=float)
    return tuple(float(x) for x in v)


def _matrix(cfg, three_d):
    """Transformation matrix for ``frommatrix`` (harness side, from the reference model)."""
    if three_d:
        M = G.init_rotation((0, 0, 1), O3_ALL[cfg['orient']]).dot(G.rot_z(0.7))
        flip = np.diag([-1.0, 1.0, 1.0])
    else:
        M = (G.init_rotation((0, 1), O2_ALL[cfg['orient']]) if cfg['orient'] != 'zero'
             else G.rot2(0.7))
        flip = np.diag([-1.0, 1.0])
    if cfg['init'] == 'matrix_scaled':
        M = 2.0 * M
    if cfg['init'] == 'matrix_mirror':
        M = M.dot(flip)
    if cfg['init'] == 'matrix_round':
        # orthogonal only up to ~1e-5: "allowed to include a constant scaling but shouldn't
        # have strongly varying directional scaling"; axis and detector axes are documented
        # as normalised
        if three_d:
            M = G.rot_axis((2.0, -1.0, 2.0), 0.9).dot(M)     # generic also for orient 'z'
        M = np.round(M, 5)
    return M


def partitions(cfg):
    cls = cfg['cls']
    if cls == 'Parallel3dEuler':
        n = cfg['nang']
        apart = odl.uniform_partition([0.0] * n, list(EUL_MAX[:n]), EUL_SHAPE[:n])
        malph = [list(a) for a in (EUL_SMALL if cfg.get('ealph') == 'small' else EUL)[n]]
    else:
        lo, hi = ARANGE[cfg['arange']]
        apart = odl.uniform_partition(lo, hi, NCELL)
        malph = [list(ANG[cfg['arange']])]
    if IS3D[cls]:
        dpart = odl.uniform_partition([-1.0, -0.5], [1.5, 1.0], (4, 3))
        dalph = [list(a) for a in D2]
    else:
        dpart = odl.uniform_partition(-1.0, 1.5, 4)
        dalph = [list(a) for a in D1]
    return apart, dpart, malph, dalph


def det_tag(cfg):
    return {None: 'flat', 'circ': 'circular', 'cyl': 'cylindrical', 'cylinf': 'cylindrical',
            'sph': 'spherical'}[cfg.get('curv')]


def build_geom(cfg):
    """Return (constructor thunk, model, site of the constructor).

    The model is computed from the constructor arguments and the class docstrings only.
    """
    cls = cfg['cls']
    three_d = IS3D[cls]
    arr = bool(cfg.get('arr'))
    init = cfg['init']
    apart, dpart, malph, dalph = partitions(cfg)
    kw = {}
    if not cfg.get('cb', 1):
        kw['check_bounds'] = False
    T = (T3 if three_d else T2) if cfg.get('transl') else None
    curved = cfg.get('curv') is not None
    e_x, e_y, e_z = np.eye(3)
    matrix = init.startswith('matrix')

    # ---- initial system according to the docstrings
    if matrix:
        M = _matrix(cfg, three_d)
        Min = M if T is None else np.column_stack([M, T])
        if three_d:
            axis = M.dot(e_z)
            pos = M.dot(e_y)
            axes = (M.dot(e_x), M.dot(e_z))
        else:
            pos = M.dot([0.0, 1.0])
            axes = M.dot([1.0, 0.0])
    elif three_d:
        o = np.array(O3_ALL[cfg['orient']], dtype=float)
        if cls == 'Parallel3dEuler':
            # "rotation of the original ones by a matrix that transforms (0, 1, 0) to the new
            # (normalized) det_pos_init"
            R0 = G.init_rotation(e_y, o)
            axis = None
            pos = o
            pos_given = True
        else:
            # "init_rot = rotation_matrix_from_to((0, 0, 1), axis); det_pos_init =
            # init_rot.dot((0, 1, 0)); det_axes_init[i] = init_rot.dot(default axes)"
            R0 = G.init_rotation(e_z, o)
            axis = o
            pos_given = init in ('pos', 'both')
            pos = np.array(P3) if pos_given else R0.dot(e_y)
        axes_given = init in ('axes', 'both')
        if axes_given:
            axes = A3_PERP if curved else A3_FLAT
        else:
            axes = (R0.dot(e_x), R0.dot(e_z))
    else:
        o = np.array(O2_ALL[cfg['orient']], dtype=float)
        R0 = G.init_rotation((0, 1), o) if np.any(o != 0) else np.eye(2)
        pos = o
        axes_given = init == 'axes'
        axes = np.array(E2) if axes_given else R0.dot([1.0, 0.0])

    # ---- detector model
    if not three_d:
        det = G.Circular(axes, CURV_R) if curved else G.Flat1d(axes)
    elif cfg.get('curv') in ('cyl', 'cylinf'):
        det = G.Cylindrical(axes, CURV_R)
    elif cfg.get('curv') == 'sph':
        det = G.Spherical(axes, CURV_R)
    else:
        det = G.Flat2d(axes)

    # ---- model and constructor call
    C = CLS[cls]
    if cls in DIVERGENT:
        rs, rd = cfg['radii']
        k = 3 if three_d else 2
        sh = cfg.get('shift', 'none')
        ssn = _src_shift_np(k) if sh in ('src', 'both') else None
        dsn = _det_shift_np(k) if sh in ('det', 'both') else None
        ss1 = _src_shift_1(k) if sh in ('src', 'both') else None
        ds1 = _det_shift_1(k) if sh in ('det', 'both') else None
        pitch, offset = cfg.get('pitch', (0.0, 0.0))
        model = G.GeomModel(3 if three_d else 2, 'divergent', 'axis' if three_d else '2d', det,
                            translation=T, axis=axis if three_d else None, s=pos, src_radius=rs,
                            det_radius=rd, pitch=pitch, offset=offset, src_shift=ss1,
                            det_shift=ds1)
        if three_d:
            curvarg = {None: None, 'cyl': (CURV_R, None), 'cylinf': (CURV_R, float('inf')),
                       'sph': (CURV_R, CURV_R)}[cfg.get('curv')]
        else:
            curvarg = CURV_R if curved else None
        kw.update(src_shift_func=ssn, det_shift_func=dsn)
        if three_d:
            kw.update(pitch=pitch)
            if offset:
                kw['offset_along_axis'] = offset
        if matrix:
            def make():
                return C.frommatrix(apart, dpart, rs, rd, Min.copy(),
                                    det_curvature_radius=curvarg, **kw)
        elif three_d:
            if pos_given:
                kw['src_to_det_init'] = _vec(pos, arr)
            if axes_given:
                kw['det_axes_init'] = tuple(_vec(a, arr) for a in axes)
            if T is not None:
                kw['translation'] = _vec(T, arr)

            def make():
                return C(apart, dpart, rs, rd, det_curvature_radius=curvarg,
                         axis=_vec(axis, arr), **kw)
        else:
            if axes_given:
                kw['det_axis_init'] = _vec(axes, arr)
            if T is not None:
                kw['translation'] = _vec(T, arr)

            def make():
                return C(apart, dpart, rs, rd, det_curvature_radius=curvarg,
                         src_to_det_init=_vec(pos, arr), **kw)
    else:
        rot_kind = {'Parallel2d': '2d', 'Parallel3dAxis': 'axis', 'Parallel3dEuler': 'euler'}[cls]
        model = G.GeomModel(3 if three_d else 2, 'parallel', rot_kind, det, translation=T,
                            axis=axis if cls == 'Parallel3dAxis' else None, p=pos)
        if matrix:
            def make():
                return C.frommatrix(apart, dpart, Min.copy(), **kw)
        elif cls == 'Parallel3dAxis':
            if pos_given:
                kw['det_pos_init'] = _vec(pos, arr)
            if axes_given:
                kw['det_axes_init'] = tuple(_vec(a, arr) for a in axes)
            if T is not None:
                kw['translation'] = _vec(T, arr)

            def make():
                return C(apart, dpart, axis=_vec(axis, arr), **kw)
        else:
            if axes_given:
                if three_d:
                    kw['det_axes_init'] = tuple(_vec(a, arr) for a in axes)
                else:
                    kw['det_axis_init'] = _vec(axes, arr)
            if T is not None:
                kw['translation'] = _vec(T, arr)

            def make():
                return C(apart, dpart, det_pos_init=_vec(pos, arr), **kw)
    name = C.__name__
    site = '%s.%s' % (name, 'frommatrix' if matrix else '__init__')
    return make, model, site, (malph, dalph)


# ------------------------------------------------------------------------------------------
# model tables over the product alphabets

class Tables(object):
    def __init__(self, model, malph, dalph):
        self.ms = tuple(len(a) for a in malph)
        self.ds = tuple(len(a) for a in dalph)
        self.mc = list(itertools.product(*malph))
        self.dc = list(itertools.product(*dalph))
        self.R = np.array([model.rot(m) for m in self.mc])
        self.REF = np.array([model.refpoint(m) for m in self.mc])
        self.AX = np.array([model.det_axes(m) for m in self.mc])
        self.SURF = np.array([model.det.surface(d) for d in self.dc])
        self.NRM = np.array([model.det.normal(d) for d in self.dc])
        self.P = self.REF[:, None, :] + np.einsum('mij,dj->mdi', self.R, self.SURF)
        if model.beam == 'parallel':
            self.SRC = None
            self.U = None
            self.V = np.einsum('mij,dj->mdi', self.R, self.NRM)
        else:
            self.SRC = np.array([model.src(m) for m in self.mc])
            self.U = self.SRC[:, None, :] - self.P
            self.V = self.U / np.sqrt((self.U ** 2).sum(axis=-1, keepdims=True))


def _scalar_table(vals, model_table):
    """Table of odl's own single-parameter answers (the property compares vectorised calls
    with these); falls back to the model table where a single-parameter call failed."""
    try:
        if any(v is None for v in vals):
            return model_table, 'model'
        t = np.array([np.asarray(v, dtype=float) for v in vals])
        if t.shape != model_table.shape or not np.all(np.isfinite(t)):
            return model_table, 'model'
        return t, 'scalar'
    except Exception:                    # noqa
        return model_table, 'model'


def _rot_ok(R):
    R = np.asarray(R, dtype=float)
    n = R.shape[-1]
    RtR = np.einsum('...ji,...jk->...ik', R, R)
    if np.abs(RtR - np.eye(n)).max() > TOL:
        return False
    return bool(np.abs(np.linalg.det(R) - 1.0).max() <= TOL)


def _as_float(v):
    try:
        return None if v is None else np.asarray(v, dtype=float)
    except Exception:                    # noqa
        return None


def check_curved_detector_clauses(rec, cls_name, det_model, dc, surf):
    """The documented placement of a curved detector, clause by clause.

    ``<Class>.surface differs_from_model`` says only "some point is not where the docstring
    puts it"; one recorded defect under that key would absorb every other way of misplacing
    the detector.  The separate clauses below are each implied by the class docstrings, need
    less than the full model, and are reported under their own symptom:

    * ``does_not_cross_origin``: "The [circular / cylindrical / spherical] surface ... is
      rotated to be aligned with given axes and shifted to cross the origin": parameter 0
      is the origin.
    * ``intrinsic_shape_differs``: all pairwise distances between the surface points are
      those of the documented parametrisation ``R * radius * (cos, -sin[, h | sin(theta)])
      + t`` -- whatever the rotation R and the shift t are.
    * ``height_along_axes1_differs`` (2-d detectors): the second parameter runs along
      ``axes[1]`` ("the partition angles increase in the direction of -y (clockwise) and z
      axis", the reference z axis being aligned with axes[1]): the component of every
      surface point along axes[1] is ``h`` (cylinder) resp. ``radius * sin(theta)``
      (sphere).  The transverse components (alignment of the arc with axes[0], side to which
      the detector bends) are what is left for ``differs_from_model``.

    ``surf``: odl's single-parameter answers (arrays or None), ``dc`` the parameters."""
    site = '%s.surface' % cls_name
    idx = [j for j, s in enumerate(surf)
           if s is not None and np.shape(s) == (det_model.space_ndim,)
           and np.all(np.isfinite(s))]
    if not idx:
        return
    S = np.array([surf[j] for j in idx], dtype=float)
    M = np.array([det_model.surface(dc[j]) for j in idx])
    rec.evals += 1
    for j, s in zip(idx, S):
        if all(x == 0.0 for x in dc[j]) and not _close(s, np.zeros(len(s))):
            rec.fail(site, 'does_not_cross_origin', 'surface(%s) = %s' % (dc[j], s.tolist()))
    dS = ((S[:, None, :] - S[None, :, :]) ** 2).sum(axis=-1)
    dM = ((M[:, None, :] - M[None, :, :]) ** 2).sum(axis=-1)
    if not _close(dS, dM):
        k = np.unravel_index(int(np.argmax(np.abs(dS - dM))), dS.shape)
        rec.fail(site, 'intrinsic_shape_differs',
                 'squared distance between surface(%s) and surface(%s): documented %.12g, got '
                 '%.12g' % (dc[idx[k[0]]], dc[idx[k[1]]], dM[k], dS[k]))
    if det_model.ndim == 2:
        hS, hM = S.dot(det_model.a1), M.dot(det_model.a1)
        if not _close(hS, hM):
            k = int(np.argmax(np.abs(hS - hM)))
            rec.fail(site, 'height_along_axes1_differs',
                     'surface(%s) = %s: component along axes[1] = %s is %.12g, documented %.12g'
                     % (dc[idx[k]], S[k].tolist(), np.round(det_model.a1, 9).tolist(),
                        hS[k], hM[k]))


def check_motion_methods(rec, g, model, tb, malph, base, has_shift):
    """rotation_matrix, det_refpoint, src_position, det_axis/det_axes: scalar and vectorised."""
    n = model.ndim
    meths = [('rotation_matrix', g.rotation_matrix, tb.R),
             ('det_refpoint', g.det_refpoint, tb.REF)]
    if model.beam == 'divergent':
        meths.append(('src_position', g.src_position, tb.SRC))
    if model.det.ndim == 1:
        meths.append(('det_axis', g.det_axis, tb.AX))
    else:
        meths.append(('det_axes', g.det_axes, tb.AX))
    odl_scalar = {}
    for name, fn, table in meths:
        site = '%s.%s' % (base, name)
        vals = []
        for k, m in enumerate(tb.mc):
            arg = float(m[0]) if len(m) == 1 else [float(x) for x in m]
            ok, got = rec.call(site, '', fn, arg)
            vals.append(got if ok else None)
            if not ok:
                continue
            if name == 'rotation_matrix' and np.shape(got) == (n, n) and not _rot_ok(got):
                rec.fail(site, 'not_orthonormal_det1', 'angle=%s: R=%s' % (m, np.asarray(got).tolist()))
            compare(rec, site, 'differs_from_model', got, table[k], 'single parameter %s' % (m,))
        odl_scalar[name] = vals
        vtab, vref = _scalar_table(vals, table)
        for cname, fam, midx in motion_conventions(tb.ms):
            if has_shift and max_ndim(midx) > 1 and name in ('det_refpoint', 'src_position'):
                rec.skipped += 1        # shift functions are specified for 1-d angle arrays only
                continue
            vsite = site if fam == 'basic' else '%s[%s]' % (site, fam)
            arg = make_arg(malph, midx, aslist=(cname == 'list'))
            ok, got = rec.call(site, 'vectorized_', fn, arg, _fam=fam)
            if not ok:
                continue
            exp = vtab[flat_index(midx, tb.ms)]
            if name == 'rotation_matrix' and np.shape(got) == exp.shape and not _rot_ok(got):
                rec.fail(vsite, 'not_orthonormal_det1', 'convention %s' % cname)
            compare(rec, vsite, 'vectorized_differs_from_' + vref, got, exp,
                    'convention %s, arg=%s' % (cname, _fmt((arg,))))
    return odl_scalar


def check_joint_methods(rec, g, model, tb, malph, dalph, base, has_shift, odl_scalar,
                        half=False):
    """det_point_position and det_to_src for every (motion, detector) parameter pair.

    ``half``: the single-parameter pass visits only the detector pairs with even index sum
    (quick tier, 2-d detectors); the vectorised calls still cover the whole alphabet and are
    then compared with the model instead of with odl's single-parameter answers."""
    skip_d = set()
    if half and len(tb.ds) == 2:
        skip_d = set(j for j, ij in enumerate(itertools.product(*[range(n) for n in tb.ds]))
                     if sum(ij) % 2)
    div = model.beam == 'divergent'
    meths = [('det_point_position', g.det_point_position, {}, tb.P)]
    meths.append(('det_to_src', g.det_to_src, {}, tb.V))
    if div:
        meths.append(('det_to_src', g.det_to_src, {'normalized': False}, tb.U))
    # detector surface, one parameter at a time (needed for the composition clause)
    surf = []
    for d in tb.dc:
        arg = float(d[0]) if len(d) == 1 else [float(x) for x in d]
        ok, got = rec.call('%s.detector.surface' % base, '', g.detector.surface, arg)
        surf.append(np.asarray(got, dtype=float) if ok else None)
    # a detector that is not where its docstring puts it is filed under the detector class;
    # the model comparisons of the composed methods would only repeat it
    model_ok = True
    for j, d in enumerate(tb.dc):
        if surf[j] is not None and not compare(
                rec, '%s.surface' % type(g.detector).__name__, 'differs_from_model', surf[j],
                tb.SURF[j], 'single parameter %s' % (d,)):
            model_ok = False
            break
    if isinstance(model.det, (G.Circular, G.Cylindrical, G.Spherical)):
        check_curved_detector_clauses(rec, type(g.detector).__name__, model.det, tb.dc, surf)
    dsites = set()
    for name, fn, kw, table in meths:
        site = '%s.%s' % (base, name)
        tag = '' if not kw else ' normalized=False'
        got_all = np.full(table.shape, np.nan)
        for i, m in enumerate(tb.mc):
            marg = float(m[0]) if len(m) == 1 else [float(x) for x in m]
            for j, d in enumerate(tb.dc):
                if j in skip_d:
                    continue
                darg = float(d[0]) if len(d) == 1 else [float(x) for x in d]
                ok, got = rec.call(site, '', fn, marg, darg, **kw)
                if not ok:
                    break
                if not model_ok:
                    if np.shape(got) == table[i, j].shape:
                        got_all[i, j] = got
                    else:
                        rec.fail(site, 'shape_not_documented', 'm=%s d=%s: shape %s'
                                 % (m, d, np.shape(got)))
                elif compare(rec, site, 'differs_from_model', got, table[i, j],
                             'single parameters m=%s d=%s%s' % (m, d, tag)):
                    got_all[i, j] = got
                elif np.shape(got) == table[i, j].shape:
                    got_all[i, j] = got
        # ---- relations between odl's own answers (no model involved)
        R = odl_scalar.get('rotation_matrix')
        ref = odl_scalar.get('det_refpoint')
        src = odl_scalar.get('src_position')
        for i, m in enumerate(tb.mc):
            for j, d in enumerate(tb.dc):
                v = got_all[i, j]
                if not np.all(np.isfinite(v)):
                    continue
                ctx = 'm=%s d=%s' % (m, d)
                if name == 'det_point_position':
                    if (R[i] is None or ref[i] is None or surf[j] is None
                            or np.shape(R[i]) != (model.ndim, model.ndim)):
                        continue
                    comp = np.asarray(ref[i]) + np.asarray(R[i]).dot(surf[j])
                    if not _close(v, comp):
                        rec.fail(site, 'not_refpoint_plus_rotated_surface',
                                 '%s: det_point_position=%s, det_refpoint + rotation_matrix.dot('
                                 'detector.surface)=%s' % (ctx, v.tolist(), comp.tolist()))
                elif div:
                    pos = dpp_all[i, j]
                    if src[i] is None or not np.all(np.isfinite(pos)):
                        continue
                    u = np.asarray(src[i]) - pos
                    if kw:
                        if not _close(v, u):
                            rec.fail(site, 'inconsistent_with_src_position',
                                     '%s: det_to_src(normalized=False)=%s but src_position - '
                                     'det_point_position=%s' % (ctx, v.tolist(), u.tolist()))
                    else:
                        if abs(math.sqrt(float(v.dot(v))) - 1.0) > TOL:
                            rec.fail(site, 'not_unit_length', '%s: %s' % (ctx, v.tolist()))
                        if not _close(v, u / math.sqrt(float(u.dot(u)))):
                            rec.fail(site, 'inconsistent_with_src_position',
                                     '%s: det_to_src=%s, normalised (src_position - '
                                     'det_point_position)=%s' % (ctx, v.tolist(), u.tolist()))
                else:
                    if abs(math.sqrt(float(v.dot(v))) - 1.0) > TOL:
                        rec.fail(site, 'not_unit_length', '%s: %s' % (ctx, v.tolist()))
                    if np.all(np.isfinite(got_all[i, 0])) and not _close(v, got_all[i, 0]):
                        rec.fail(site, 'ray_direction_depends_on_detector_point',
                                 '%s: %s vs %s at d=%s' % (ctx, v.tolist(),
                                                           got_all[i, 0].tolist(), tb.dc[0]))
                    ax = odl_scalar.get('det_axis') or odl_scalar.get('det_axes')
                    if ax[i] is not None:
                        dots = np.atleast_2d(np.asarray(ax[i], dtype=float)).dot(v)
                        if np.abs(dots).max() > TOL:
                            rec.fail(site, 'ray_not_orthogonal_to_detector_axes',
                                     '%s: det_to_src=%s det_axes=%s' % (ctx, v.tolist(),
                                                                        np.asarray(ax[i]).tolist()))
        if name == 'det_point_position':
            dpp_all = got_all
        # ---- every calling convention
        vtab, vref = (got_all, 'scalar') if np.all(np.isfinite(got_all)) else (table, 'model')
        for cname, fam, midx, didx in joint_conventions(tb.ms, tb.ds):
            if (has_shift and max_ndim(midx) > 1) or (vref == 'model' and not model_ok):
                rec.skipped += 1
                continue
            vsite = site if fam == 'basic' else '%s[%s]' % (site, fam)
            marg = make_arg(malph, midx)
            darg = make_arg(dalph, didx)
            ok, got = rec.call(site, 'vectorized_', fn, marg, darg, _fam=fam, **kw)
            if not ok:
                continue
            fm, fd = np.broadcast_arrays(flat_index(midx, tb.ms), flat_index(didx, tb.ds))
            compare(rec, vsite, 'vectorized_differs_from_' + vref, got, vtab[fm, fd],
                    'convention %s%s, args=%s' % (cname, tag, _fmt((marg, darg))))
            dsites.add(fam)
    return dsites

# ------------------------------------------------------------------------------------------
# history direction: driver-owned parameter buffers that are refilled in place

def buffer_history(rec, site, calls, contents, sequence, symptom='differs_from_fresh_array'):
    """Evaluate with the SAME float64 ndarray objects several times, refilling them in place
    (``buf[:] = other``) between the calls.

    calls: name -> function(list of arrays) -> array-like; contents: key -> list of arrays;
    sequence: list of (call name, content key).  Every answer must equal the answer of the same
    call for FRESH arrays with the same contents (obtained beforehand), and the buffers must
    come back unmodified.  Fresh-array answers are compared with the model by the calling-
    convention checks of the same state.
    """
    vsite = '%s[reused_buffer]' % site
    fresh = {}
    for cn, key in sorted(set(sequence)):
        args = [np.array(c, dtype=float, copy=True) for c in contents[key]]
        ok, r = rec.call(site, 'vectorized_', calls[cn], args, _fam='reused_buffer')
        if not ok:
            return
        try:
            fresh[cn, key] = np.array(r, dtype=float, copy=True)
        except Exception:                # noqa
            return
    first = contents[sequence[0][1]]
    bufs = [np.zeros(np.shape(c), dtype=float) for c in first]
    hist = []
    for step, (cn, key) in enumerate(sequence):
        for b, c in zip(bufs, contents[key]):
            b[:] = c
        hist.append('%s(%s)' % (cn, key))
        ok, r = rec.call(site, 'vectorized_', calls[cn], bufs, _fam='reused_buffer')
        if not ok:
            return
        got = np.array(r, dtype=float, copy=True)
        exp = fresh[cn, key]
        if got.shape != exp.shape or not _close(got, exp):
            rec.fail(vsite, symptom,
                     'same ndarray objects refilled in place, history %s: call %d differs from '
                     'the answer for fresh arrays with the same contents %s: %s'
                     % (' -> '.join(hist), step + 1,
                        [np.round(np.asarray(c), 6).tolist() for c in contents[key]],
                        _worst(got, exp) if got.shape == exp.shape else
                        'shape %s vs %s' % (got.shape, exp.shape)))
            return
        for b, c in zip(bufs, contents[key]):
            if not np.array_equal(b, c):
                rec.fail(vsite, 'input_array_modified', 'history %s: buffer %s became %s'
                         % (' -> '.join(hist), np.asarray(c).tolist(), b.tolist()))
                return


def _contents(alph, idx):
    return [np.asarray(a, dtype=float)[i].copy() for a, i in zip(alph, idx)]


def check_reused_buffers(rec, g, others, tb, malph, dalph, base, div):
    """Every evaluation function of the geometry, with one driver-owned buffer per motion and
    per detector parameter: A, refill B, refill A; and alternately with other geometry
    objects of the same class (``others``) on the same buffers."""
    L = 5
    rm, rd = len(tb.ms), len(tb.ds)
    mc = {'A': _contents(malph, _Z(tb.ms, L)), 'B': _contents(malph, _Z(tb.ms, L, 1))}
    dc = {'A': _contents(dalph, _Z(tb.ds, L, 2)), 'B': _contents(dalph, _Z(tb.ds, L, 3))}
    both = dict((k, mc[k] + dc[k]) for k in mc)

    def marg(b):
        return b[0] if rm == 1 else tuple(b[:rm])

    def darg(b):
        return b[rm] if rd == 1 else tuple(b[rm:])

    def motion(obj, name):
        return lambda b: getattr(obj, name)(marg(b))

    def joint(obj, name, kw):
        return lambda b: getattr(obj, name)(marg(b), darg(b), **kw)

    meths = [('rotation_matrix', None), ('det_refpoint', None)]
    if div:
        meths.append(('src_position', None))
    meths.append(('det_axis' if rd == 1 else 'det_axes', None))
    meths += [('det_point_position', {}), ('det_to_src', {})]
    if div:
        meths.append(('det_to_src', {'normalized': False}))
    for name, kw in meths:
        site = '%s.%s' % (base, name)
        mk = (lambda o: motion(o, name)) if kw is None else (lambda o: joint(o, name, kw))
        cont = mc if kw is None else both
        buffer_history(rec, site, {'g': mk(g)}, cont, [('g', 'A'), ('g', 'B'), ('g', 'A')])
        if name in ('rotation_matrix', 'det_point_position', 'det_to_src') and not (
                kw and 'normalized' in kw):
            for tag, o in others:
                buffer_history(rec, site, {'g': mk(g), tag: mk(o)}, cont,
                               [('g', 'A'), (tag, 'B'), ('g', 'A'), (tag, 'A'), ('g', 'B')],
                               symptom='two_objects_differ_from_fresh_array')


def other_geometries(cfg):
    """Geometry objects of the same class for the alternating history: same axis (orientation)
    with other translation / pitch, and another orientation.  Unbuildable ones are skipped
    (their own states report that)."""
    out = []
    same = dict(cfg, transl=0 if cfg.get('transl') else 1)
    if cfg['cls'] == 'ConeBeam':
        same['pitch'] = [2.0, 0.0] if list(cfg['pitch']) != [2.0, 0.0] else [-1.5, 0.5]
    first = 'z' if IS3D[cfg['cls']] and cfg['cls'] != 'Parallel3dEuler' else 'y'
    alt = 'g122' if IS3D[cfg['cls']] else 'g34'
    other = dict(cfg, orient=alt if cfg['orient'] == first else first)
    for tag, c in (('same_axis', same), ('other_axis', other)):
        try:
            out.append((tag, build_geom(c)[0]()))
        except Exception:                # noqa
            pass
    return out



# ------------------------------------------------------------------------------------------
# slicing, initial vectors, ASTRA vectors

SLICES = [('0:3', slice(0, 3)), ('::2', slice(None, None, 2)), ('int3', 3),
          ('1:4,::2', (slice(1, 4), slice(None, None, 2))), ('list', [0, 2, 5]),
          (':,1:3', (slice(None), slice(1, 3)))]


def _observe(rec, g, model, angles, dmid, site, symptom, ctx, has_shift, ref=None):
    """All observables of ``g`` at the 1-d array ``angles`` and ONE detector parameter,
    compared with the model of the (parent) geometry, or with ``ref`` (what the same object
    answered earlier) if given.  Returns the answers."""
    ms = [(float(a),) for a in angles]
    d = tuple(float(x) for x in np.atleast_1d(dmid))
    darg = d[0] if len(d) == 1 else list(d)
    A = np.array(angles, dtype=float)
    exp = {'rotation_matrix': np.array([model.rot(m) for m in ms]),
           'det_refpoint': np.array([model.refpoint(m) for m in ms]),
           'det_point_position': np.array([model.det_point(m, d) for m in ms]),
           'det_to_src': np.array([model.det_to_src(m, d) for m in ms])}
    if model.beam == 'divergent':
        exp['src_position'] = np.array([model.src(m) for m in ms])
    if ref is not None:
        exp = dict((k, v) for k, v in ref.items() if v is not None)
    answers = {}
    symptom0 = symptom
    for name in sorted(exp):
        # the trajectory (rotation, reference point, source) and the detector points are
        # different clauses: a slice that moves the source is not the same defect as one that
        # rebuilds the detector differently
        symptom = symptom0
        if symptom0 in ('slice_differs_from_parent',
                        'slice_detector_points_differ_from_parent') and name in (
                'rotation_matrix', 'det_refpoint', 'src_position'):
            symptom = 'slice_trajectory_differs_from_parent'
        fn = getattr(g, name)
        args = (A.copy(),) if name in ('rotation_matrix', 'det_refpoint', 'src_position') \
            else (A.copy(), darg)
        rec.evals += 1
        try:
            got = fn(*args)
        except Exception as e:           # noqa
            rec.fail(site, '%s:raises:%s' % (symptom, type(e).__name__),
                     '%s: %s%s -> %r' % (ctx, name, _fmt(args), e))
            answers[name] = None
            continue
        answers[name] = np.array(got, dtype=float, copy=True)
        if not _close(got, exp[name]):
            shp = np.shape(got)
            rec.fail(site, symptom, '%s: %s%s: %s' % (
                ctx, name, _fmt(args),
                _worst(got, exp[name]) if shp == exp[name].shape else
                'shape %s instead of %s' % (shp, exp[name].shape)))
    return answers


def check_slicing(rec, g, model, cfg, base, has_shift):
    cls = cfg['cls']
    if not hasattr(type(g), '__getitem__'):
        return
    site = '%s.__getitem__' % base
    lo, hi = ARANGE[cfg['arange']]
    grid = lo + (np.arange(NCELL) + 0.5) * (hi - lo) / NCELL      # midpoints of the 8 cells
    pmid = np.asarray(g.det_params.mid_pt, dtype=float)
    misplaced = ('%s.surface' % type(g.detector).__name__, 'differs_from_model') in rec.first
    quiet = Rec()                   # reference capture only; judged by the checks above
    parent_before = _observe(quiet, g, model, grid, pmid, site, 'n/a', 'before', has_shift)
    rec.evals += quiet.evals
    subs = []
    for sname, idx in SLICES:
        if IS3D[cls] and sname == ':,1:3':
            idx = (slice(None), slice(1, 3), slice(None))
        if IS3D[cls] and sname == '1:4,::2':
            idx = (slice(1, 4), slice(None, None, 2), slice(0, 2))
        rec.evals += 1
        try:
            sub = g[idx]
        except Exception as e:           # noqa
            rec.fail(site, 'raises:%s' % type(e).__name__, 'geom[%s] -> %r' % (sname, e))
            continue
        midx = idx[0] if isinstance(idx, tuple) else idx
        want = np.atleast_1d(grid[midx])
        try:
            got_angles = np.asarray(sub.angles, dtype=float)
            part_ok = bool(sub.partition == g.partition[idx])
            dmid = np.asarray(sub.det_params.mid_pt, dtype=float)
        except Exception as e:           # noqa
            rec.fail(site, 'raises:%s' % type(e).__name__, 'geom[%s].angles -> %r' % (sname, e))
            continue
        # "self[indices].partition == self.partition[indices]"
        if got_angles.shape != want.shape or not _close(got_angles, want) or not part_ok:
            rec.fail(site, 'slice_partition_differs',
                     'geom[%s].angles=%s, parent grid[%s]=%s, partitions equal: %s'
                     % (sname, got_angles.tolist(), sname, want.tolist(), part_ok))
            continue
        # "where all other parameters are the same".  Key of the detector-point clause: in a
        # state whose PARENT detector is already not where the model puts it, the slice is
        # expected to inherit that (filed as 'slice_differs_from_parent' next to the
        # detector finding); where the parent is right, a slice that moves the detector
        # points is a defect of the slicing itself and gets its own symptom, so that the
        # former cannot absorb the latter.
        sym = 'slice_differs_from_parent' if misplaced else \
            'slice_detector_points_differ_from_parent'
        first = _observe(rec, sub, model, want, dmid, site, sym, 'geom[%s]' % sname, has_shift)
        if misplaced:
            # ... and whatever the parent answers, the slice must answer the same
            quiet2 = Rec()
            pans = _observe(quiet2, g, model, want, dmid, site, 'n/a', 'parent', has_shift)
            rec.evals += quiet2.evals
            _observe(rec, sub, model, want, dmid, site,
                     'slice_detector_points_differ_from_parent',
                     'geom[%s] compared with the answers of the parent object at the same '
                     'parameters' % sname, has_shift,
                     ref=dict((k, v) for k, v in pans.items()
                              if k in ('det_point_position', 'det_to_src')))
        subs.append((sname, sub, want, dmid, first))
    # hidden shared state: earlier slices and the parent must answer what they answered before
    for sname, sub, want, dmid, first in subs[:2]:
        _observe(rec, sub, model, want, dmid, site, 'earlier_slice_changed_by_later_slicing',
                 'geom[%s] re-evaluated after %d more slicings, compared with its first answers'
                 % (sname, len(subs) - 1), has_shift, ref=first)
    if subs:
        _observe(rec, g, model, grid, pmid, site, 'slicing_modifies_parent',
                 'parent after %d slicings, compared with its answers before' % len(subs),
                 has_shift, ref=parent_before)


def check_init_vectors(rec, g, model, cfg, site):
    """Attributes that the docstrings define: translation, axis, det_pos_init (absolute),
    src_to_det_init (unit), det_axis_init / det_axes_init (unit)."""
    pairs = [('translation', model.t)]
    if model.rot_kind == 'axis':
        pairs.append(('axis', model.axis))
    if model.beam == 'parallel':
        pairs.append(('det_pos_init', model.p + model.t))
    else:
        pairs.append(('src_to_det_init', model.s))
    if model.det.ndim == 1:
        pairs.append(('det_axis_init', model.det.a))
    else:
        pairs.append(('det_axes_init', np.array([model.det.a0, model.det.a1])))
    ok_all = True
    for name, exp in pairs:
        rec.evals += 1
        try:
            got = np.asarray(getattr(g, name), dtype=float)
        except Exception as e:           # noqa
            rec.fail(site, 'raises:%s' % type(e).__name__, '%s -> %r' % (name, e))
            ok_all = False
            continue
        if not _close(got, exp):
            rec.fail(site, 'initial_vectors_differ_from_documentation',
                     '%s: documented %s, got %s' % (name, np.round(exp, 12).tolist(),
                                                    got.tolist()))
            ok_all = False
    return ok_all


def _cfg_str(cfg):
    return ','.join('%s=%s' % (k, cfg[k]) for k in sorted(cfg) if k not in ('kind',))


def _gram(rows):
    V = np.asarray(rows, dtype=float)
    return V.dot(V.T)


def check_astra_vectors(rec, g, model, cfg):
    """astra_setup.*_geom_to_vec (importable without astra).  Oracle without any axis
    convention: the vectors of all rows are the image of the geometry's own vectors
    (source or ray, detector centre, pixel steps) under ONE orthogonal map, i.e. equal Gram
    matrices; shapes as documented ("(num_angles, 12)" / "(num_angles, 6)")."""
    from odl.tomo.backends import astra_setup as AS
    cls = cfg['cls']
    if cfg.get('curv') is not None:
        return                      # astra_projection_geometry only maps flat detectors
    if cls == 'Parallel2d':
        return                      # no vector form (plain 'parallel' astra geometry)
    fn = {'FanBeam': AS.astra_conebeam_2d_geom_to_vec, 'ConeBeam': AS.astra_conebeam_3d_geom_to_vec,
          'Parallel3dAxis': AS.astra_parallel_3d_geom_to_vec,
          'Parallel3dEuler': AS.astra_parallel_3d_geom_to_vec}[cls]
    site = fn.__name__
    ok, vec = rec.call(site, '', fn, g)
    if not ok:
        return
    # parameters of the grid, from the partition definition
    if cls == 'Parallel3dEuler':
        n = cfg['nang']
        axes = [(np.arange(EUL_SHAPE[k]) + 0.5) * EUL_MAX[k] / EUL_SHAPE[k] for k in range(n)]
        ms = list(itertools.product(*axes))
    else:
        lo, hi = ARANGE[cfg['arange']]
        ms = [(a,) for a in lo + (np.arange(NCELL) + 0.5) * (hi - lo) / NCELL]
    if IS3D[cls]:
        mid = (0.25, 0.25)
        px = (2.5 / 4, 1.5 / 3)
    else:
        mid = (0.25,)
        px = (2.5 / 4,)
    n = model.ndim
    width = 12 if n == 3 else 6
    vec = np.asarray(vec, dtype=float)
    if vec.shape != (len(ms), width):
        rec.fail(site, 'shape_not_documented', 'documented (%d, %d), got %s'
                 % (len(ms), width, vec.shape))
        return
    got_rows, exp_rows = [], []
    for k, m in enumerate(ms):
        ax = np.atleast_2d(model.det_axes(m))
        first = model.src(m) if model.beam == 'divergent' else -model.det_to_src(m, mid)
        exp = [first, model.det_point(m, mid)]
        if n == 3:
            # "u: the vector from detector pixel (0,0) to (0,1); v: ... (0,0) to (1,0)"
            exp += [ax[1] * px[1], ax[0] * px[0]]
        else:
            exp += [ax[0] * px[0]]
        exp_rows += exp
        got_rows += [vec[k, n * i:n * (i + 1)] for i in range(len(exp))]
    Gg, Ge = _gram(got_rows), _gram(exp_rows)
    if not _close(Gg, Ge):
        k = np.unravel_index(int(np.argmax(np.abs(Gg - Ge))), Gg.shape)
        per = len(exp_rows) // len(ms)
        names = ['src_or_ray', 'det_centre', 'u', 'v'][:per]
        rec.fail(site, 'not_congruent_to_geometry',
                 'inner product <%s(row %d), %s(row %d)> = %.12g, geometry gives %.12g'
                 % (names[k[0] % per], k[0] // per, names[k[1] % per], k[1] // per,
                    Gg[k], Ge[k]))


# ------------------------------------------------------------------------------------------
# state kinds

def run_geom(cfg):
    rec = Rec()
    rec.ctx = _cfg_str(cfg)
    make, model, csite, (malph, dalph) = build_geom(cfg)
    ok, g = rec.call(csite, '', make)
    name = CLS[cfg['cls']].__name__
    base = name
    if not ok:
        # documented configuration that cannot be built
        return _result(rec, '%s[%s]:%s:unbuildable' % (base, det_tag(cfg), cfg['init']))
    has_shift = cfg.get('shift', 'none') != 'none'
    check_init_vectors(rec, g, model, cfg, csite)
    tb = Tables(model, malph, dalph)
    odl_scalar = check_motion_methods(rec, g, model, tb, malph, base, has_shift)
    check_joint_methods(rec, g, model, tb, malph, dalph, base, has_shift, odl_scalar,
                        half=cfg.get('scal') == 'half')
    check_reused_buffers(rec, g, other_geometries(cfg), tb, malph, dalph, base,
                         model.beam == 'divergent')
    check_astra_vectors(rec, g, model, cfg)
    if cfg['cls'] != 'Parallel3dEuler':
        check_slicing(rec, g, model, cfg, base, has_shift)      # last: slicing may corrupt g
    return _result(rec, '%s[%s]:%s' % (base, det_tag(cfg),
                                       'matrix' if cfg['init'].startswith('matrix') else 'ctor'))


def _result(rec, tag):
    v = rec.viol()
    outcome = 'ok' if not v else '+'.join(sorted(set(x['symptom'].split(':')[0] for x in v)))
    return {'evals': rec.evals, 'viol': v, 'skipped': rec.skipped,
            'sig': '%s:%s' % (tag, outcome), 'trivial': rec.evals == 0}


def _det_build(cfg):
    cls = cfg['cls']
    if cls in ('Flat1d', 'Circular'):
        part = odl.uniform_partition(-1.0, 1.5, 4)
        ax = O2[cfg['axes']]
        alph = [list(a) for a in D1]
    else:
        part = odl.uniform_partition([-1.0, -0.5], [1.5, 1.0], (4, 3))
        ax = DET_AXES3[cfg['axes']]
        alph = [list(a) for a in D2]
    r = cfg.get('radius')
    kw = {} if cfg.get('cb', 1) else {'check_bounds': False}
    if cls == 'Flat1d':
        return (lambda: DET.Flat1dDetector(part, ax, **kw)), G.Flat1d(ax), alph
    if cls == 'Flat2d':
        return (lambda: DET.Flat2dDetector(part, ax, **kw)), G.Flat2d(ax), alph
    if cls == 'Circular':
        return (lambda: DET.CircularDetector(part, ax, r, **kw)), G.Circular(ax, r), alph
    if cls == 'Cylindrical':
        return (lambda: DET.CylindricalDetector(part, ax, r, **kw)), G.Cylindrical(ax, r), alph
    return (lambda: DET.SphericalDetector(part, ax, r, **kw)), G.Spherical(ax, r), alph


def run_det(cfg):
    rec = Rec()
    rec.ctx = _cfg_str(cfg)
    make, model, alph = _det_build(cfg)
    base = '%sDetector' % cfg['cls']
    ok, det = rec.call('%s.__init__' % base, '', make)
    if not ok:
        return _result(rec, base + ':unbuildable')
    ds = tuple(len(a) for a in alph)
    dc = list(itertools.product(*alph))
    two = model.ndim == 2
    tabs = {'surface': np.array([model.surface(d) for d in dc]),
            'surface_deriv': np.array([model.deriv(d) for d in dc]),
            'surface_normal': np.array([model.normal(d) for d in dc]),
            'surface_measure': np.array([model.measure(d) for d in dc])}
    curved = cfg['cls'] in ('Cylindrical', 'Spherical')
    cont = {'A': _contents(alph, _Z(ds, 5)), 'B': _contents(alph, _Z(ds, 5, 2))}
    for name in ('surface', 'surface_deriv', 'surface_normal', 'surface_measure'):
        buffer_history(rec, '%s.%s' % (base, name),
                       {'d': (lambda b, f=getattr(det, name): f(b[0] if len(b) == 1 else tuple(b)))},
                       cont, [('d', 'A'), ('d', 'B'), ('d', 'A')])
    for name in ('surface', 'surface_deriv', 'surface_normal', 'surface_measure'):
        fn = getattr(det, name)
        site = '%s.%s' % (base, name)
        table = tabs[name]
        if name != 'surface' and ('%s.surface' % base, 'differs_from_model') in rec.first:
            # misplaced detector: derivative and normal of the model surface say nothing new;
            # compare the vectorised calls with odl's own single-parameter answers only
            table = None
        vals = []
        for k, d in enumerate(dc):
            arg = float(d[0]) if len(d) == 1 else [float(x) for x in d]
            ok, got = rec.call(site, '', fn, arg)
            vals.append(got if ok else None)
            if not ok:
                break
            if name == 'surface_measure' and not isinstance(got, float):
                # "If a single parameter is provided, a float is returned"
                rec.fail(site, 'shape_not_documented', 'single parameter %s: documented float, '
                         'got %s' % (d, type(got).__name__))
            if table is not None:
                compare(rec, site, 'differs_from_model', got, table[k],
                        'single parameter %s' % (d,))
        vals += [None] * (len(dc) - len(vals))
        if name == 'surface' and cfg['cls'] in ('Circular', 'Cylindrical', 'Spherical'):
            check_curved_detector_clauses(
                rec, base, model, dc, [_as_float(v) for v in vals])
        vtab, vref = _scalar_table(vals, tabs[name])
        if table is None and vref == 'model':
            rec.skipped += 1
            continue
        for cname, fam, idx in motion_conventions(ds):
            if fam == 'within' and (name == 'surface_normal'
                                    or (name == 'surface_deriv' and curved)):
                # documented shapes "param.shape[:-1] + (space_ndim,)" (surface_normal) and
                # "param.shape + (2,)" (curved surface_deriv) contradict the examples of the
                # same docstrings; broadcasting inside the parameter is left unspecified there
                rec.skipped += 1
                continue
            vsite = site if fam == 'basic' else '%s[%s]' % (site, fam)
            arg = make_arg(alph, idx, aslist=(cname == 'list'))
            ok, got = rec.call(site, 'vectorized_', fn, arg, _fam=fam)
            if not ok:
                continue
            compare(rec, vsite, 'vectorized_differs_from_' + vref, got,
                    vtab[flat_index(idx, ds)], 'convention %s, arg=%s' % (cname, _fmt((arg,))))
    return _result(rec, base)


def run_util(cfg):
    rec = Rec()
    rec.ctx = _cfg_str(cfg)
    fnname = cfg['fn']
    if fnname == 'euler_matrix':
        n = cfg['n']
        alph = [ANG['wide']] if n == 1 else [list(a) for a in EUL[n]]
        if n > 1:
            alph[0] = alph[0] + [-1.0]          # plain function: no parameter range
        ms = tuple(len(a) for a in alph)
        mc = list(itertools.product(*alph))
        table = np.array([G.rot2(m[0]) if n == 1 else G.euler_zxz(*m) for m in mc])
        site = 'euler_matrix'
        for k, m in enumerate(mc):
            ok, got = rec.call(site, '', UT.euler_matrix, *[float(x) for x in m])
            if ok:
                compare(rec, site, 'differs_from_model', got, table[k], 'angles %s' % (m,))
        if n == 3:
            # "the default ``None`` is equivalent to ``0.0``"
            for phi, psi in itertools.product(alph[0], alph[2]):
                ok, got = rec.call(site, '', UT.euler_matrix, float(phi), None, float(psi))
                if ok:
                    compare(rec, site, 'differs_from_model', got, G.euler_zxz(phi, 0.0, psi),
                            'angles (%s, None, %s)' % (phi, psi))
        for cname, fam, idx in motion_conventions(ms):
            vsite = site if fam == 'basic' else site + '[within]'
            args = [make_arg([a], (i,), aslist=(cname == 'list')) for a, i in zip(alph, idx)]
            ok, got = rec.call(site, 'vectorized_', UT.euler_matrix, *args, _fam=fam)
            if ok:
                # "broadcast(phi, theta, psi).shape + (ndim, ndim)"
                compare(rec, vsite, 'vectorized_differs_from_model', got,
                        table[flat_index(idx, ms)], 'convention %s args=%s' % (cname, _fmt(args)))
                if np.shape(got) == table[flat_index(idx, ms)].shape and not _rot_ok(got):
                    rec.fail(vsite, 'not_orthonormal_det1', cname)
        return _result(rec, site)
    if fnname == 'axis_rotation_matrix':
        o = G.unit(O3[cfg['orient']])
        alph = [ANG['wide']]
        table = np.array([G.rot_axis(o, a) for a in alph[0]])
        site = 'axis_rotation_matrix'
        for k, a in enumerate(alph[0]):
            ok, got = rec.call(site, '', UT.axis_rotation_matrix, o.copy(), float(a))
            if ok:
                compare(rec, site, 'differs_from_model', got, table[k], 'axis %s angle %s'
                        % (o.tolist(), a))
        for cname, fam, idx in motion_conventions((len(alph[0]),)):
            arg = make_arg(alph, idx, aslist=(cname == 'list'))
            ok, got = rec.call(site, 'vectorized_', UT.axis_rotation_matrix, o.copy(), arg)
            if ok:
                compare(rec, site, 'vectorized_differs_from_model', got,
                        table[flat_index(idx, (len(alph[0]),))],
                        'axis %s convention %s' % (o.tolist(), cname))
        # axis_rotation: rotate vectors around a shifted axis
        vecs = np.array([[1.0, 0, 0], [0, 1.0, 0], [0.5, -2.0, 3.0], [0, 0, 0]])
        for shift in [(0.0, 0.0, 0.0), (1.0, -0.5, 2.0)]:
            sh = np.array(shift)
            perp = sh - o.dot(sh) * o
            for a in alph[0][:6]:
                R = G.rot_axis(o, a)
                exp = np.array([perp + R.dot(v - perp) for v in vecs])
                for arg, e in ((vecs.copy(), exp), (vecs[2].copy(), exp[2:3])):
                    ok, got = rec.call('axis_rotation', '', UT.axis_rotation, o.copy(), float(a),
                                       arg, axis_shift=shift)
                    if ok:
                        compare(rec, 'axis_rotation', 'differs_from_model',
                                np.asarray(got).reshape(-1, 3), e,
                                'axis %s angle %s shift %s' % (o.tolist(), a, shift))
        return _result(rec, site)
    if fnname == 'rotation_matrix_from_to':
        dim = cfg['dim']
        O = O2 if dim == 2 else O3
        u = np.array(O[cfg['frm']], dtype=float)
        site = 'rotation_matrix_from_to[%dd]' % dim
        canonical = cfg['frm'] in ('y', 'z')
        for to in O:
            for scale in (1.0, 2.5):
                v = scale * np.array(O[to], dtype=float)
                uh, vh = G.unit(u), G.unit(v)
                col = abs(abs(uh.dot(vh)) - 1.0) < 1e-9
                if col and not canonical:
                    # "They should not be very close to zero or collinear"; the geometry
                    # classes only ever pass their axis-aligned default as from_vec
                    rec.skipped += 1
                    continue
                ok, R = rec.call(site, '', UT.rotation_matrix_from_to, u.copy(), v.copy())
                if not ok:
                    continue
                ctx = 'from %s to %s' % (u.tolist(), v.tolist())
                if np.shape(R) != (dim, dim) or not _rot_ok(R):
                    rec.fail(site, 'not_orthonormal_det1', '%s: %s' % (ctx, np.asarray(R).tolist()))
                    continue
                if not _close(R.dot(uh), vh):
                    rec.fail(site, 'does_not_rotate_from_to', '%s: R.from=%s, to=%s'
                             % (ctx, R.dot(uh).tolist(), vh.tolist()))
                if not _close(R, G.init_rotation(u, v)):
                    # 3d: "rotation around the normal vector n = u x v"
                    rec.fail(site, 'differs_from_model', '%s: %s vs %s'
                             % (ctx, np.asarray(R).tolist(), G.init_rotation(u, v).tolist()))
        return _result(rec, site)
    if fnname == 'transform_system':
        dim = cfg['dim']
        O = O2 if dim == 2 else O3
        default = (0, 1) if dim == 2 else (0, 0, 1)
        others = [(1, 0), (0.5, 2)] if dim == 2 else [(0, 1, 0), (1, 0, 0), (0.5, 2, -1)]
        site = 'transform_system[%dd]' % dim
        for name, o in O.items():
            R = G.init_rotation(default, o)
            ok, got = rec.call(site, '', UT.transform_system, o, default, others + [None])
            if ok:
                exp = [np.array(o, dtype=float)] + [R.dot(v) for v in others]
                good = (len(got) == len(others) + 2 and got[-1] is None
                        and all(_close(a, b) for a, b in zip(got[:-1], exp)))
                if not good:
                    rec.fail(site, 'differs_from_model', 'principal %s: got %s expected %s'
                             % (o, [np.asarray(x).tolist() if x is not None else None
                                    for x in got], [x.tolist() for x in exp]))
            M = 2.0 * R.dot(np.diag([-1.0] + [1.0] * (dim - 1)))
            ok, got = rec.call(site, '', UT.transform_system, default, None, others, matrix=M)
            if ok:
                exp = [M.dot(default)] + [M.dot(v) for v in others]
                if len(got) != len(exp) or not all(_close(a, b) for a, b in zip(got, exp)):
                    rec.fail(site, 'matrix_not_applied', 'matrix %s' % M.tolist())
        return _result(rec, site)
    if fnname == 'reused_buffers':
        a1, a2 = G.unit((1.0, 2.0, 2.0)), G.unit((2.0, -1.0, 2.0))
        ang = {'A': [np.array(ANG['wide'][:5])], 'B': [np.array(ANG['wide'][5:10])]}
        buffer_history(rec, 'axis_rotation_matrix',
                       {'a1': lambda b: UT.axis_rotation_matrix(a1.copy(), b[0]),
                        'a1_again': lambda b: UT.axis_rotation_matrix(tuple(a1), b[0]),
                        'a2': lambda b: UT.axis_rotation_matrix(a2.copy(), b[0])},
                       ang, [('a1', 'A'), ('a1', 'B'), ('a1', 'A'), ('a2', 'A'), ('a2', 'B'),
                             ('a1_again', 'A'), ('a1', 'B')])
        for n in (1, 2, 3):
            alph = [ANG['wide']] if n == 1 else [list(a) for a in EUL[n]]
            ms = tuple(len(a) for a in alph)
            buffer_history(rec, 'euler_matrix',
                           {'e': lambda b: UT.euler_matrix(*b)},
                           {'A': _contents(alph, _Z(ms, 4)), 'B': _contents(alph, _Z(ms, 4, 1))},
                           [('e', 'A'), ('e', 'B'), ('e', 'A')])
        for O in (O2, O3):
            vs = [np.array(v, dtype=float) for v in O.values()]
            dim = len(vs[0])
            default = (0.0, 1.0) if dim == 2 else (0.0, 0.0, 1.0)
            pairs = {'A': [vs[4], vs[5]], 'B': [vs[6], vs[2]], 'C': [vs[5], vs[4]]}
            buffer_history(rec, 'rotation_matrix_from_to[%dd]' % dim,
                           {'r': lambda b: UT.rotation_matrix_from_to(b[0], b[1])}, pairs,
                           [('r', 'A'), ('r', 'B'), ('r', 'A'), ('r', 'C')])
            buffer_history(rec, 'transform_system[%dd]' % dim,
                           {'t': lambda b: np.array(UT.transform_system(b[0], default, [b[1]])),
                            'm': lambda b: np.array(UT.transform_system(
                                default, None, [b[1]], matrix=np.outer(b[0], b[0]) + np.eye(dim)))},
                           pairs, [('t', 'A'), ('t', 'B'), ('m', 'A'), ('m', 'B'), ('t', 'A')])
            stack = {'A': [np.array(vs[:4])], 'B': [np.array(vs[4:8])]}
            buffer_history(rec, 'perpendicular_vector',
                           {'p': lambda b: UT.perpendicular_vector(b[0])}, stack,
                           [('p', 'A'), ('p', 'B'), ('p', 'A')])
            if dim == 3:
                buffer_history(rec, 'axis_rotation',
                               {'r': lambda b: UT.axis_rotation(a1.copy(), 0.7, b[0]),
                                's': lambda b: UT.axis_rotation(a1.copy(), 0.7, b[0],
                                                                axis_shift=(1.0, -0.5, 2.0))},
                               stack, [('r', 'A'), ('r', 'B'), ('s', 'B'), ('s', 'A'), ('r', 'A')])
        return _result(rec, 'reused_buffers')
    if fnname == 'perpendicular_vector':
        site = 'perpendicular_vector'
        for O in (O2, O3):
            V = np.array(list(O.values()), dtype=float)
            for arg in [v for v in V] + [V, V.reshape(2, 4, -1)]:
                ok, got = rec.call(site, '', UT.perpendicular_vector, arg.copy())
                if not ok:
                    continue
                got = np.asarray(got)
                if got.shape != arg.shape:
                    rec.fail(site, 'shape_not_documented', '%s -> %s' % (arg.shape, got.shape))
                    continue
                dots = (got * arg).sum(axis=-1)
                if np.abs(dots).max() > TOL * 13 or not np.all(np.abs(got).sum(axis=-1) > 0):
                    rec.fail(site, 'not_perpendicular', 'vec=%s -> %s' % (arg.tolist(),
                                                                               got.tolist()))
        return _result(rec, site)
    raise KeyError(fnname)


# ------------------------------------------------------------------------------------------
# factories

SPACES = {
    '2d_unit': ([-1, -1], [1, 1], (20, 20)), '2d_aniso': ([-1, -2], [1, 2], (8, 16)),
    '2d_off': ([0, -1], [2, 1], (8, 8)), '2d_small': ([-0.5, -0.5], [0.5, 0.5], (4, 4)),
    '2d_flat': ([-3, -0.5], [3, 0.5], (12, 4)),
    '3d_unit': ([-1, -1, -1], [1, 1, 1], (8, 8, 8)), '3d_tall': ([-1, -1, -2], [1, 1, 2], (8, 8, 8)),
    '3d_off': ([0, -1, 0], [2, 1, 3], (6, 6, 6)), '3d_thin': ([-2, -2, -0.25], [2, 2, 0.25], (8, 8, 2)),
    # volumes reaching farther from the rotation axis on the NEGATIVE side (the farthest xy
    # corner is then not max_pt): shifted in x, in y, in both, and with mixed signs
    '2d_negx': ([-3, -1], [1, 1], (8, 4)), '2d_negy': ([-1, -3], [1, 1], (4, 8)),
    '2d_negxy': ([-3, -2], [1, 1], (8, 6)), '2d_mixed': ([-0.5, -4], [1.5, 1], (4, 10)),
    '2d_allneg': ([-3, -2.5], [-1, -0.5], (4, 4)),
    '3d_negx': ([-3, -1, -1], [1, 1, 2], (8, 4, 6)), '3d_negy': ([-1, -3, -1], [1, 1, 1], (4, 8, 4)),
    '3d_negxy': ([-3, -2, -2], [1, 1, 1], (8, 6, 6)), '3d_mixed': ([-0.5, -4, -1], [1.5, 1, 0.5], (4, 10, 3)),
}


def _rho(space_name):
    """Radius of the smallest cylinder around the rotation axis containing the volume
    (harness side: farthest xy corner)."""
    lo, hi, _ = SPACES[space_name]
    return max(math.hypot(x, y) for x in (lo[0], hi[0]) for y in (lo[1], hi[1]))


def run_factory(cfg):
    rec = Rec()
    rec.ctx = _cfg_str(cfg)
    lo, hi, shp = SPACES[cfg['space']]
    space = odl.uniform_discr(lo, hi, shp)
    three_d = len(shp) == 3
    fac = cfg['factory']
    kw = {}
    if cfg.get('num_angles'):
        kw['num_angles'] = cfg['num_angles']
    if cfg.get('det_shape'):
        kw['det_shape'] = [cfg['det_shape']] * (2 if three_d else 1) if three_d \
            else cfg['det_shape']
    site = fac
    if fac == 'parallel_beam_geometry':
        make = lambda: odl.tomo.parallel_beam_geometry(space, **kw)     # noqa
    elif fac == 'cone_beam_geometry':
        rs, rd = cfg['radii']
        if cfg.get('short_scan'):
            kw['short_scan'] = True
        site = 'cone_beam_geometry[%s]' % ('3d' if three_d else '2d')
        make = lambda: odl.tomo.cone_beam_geometry(space, rs, rd, **kw)     # noqa
    else:
        rs, rd = cfg['radii']
        make = lambda: odl.tomo.helical_geometry(space, rs, rd, cfg['num_turns'],    # noqa
                                                 n_pi=cfg.get('n_pi', 1), **kw)
    ok, g = rec.call(site, '', make)
    if not ok:
        return _result(rec, site + ':unbuildable')
    # the factories document the class, zero-centred detector and default orientation
    want = {'parallel_beam_geometry': ('Parallel3dAxisGeometry', 'Parallel2dGeometry'),
            'cone_beam_geometry': ('ConeBeamGeometry', 'FanBeamGeometry'),
            'helical_geometry': ('ConeBeamGeometry', None)}[fac][0 if three_d else 1]
    if type(g).__name__ != want:
        rec.fail(site, 'wrong_class', '%s instead of %s' % (type(g).__name__, want))
        return _result(rec, site)
    try:
        angles = np.asarray(g.angles, dtype=float)
        dmin = np.atleast_1d(np.asarray(g.det_params.min_pt, dtype=float))
        dmax = np.atleast_1d(np.asarray(g.det_params.max_pt, dtype=float))
        pitch = float(getattr(g, 'pitch', 0.0))
        offset = float(getattr(g, 'offset_along_axis', 0.0))
    except Exception as e:               # noqa
        rec.fail(site, 'raises:%s' % type(e).__name__, repr(e))
        return _result(rec, site)
    # model of the default configuration of the documented class
    if three_d:
        det = G.Flat2d(((1, 0, 0), (0, 0, 1)))
    else:
        det = G.Flat1d((1, 0))
    if fac == 'parallel_beam_geometry':
        model = G.GeomModel(3 if three_d else 2, 'parallel', 'axis' if three_d else '2d', det,
                            axis=(0, 0, 1) if three_d else None,
                            p=(0, 1, 0) if three_d else (0, 1))
    else:
        model = G.GeomModel(3 if three_d else 2, 'divergent', 'axis' if three_d else '2d', det,
                            axis=(0, 0, 1) if three_d else None,
                            s=(0, 1, 0) if three_d else (0, 1), src_radius=rs, det_radius=rd,
                            pitch=pitch, offset=offset)
    # the returned geometry is that default configuration (checked at 3 grid angles)
    _observe(rec, g, model, angles[[0, len(angles) // 2, -1]], 0.5 * (dmin + dmax), site,
             'not_the_documented_default_geometry', 'factory result', False)
    # slices of the factory result (helical: non-zero offset_along_axis and pitch) keep the
    # parent's trajectory and detector points at the selected angles
    if len(angles) >= 4:
        for sname, idx in (('1:4', slice(1, 4)), ('::3', slice(None, None, 3))):
            rec.evals += 1
            try:
                sub = g[idx]
                sub_angles = np.asarray(sub.angles, dtype=float)
                smid = np.atleast_1d(np.asarray(sub.det_params.mid_pt, dtype=float))
            except Exception as e:           # noqa
                rec.fail('%s.__getitem__' % type(g).__name__, 'raises:%s' % type(e).__name__,
                         '%s result [%s] -> %r' % (fac, sname, e))
                continue
            if sub_angles.shape != angles[idx].shape or not _close(sub_angles, angles[idx]):
                rec.fail('%s.__getitem__' % type(g).__name__, 'slice_partition_differs',
                         '%s result [%s]: angles %s' % (fac, sname, sub_angles.tolist()[:5]))
                continue
            _observe(rec, sub, model, sub_angles[:6], smid, '%s.__getitem__' % type(g).__name__,
                     'slice_detector_points_differ_from_parent',
                     '%s result [%s]' % (fac, sname), False)
    # "its size is chosen such that the whole space is covered with lines": every corner of the
    # volume must be hit by a ray that ends inside the detector, at every angle of the grid
    corners = np.array(list(itertools.product(*zip(lo, hi))), dtype=float)
    worst = {}
    seen = np.zeros(len(corners), dtype=bool)
    for a in angles:
        for ci, c in enumerate(corners):
            u = G.project_on_flat_detector(model, (float(a),), c)
            rec.evals += 1
            excess = np.maximum(dmin - u, u - dmax) / (dmax - dmin)
            if fac == 'helical_geometry':
                # axially the detector is a Tam-Danielsson window: a point is seen for part of
                # the turn only; demand fan coverage always and full visibility at least once
                seen[ci] |= bool(np.all(excess <= 1e-9))
                excess = excess[:1]
            for k, ex in enumerate(excess):
                if ex > 1e-9 and (k not in worst or ex > worst[k][0]):
                    worst[k] = (float(ex), float(a), c.tolist(), u.tolist())
    for k in sorted(worst):
        sym = 'volume_corner_outside_detector_%s' % ('width', 'height')[k]
        rec.fail(site, sym, 'corner %s at angle %.6g projects to detector parameter %s, '
                 'detector range %s..%s' % (worst[k][2], worst[k][1], worst[k][3], dmin.tolist(),
                                            dmax.tolist()))
    # The same clause at the angles of the (continuous) motion range at which a corner lies
    # ABEAM, i.e. in the plane through the rotation axis parallel to the detector: there it is
    # magnified by exactly (rs + rd) / rs (parallel: 1).  These angles are in general not grid
    # angles; the geometry is defined on the whole interval ``motion_params``, and "the source
    # must be outside the volume for all rotations".  Needs less than coverage at the worst
    # angle, hence a separate symptom: a recorded shortfall at the worst angle must not
    # absorb a detector that is too small even here.
    try:
        amin = float(g.motion_params.min_pt)
        amax = float(g.motion_params.max_pt)
    except Exception as e:               # noqa
        rec.fail(site, 'raises:%s' % type(e).__name__, 'motion_params -> %r' % (e,))
        amin, amax = 0.0, -1.0
    worst = {}
    for c in corners:
        if math.hypot(c[0], c[1]) == 0.0:
            continue
        beta = math.atan2(c[1], c[0]) % math.pi
        k = 0
        while beta + k * math.pi <= amax:
            a = beta + k * math.pi
            k += 1
            if a < amin:
                continue
            u = G.project_on_flat_detector(model, (a,), c)
            rec.evals += 1
            excess = np.maximum(dmin - u, u - dmax) / (dmax - dmin)
            if fac == 'helical_geometry':
                excess = excess[:1]
            for j, ex in enumerate(excess):
                if ex > 1e-9 and (j not in worst or ex > worst[j][0]):
                    worst[j] = (float(ex), a, c.tolist(), u.tolist())
    for j in sorted(worst):
        sym = 'abeam_volume_corner_outside_detector_%s' % ('width', 'height')[j]
        rec.fail(site, sym, 'corner %s at angle %.12g (in the plane through the axis parallel '
                 'to the detector) projects to detector parameter %s, detector range %s..%s'
                 % (worst[j][2], worst[j][1], worst[j][3], dmin.tolist(), dmax.tolist()))
    if fac == 'helical_geometry' and not cfg.get('num_angles') and not np.all(seen):
        rec.fail(site, 'volume_corner_never_seen', 'corners %s are inside the detector window '
                 'at no angle of the grid' % corners[~seen].tolist())
    return _result(rec, site)


# ------------------------------------------------------------------------------------------
# the bounded space

def _deviations(dims, k):
    """All assignments with at most k dimensions away from their default (first) value,
    ordered by number of deviations (simplest first)."""
    names = [n for n, _ in dims]
    base = dict((n, v[0]) for n, v in dims)
    out = [dict(base)]
    for r in range(1, k + 1):
        for combo in itertools.combinations(range(len(dims)), r):
            alts = [dims[i][1][1:] for i in combo]
            for vals in itertools.product(*alts):
                c = dict(base)
                for i, v in zip(combo, vals):
                    c[names[i]] = v
                out.append(c)
    return out


def _geom_dims(cls, tier):
    o3, o2 = list(O3), list(O2)
    common = [('transl', [0, 1]), ('arr', [0, 1]), ('cb', [1, 0])]
    if cls == 'Parallel2d':
        return [('orient', o2 + ['zero']), ('init', ['default', 'axes', 'matrix', 'matrix_scaled',
                                          'matrix_mirror']),
                ('arange', ['std', 'wide'])] + common
    if cls == 'Parallel3dAxis':
        return [('orient', o3 + list(NEAR_UNIT)),
                ('init', ['default', 'pos', 'axes', 'both', 'matrix', 'matrix_scaled',
                          'matrix_mirror', 'matrix_round']),
                ('arange', ['std', 'wide'])] + common
    if cls == 'Parallel3dEuler':
        o3e = ['y', '-y'] + [o for o in o3 if o != 'y']
        return [('orient', o3e), ('nang', [2, 3]),
                ('init', ['default', 'axes', 'matrix', 'matrix_scaled', 'matrix_mirror'])] + common
    if cls == 'FanBeam':
        return [('orient', o2), ('init', ['default', 'axes', 'matrix', 'matrix_mirror']),
                ('radii', [list(r) for r in RADII]), ('curv', [None, 'circ']),
                ('shift', ['none', 'src', 'det', 'both']), ('arange', ['std', 'wide'])] + common
    return [('orient', o3 + list(NEAR_UNIT)),
            ('init', ['default', 'pos', 'axes', 'both', 'matrix', 'matrix_mirror', 'matrix_round']),
            ('radii', [list(r) for r in RADII]), ('curv', [None, 'cyl', 'cylinf', 'sph']),
            ('pitch', [list(p) for p in PITCH]), ('shift', ['none', 'src', 'det', 'both']),
            ('arange', ['std', 'wide'])] + common





def configs(tier):
    thorough = tier == 'thorough'
    k = 3 if thorough else 2
    cfgs = []
    # utility functions
    for n in (1, 2, 3):
        cfgs.append({'kind': 'util', 'fn': 'euler_matrix', 'n': n})
    for o in O3_Q:
        cfgs.append({'kind': 'util', 'fn': 'axis_rotation_matrix', 'orient': o})
    for dim, O in ((2, O2_Q), (3, O3_Q)):
        for frm in O:
            cfgs.append({'kind': 'util', 'fn': 'rotation_matrix_from_to', 'dim': dim, 'frm': frm})
        cfgs.append({'kind': 'util', 'fn': 'transform_system', 'dim': dim})
    cfgs.append({'kind': 'util', 'fn': 'perpendicular_vector'})
    cfgs.append({'kind': 'util', 'fn': 'reused_buffers'})
    # detectors
    for cb in (1, 0):
        for ax in O2_Q:
            cfgs.append({'kind': 'det', 'cls': 'Flat1d', 'axes': ax, 'cb': cb})
            for r in (3.0, 0.5):
                cfgs.append({'kind': 'det', 'cls': 'Circular', 'axes': ax, 'radius': r, 'cb': cb})
        for ax in DET_AXES3:
            cfgs.append({'kind': 'det', 'cls': 'Flat2d', 'axes': ax, 'cb': cb})
            if ax == 'nonorth':
                continue          # "The vectors must ... be perpendicular" (curved detectors)
            for r in (3.0, 0.5):
                for c in ('Cylindrical', 'Spherical'):
                    cfgs.append({'kind': 'det', 'cls': c, 'axes': ax, 'radius': r, 'cb': cb})
    # geometries: at most k deviations from the default configuration of each class
    seen = set()
    per_level = {}
    for cls in ('Parallel2d', 'FanBeam', 'Parallel3dAxis', 'ConeBeam', 'Parallel3dEuler'):
        dims = _geom_dims(cls, tier)
        base = dict((n, v[0]) for n, v in dims)
        for c in _deviations(dims, k):
            if c['init'].startswith('matrix') and c['arr']:
                continue                       # frommatrix takes no separate vectors
            if c['init'] == 'matrix_round' and c.get('curv') is not None:
                continue      # curved detectors: "The vectors must ... be perpendicular"
            if not thorough:
                ndev = sum(1 for n in base if c[n] != base[n])
                special = any((tuple(c[n]) if isinstance(c[n], list) else c[n]) in vals
                              for n, vals in SINGLE_ONLY.items() if n in c)
                if special and ndev > 1:
                    continue
            c = dict(c, kind='geom', cls=cls)
            if not thorough and IS3D[cls]:
                c['scal'] = 'half'
                if cls == 'Parallel3dEuler':
                    c['ealph'] = 'small'
            key = repr(sorted(c.items()))
            if key not in seen:
                seen.add(key)
                cfgs.append(c)
    # factories
    for sp in SPACES:
        three_d = sp.startswith('3d')
        for na, dsh in ((None, None), (5, None), (None, 7)) if thorough else ((None, None), (5, 7)):
            cfgs.append({'kind': 'factory', 'factory': 'parallel_beam_geometry', 'space': sp,
                         'num_angles': na, 'det_shape': dsh})
            for radii in ([5.0, 5.0], [3.5, 9.0], [20.0, 0.0], [4.0, 1.0])[:4 if thorough else 2]:
                if radii[0] <= 1.02 * _rho(sp):
                    # "src_radius ... Must be larger than the radius of the smallest vertical
                    # cylinder containing space.domain" (clean ValueError otherwise)
                    radii = [round(1.5 * _rho(sp), 3), radii[1]]
                for short in (0, 1):
                    cfgs.append({'kind': 'factory', 'factory': 'cone_beam_geometry', 'space': sp,
                                 'radii': radii, 'short_scan': short, 'num_angles': na,
                                 'det_shape': dsh})
                if three_d:
                    for turns in (1, 3, 0.5):
                        for n_pi in (1, 3):
                            cfgs.append({'kind': 'factory', 'factory': 'helical_geometry',
                                         'space': sp, 'radii': radii, 'num_turns': turns,
                                         'n_pi': n_pi, 'num_angles': na, 'det_shape': dsh})
    return cfgs


def run(cfg):
    kind = cfg['kind']
    if kind == 'geom':
        return run_geom(cfg)
    if kind == 'det':
        return run_det(cfg)
    if kind == 'util':
        return run_util(cfg)
    if kind == 'factory':
        return run_factory(cfg)
    raise KeyError(kind)


def trace_functions():
    from odl.tomo.backends import astra_setup as AS
    from odl.tomo.geometry import geometry as GE, parallel as PA, conebeam as CB
    fs = [UT.euler_matrix, UT.axis_rotation_matrix, UT.rotation_matrix_from_to,
          UT.transform_system, UT.perpendicular_vector, UT.axis_rotation,
          GE.Geometry.det_point_position, GE.DivergentBeamGeometry.det_to_src,
          GE.AxisOrientedGeometry.rotation_matrix,
          PA.ParallelBeamGeometry.det_refpoint, PA.ParallelBeamGeometry.det_to_src,
          PA.Parallel2dGeometry.rotation_matrix, PA.Parallel3dEulerGeometry.rotation_matrix,
          CB.FanBeamGeometry.src_position, CB.FanBeamGeometry.det_refpoint,
          CB.FanBeamGeometry.rotation_matrix,
          CB.ConeBeamGeometry.src_position, CB.ConeBeamGeometry.det_refpoint,
          AS.astra_conebeam_3d_geom_to_vec, AS.astra_conebeam_2d_geom_to_vec,
          AS.astra_parallel_3d_geom_to_vec]
    for c in (DET.Flat1dDetector, DET.Flat2dDetector, DET.CircularDetector,
              DET.CylindricalDetector, DET.SphericalDetector):
        fs += [c.surface, c.surface_deriv]
    fs += [DET.Detector.surface_normal, DET.Detector.surface_measure,
           DET.CircularDetector.surface_measure]
    return fs


def meta(tier):
    k = 3 if tier == 'thorough' else 2
    return {
        'rule': 'one state = one geometry / detector / utility function / factory call; geometry '
                'states are ALL configurations with at most %d deviations from the class default; '
                'inside a state every point of the parameter alphabet is evaluated singly and '
                'through every calling convention and compared entry by entry with the rigid-'
                'motion reference model (decision for the alphabet by small scope; parameters '
                'enter only through sin/cos and affine maps). distinct = class x detector x '
                'construction route x set of failed clauses x executed-line signature' % k,
        'bounds': {'deviations': k, 'orientations_3d': O3, 'orientations_2d': O2,
                   'angles': ANG, 'euler_alphabets': {str(n): EUL[n] for n in EUL},
                   'detector_parameters': D2, 'radii': RADII, 'pitch_offset': PITCH,
                   'curvature_radius': CURV_R, 'translation': [T2, T3],
                   'slices': [s for s, _ in SLICES], 'spaces': SPACES,
                   'calling_conventions': [c[0] for c in joint_conventions((12,), (5, 5))]},
        'assumptions': [
            'tolerance 1e-12 * (1 + max|expected|)',
            'source/detector shift functions are exercised with scalar and 1-d angle arrays '
            'only (odl.tomo.flying_focal_spot asserts angle.ndim == 1); n-d conventions are '
            'counted as unspecified there',
            'astra is not installed: only astra_*_geom_to_vec (pure NumPy) are reached, judged '
            'up to one global orthogonal map (equal Gram matrices); astra_volume_geometry, '
            'astra_projection_geometry, astra_data/projector/algorithm need astra',
            'helical_geometry: axial coverage is a Tam-Danielsson window by design, so only fan '
            '(width) coverage at every angle and visibility of each corner at some angle are '
            'demanded',
            'surface_normal / curved surface_deriv with broadcasting inside the parameter pair: '
            'documented shapes are self-contradictory, counted as unspecified',
            'report keys are per documented clause, so that a recorded finding cannot absorb a '
            'different defect of the same function: curved detectors additionally report '
            'does_not_cross_origin / intrinsic_shape_differs / height_along_axes1_differs; '
            'slices are compared with the parent object itself (slice_detector_points_differ_'
            'from_parent) and inherit the key of a misplaced parent detector only in states '
            'that carry that finding; factories are additionally judged at the abeam angles of '
            'the continuous motion range (magnification exactly (rs+rd)/rs)',
        ],
    }


def summarize(results):
    kinds = {}
    for cfg, r in results:
        key = cfg['kind'] if cfg['kind'] != 'geom' else 'geom:' + cfg['cls']
        kinds[key] = kinds.get(key, 0) + 1
    return {'states_by_kind': kinds}
