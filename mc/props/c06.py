"""C06 - derivative(x) is the Frechet derivative of the operator at x.

K-part: every registry instance that provides a derivative (class x option set) x admissible base
points.  P-part: expression trees (BFS depth 1 and 2; thorough: depth 2 over the full pool) over
nonlinear leaves {x^2, x^3, sin, exp, affine, constant} and linear leaves {matrix, multiply,
scaling}, combined with sum, composition, left/right scalar and vector multiples, pointwise
product and the variants of OperatorSum / OperatorComp / OperatorRightScalarMult built WITH their
optional temporaries; block operators over all leaf pairs.

Decision for ALL directions: D = op.derivative(x) must be linear from op.domain to op.range and
its action on every real basis direction (e_k, and i e_k on complex spaces: the documented
"C = R^2" sense) must equal the central difference (op(x+h e) - op(x-h e)) / 2h, twice
Richardson-extrapolated over h = 2^-6, 2^-9, 2^-12 (removes the h^2 and h^4 terms; operators that
are polynomial of degree <= 2 are exact at every h).  Linear operators must be their own
derivative, affine ones have the derivative of their linear part (both covered by the same test,
with zero truncation error).
"""
import itertools

import numpy as np
import odl

from mc import spaces as S
from mc.registry import operators as OR

PROPERTY = 'C06'
BUDGET = {'quick': 1500, 'thorough': 5400}
H = [2.0 ** -6, 2.0 ** -9, 2.0 ** -12]
MAXDIM = 40

NL = ['P2', 'P3', 'sin', 'exp', 'Aff', 'C']
LIN = ['A', 'M', 'S2']


def configs(tier):
    thorough = tier == 'thorough'
    cfgs = []
    for spec in OR.SPECS:
        for i in range(len(spec.opts)):
            c = {'kind': 'inst', 'spec': spec.name, 'i': i, 'npts': 3 if not thorough else 5}
            if spec.exempt_deriv:
                # accuracy is exempt by the property text; the history clauses are not
                c['exempt'] = 1
            cfgs.append(c)
    for space in (('rn3', 'ud3', 'rn3wa') if not thorough else ('rn3', 'ud3', 'rn3wa', 'rn3w2')):
        n1 = len(_d1(space)[1])
        for j in range(n1):
            cfgs.append({'kind': 'expr', 'space': space, 'j': j})
            if thorough or space != 'ud3':
                cfgs.append({'kind': 'expr2', 'space': space, 'j': j, 'deep': thorough})
    for j in range(len(_BLOCKS)):
        for space in ('rn2', 'ud2'):
            cfgs.append({'kind': 'block', 'space': space, 'j': j})
    return cfgs


# ------------------------------------------------------------------------------------------
# expression pool

def _leaves(space):
    sp = OR._sp(space)
    names = NL + LIN
    w = S.weights(sp)
    if not np.all(w == w[0]):
        # MatrixOperator on non-uniformly weighted spaces has a wrong adjoint (C05 finding), which
        # enters chain rules through gradients; it is covered by its own registry entry
        names = [n for n in names if n != 'A']
    return sp, [(n, OR._leaf(n, sp)) for n in names]


def _unary(sp):
    v = OR.el(sp, 2)
    f = odl.InnerProductOperator(OR.el(sp, 1))
    nrm = odl.solvers.L2NormSquared(sp)
    return [
        ('2*X', lambda X: 2.0 * X), ('X*2', lambda X: X * 2.0), ('X*-0.5', lambda X: X * (-0.5)),
        ('v*X', lambda X: v * X), ('X*v', lambda X: X * v), ('-X', lambda X: -X),
        ('X+v', lambda X: X + v), ('X/2', lambda X: X / 2.0), ('X**2', lambda X: X ** 2),
        ('RightScalarMult(X,2,tmp)', lambda X: odl.OperatorRightScalarMult(X, 2.0, sp.element())),
        ('FunctionalLeftVectorMult(f*X)', lambda X: odl.FunctionalLeftVectorMult(f * X, v)),
        ('FunctionalLeftVectorMult(L2sq*X)', lambda X: odl.FunctionalLeftVectorMult(nrm * X, v)),
    ]


def _binary(sp):
    return [
        ('X+Y', lambda X, Y: X + Y), ('X-Y', lambda X, Y: X - Y), ('X*Y', lambda X, Y: X * Y),
        ('PointwiseProduct(X,Y)', lambda X, Y: odl.OperatorPointwiseProduct(X, Y)),
        ('OperatorSum(X,Y,tmp,tmp)', lambda X, Y: odl.OperatorSum(X, Y, sp.element(), sp.element())),
        ('OperatorComp(X,Y,tmp)', lambda X, Y: odl.OperatorComp(X, Y, sp.element())),
    ]


def _depth1(space):
    sp, leaves = _leaves(space)
    out = []
    for (n, X) in leaves:
        out.append((n, (lambda X: (lambda: X))(X)))
    for (un, u) in _unary(sp):
        for (n, X) in leaves:
            out.append(('(%s)[X=%s]' % (un, n), (lambda u, X: (lambda: u(X)))(u, X)))
    for (bn, b) in _binary(sp):
        for (n, X), (m, Y) in itertools.product(leaves, repeat=2):
            out.append(('(%s)[X=%s,Y=%s]' % (bn, n, m),
                        (lambda b, X, Y: (lambda: b(X, Y)))(b, X, Y)))
    return sp, out


_D1 = {}


def _d1(space):
    if space not in _D1:
        _D1[space] = _depth1(space)
    return _D1[space]


_BLOCKS = [
    ('ProductSpaceOperator[[X,None],[Y,X]]', lambda X, Y: odl.ProductSpaceOperator([[X, None], [Y, X]])),
    ('ProductSpaceOperator[[X,Y]]', lambda X, Y: odl.ProductSpaceOperator([[X, Y]])),
    ('BroadcastOperator(X,Y)', lambda X, Y: odl.BroadcastOperator(X, Y)),
    ('ReductionOperator(X,Y)', lambda X, Y: odl.ReductionOperator(X, Y)),
    ('DiagonalOperator(X,Y)', lambda X, Y: odl.DiagonalOperator(X, Y)),
    ('ReductionOperator(X,Y)*BroadcastOperator(Y,X)',
     lambda X, Y: odl.ReductionOperator(X, Y) * odl.BroadcastOperator(Y, X)),
    ('X*ReductionOperator(X,Y)', lambda X, Y: X * odl.ReductionOperator(X, Y)),
    ('DiagonalOperator(X,Y)*BroadcastOperator(Y,X)',
     lambda X, Y: odl.DiagonalOperator(X, Y) * odl.BroadcastOperator(Y, X)),
]


# ------------------------------------------------------------------------------------------

def _rc(space, y):
    return S.real_coords(space, S.to_flat(y))


def _dirs(space):
    return S.basis(space)


def _same(a, b):
    return a.shape == b.shape and bool(np.all((np.abs(a - b) <= 1e-12 * (1.0 + np.abs(b)))
                                              | (np.isnan(a) & np.isnan(b))))


def check_derivative(op, pts, site, first, stats, judge=True, tiny=False):
    dom, ran = op.domain, op.range
    n = S.flat_size(dom)
    if n > MAXDIM or S.flat_size(ran) > MAXDIM * 2:
        stats['skipped'] += 1
        return
    if S.dtype_of(dom).kind not in 'fc' or S.dtype_of(ran).kind not in 'fc':
        stats['skipped'] += 1
        return
    single = any(S.dtype_of(s) in (np.dtype('float32'), np.dtype('complex64'))
                 for s in (dom, ran))
    dirs = _dirs(dom)
    xobj = None
    # history (H2): a derivative taken at a PRIVATE copy of the first base point, which nobody
    # modifies; it must act the same after every later call of op, op.derivative and D
    held = None
    try:
        xpriv = S.from_flat(dom, pts[0])
        Dp = op.derivative(xpriv)
        held = (Dp, xpriv, [_rc(ran, Dp(S.from_flat(dom, e))) for e in dirs[:2]])
    except Exception:
        held = None
    for p in pts:
        try:
            # history: after the first base point the SAME element object is modified in place and
            # handed to derivative() again (a derivative must not remember the old contents of x)
            if xobj is not None and not S.is_field(dom):
                xobj.assign(S.from_flat(dom, p))
                x = xobj
            else:
                x = S.from_flat(dom, p)
                xobj = x
            fx = op(x)
            fxr = _rc(ran, fx)
        except NotImplementedError:
            stats['skipped'] += 1
            return
        except Exception:
            stats['skipped'] += 1     # the plain call is judged by C03
            continue
        if not np.all(np.isfinite(fxr)):
            stats['skipped'] += 1
            continue
        try:
            D = op.derivative(x)
        except (NotImplementedError, odl.OpNotImplementedError):
            stats['noderiv'] += 1
            return
        except ValueError as e:
            if 'not differentiable' in str(e):
                stats['skipped'] += 1      # documented non-differentiable point (refused cleanly)
                continue
            first.setdefault((site, 'derivative_raises:ValueError'),
                             'x=%s: %r' % (np.asarray(p).tolist(), e))
            stats['evals'] += 1
            continue
        except Exception as e:
            first.setdefault((site, 'derivative_raises:' + type(e).__name__),
                             'x=%s: %r' % (np.asarray(p).tolist(), e))
            stats['evals'] += 1
            continue
        stats['evals'] += 1
        if not isinstance(D, odl.Operator):
            first.setdefault((site, 'derivative_is_not_an_operator'), repr(D)[:200])
            continue
        if D.domain != dom or D.range != ran:
            first.setdefault((site, 'derivative_domain_range_mismatch'),
                             'op: %r -> %r, derivative: %r -> %r' % (dom, ran, D.domain, D.range))
            continue
        if not D.is_linear:
            first.setdefault((site, 'derivative_not_flagged_linear'), 'x=%s' % np.asarray(p).tolist())
        scale = 1.0 + np.abs(fxr).max()
        bad = None
        for k, e in enumerate(dirs):
            try:
                de = _rc(ran, D(S.from_flat(dom, e)))
                if k < 2:
                    # history (H1): the same derivative object applied to the same direction again
                    de2 = _rc(ran, D(S.from_flat(dom, e)))
                    stats['evals'] += 1
                    if not _same(de2, de):
                        first.setdefault((site, 'derivative_application_not_repeatable'),
                                         'x=%s direction %d: derivative(x)(e) = %s at first, %s when '
                                         'the same object is applied to e again'
                                         % (np.asarray(p).tolist(), k, de.tolist(), de2.tolist()))
            except Exception as ex:
                first.setdefault((site, 'derivative_call_raises:' + type(ex).__name__),
                                 'x=%s direction %d: %r' % (np.asarray(p).tolist(), k, ex))
                break
            if not judge:
                continue
            ds = []
            ok = True
            for h in H:
                try:
                    a = _rc(ran, op(S.from_flat(dom, p + h * e)))
                    b = _rc(ran, op(S.from_flat(dom, p - h * e)))
                except Exception:
                    ok = False
                    break
                ds.append((a - b) / (2 * h))
            stats['evals'] += 7
            if not ok or not all(np.all(np.isfinite(d)) for d in ds):
                stats['skipped'] += 1
                continue
            ra, rb = (64.0 * ds[1] - ds[0]) / 63.0, (64.0 * ds[2] - ds[1]) / 63.0
            rich = (4096.0 * rb - ra) / 4095.0
            tol = 2e-7 * (scale + np.abs(rich).max()) + 1e-12 * scale / H[2]
            if not single and np.abs(rb - ra).max() > 1e-5 * (scale + np.abs(rich).max()):
                # the difference quotients have not converged on this h-grid (a kink of the
                # second derivative at x, or derivatives too large): undecided, not judged
                stats['skipped'] += 1
                continue
            if single:
                # single precision: rounding floor eps*scale/h dominates; use the coarsest h only
                rich = ds[0]
                tol = 2e-2 * (scale + np.abs(rich).max())
            err = np.abs(de - rich).max()
            if err > tol:
                bad = (k, de, rich, ds)
                break
        if bad is not None:
            k, de, rich, ds = bad
            first.setdefault((site, 'derivative_differs_from_central_difference'),
                             'x=%s direction %d: derivative(x)(e)=%s, central differences give %s '
                             '(h=2^-6: %s, h=2^-12: %s)'
                             % (np.asarray(p).tolist(), k, np.round(de, 10).tolist(),
                                np.round(rich, 10).tolist(), np.round(ds[0], 8).tolist(),
                                np.round(ds[2], 8).tolist()))
    # memory layout of the base point: the derivative at x wrapping a Fortran-ordered array, applied
    # to Fortran-ordered directions, against the same derivative with C-ordered data
    if judge and S.has_layout(dom) and not S.is_field(ran):
        try:
            p0 = pts[0]
            Dc = op.derivative(S.from_flat(dom, p0))
            Df = op.derivative(S.from_flat_F(dom, p0))
            for k, e in enumerate(dirs):
                a = _rc(ran, Dc(S.from_flat(dom, e)))
                b = _rc(ran, Df(S.from_flat_F(dom, e)))
                stats['evals'] += 2
                if a.shape != b.shape or np.abs(a - b).max() > 1e-12 * (1 + np.abs(a).max()):
                    first.setdefault((site, 'derivative_depends_on_memory_layout_of_its_arguments'),
                                     'x=%s direction %d: derivative(x)(e)=%s with C-ordered x and e, %s '
                                     'with the same x and e wrapping Fortran-ordered arrays'
                                     % (np.asarray(p0).tolist(), k, np.round(a, 10).tolist(),
                                        np.round(b, 10).tolist()))
                    break
        except Exception as ex:
            first.setdefault((site, 'derivative_with_fortran_ordered_arguments_raises:'
                              + type(ex).__name__), repr(ex)[:300])
    # magnitude regime: the first two base points scaled by 2^-30, steps scaled alike.  Exact tests
    # inside a derivative ("norm == 0") must not be tolerance-based ones.  Judged only where the
    # three difference quotients agree with each other to 1e-8 (at these steps the truncation
    # error of a smooth map is far below round-off, so disagreement means that op itself is not
    # accurate enough at this scale, or a kink was crossed - undecided).
    if judge and tiny and not single and not S.is_field(dom):
        sc = 2.0 ** -30
        for p0 in pts[:2]:
            p = sc * np.asarray(p0)
            try:
                x = S.from_flat(dom, p)
                D = op.derivative(x)
                if not isinstance(D, odl.Operator) or D.domain != dom or D.range != ran:
                    continue
            except Exception:
                stats['skipped'] += 1
                continue
            for k, e in enumerate(dirs):
                try:
                    de = _rc(ran, D(S.from_flat(dom, e)))
                    ds = [(_rc(ran, op(S.from_flat(dom, p + sc * h * e)))
                           - _rc(ran, op(S.from_flat(dom, p - sc * h * e)))) / (2 * sc * h)
                          for h in H]
                except Exception:
                    stats['skipped'] += 1
                    break
                stats['evals'] += 7
                if not all(np.all(np.isfinite(d)) for d in ds) or not np.all(np.isfinite(de)):
                    stats['skipped'] += 1
                    continue
                mag = 1.0 + np.abs(ds[0]).max()
                if max(np.abs(ds[1] - ds[0]).max(), np.abs(ds[2] - ds[0]).max()) > 1e-8 * mag:
                    stats['skipped'] += 1
                    continue
                if np.abs(de - ds[0]).max() > 1e-6 * mag:
                    first.setdefault((site, 'derivative_differs_from_central_difference'),
                                     'x=%s (tiny magnitude) direction %d: derivative(x)(e)=%s, central '
                                     'differences with steps 2^-30 * (2^-6, 2^-9, 2^-12) all give %s'
                                     % (p.tolist(), k, np.round(de, 10).tolist(),
                                        np.round(ds[0], 10).tolist()))
                    break
    if held is not None:
        Dp, xpriv, v0 = held
        try:
            if not S.is_field(dom) and not S.is_field(ran):
                # one in-place evaluation at another point (what solvers do between two uses)
                op(S.from_flat(dom, pts[-1]), out=ran.element())
            v1 = [_rc(ran, Dp(S.from_flat(dom, e))) for e in dirs[:2]]
            stats['evals'] += 2
            if np.array_equal(S.to_flat(xpriv), S.to_flat(S.from_flat(dom, pts[0]))):
                for k, (a, b) in enumerate(zip(v1, v0)):
                    if not _same(a, b):
                        first.setdefault((site, 'earlier_derivative_changed_by_later_calls'),
                                         'D = op.derivative(x0) with x0 = %s (never modified): D(e_%d) '
                                         '= %s at first, %s after op and op.derivative were used at '
                                         'other points' % (np.asarray(pts[0]).tolist(), k, b.tolist(),
                                                           a.tolist()))
                        break
        except Exception:
            pass


def run(cfg):
    stats = {'evals': 0, 'skipped': 0, 'noderiv': 0}
    first = {}
    sigs = []
    k = cfg['kind']
    if k == 'inst':
        spec = OR.BY_NAME[cfg['spec']]
        o = spec.opts[cfg['i']]
        try:
            op = spec.build(o)
        except Exception:
            return {'evals': 0, 'skipped': 1, 'trivial': True, 'sig': 'unbuildable'}
        from mc.props.c03 import _optstr
        site = '%s[%s]' % (spec.name, _optstr(o))
        dk = o.get('dk', spec.dk)
        pts = OR.points(op.domain, dk, cfg['npts'])
        check_derivative(op, pts, site, first, stats, judge=not cfg.get('exempt'), tiny=True)
        sigs.append('%s:%s%s' % (type(op).__name__, 'lin' if op.is_linear else 'nonlin',
                                 ':history-only' if cfg.get('exempt') else ''))
    elif k == 'expr':
        sp, pool = _d1(cfg['space'])
        name, mk = pool[cfg['j']]
        _run_expr(name, mk, cfg['space'], first, stats, sigs)
    elif k == 'expr2':
        sp, pool = _d1(cfg['space'])
        name, mk = pool[cfg['j']]
        try:
            X = mk()
        except Exception:
            X = None
        if X is not None and isinstance(X, odl.Operator) and X.range == sp and X.domain == sp:
            _, leaves = _leaves(cfg['space'])
            for (un, u) in _unary(sp):
                _run_expr('(%s)[X=%s]' % (un, name), (lambda u: (lambda: u(X)))(u), cfg['space'],
                          first, stats, sigs)
            others = leaves if cfg.get('deep') else [l for l in leaves if l[0] in ('P2', 'sin', 'A')]
            for (bn, b) in _binary(sp):
                for (m, Y) in others:
                    _run_expr('(%s)[X=%s,Y=%s]' % (bn, name, m),
                              (lambda b, Y: (lambda: b(X, Y)))(b, Y), cfg['space'], first, stats,
                              sigs)
                    _run_expr('(%s)[X=%s,Y=%s]' % (bn, m, name),
                              (lambda b, Y: (lambda: b(Y, X)))(b, Y), cfg['space'], first, stats,
                              sigs)
    elif k == 'block':
        sp, leaves = _leaves(cfg['space'])
        bname, b = _BLOCKS[cfg['j']]
        for (n, X), (m, Y) in itertools.product(leaves, repeat=2):
            _run_expr('%s[X=%s,Y=%s]' % (bname, n, m), (lambda X, Y: (lambda: b(X, Y)))(X, Y),
                      cfg['space'], first, stats, sigs)
    viol = [{'site': s, 'symptom': sym, 'detail': d} for (s, sym), d in first.items()]
    return {'evals': stats['evals'], 'viol': viol, 'skipped': stats['skipped'],
            'sig': sorted(set(sigs)) or ['none'], 'trivial': stats['evals'] == 0}


def _run_expr(name, mk, space, first, stats, sigs):
    try:
        op = mk()
    except Exception:
        stats['skipped'] += 1
        return
    if not isinstance(op, odl.Operator):
        return
    root = name.split('[')[0]
    site = 'expr:%s[%s]' % (root, space)
    pts = OR.points(op.domain, 'any', 2)
    # keep |x| moderate: exp(exp(x^3)) style trees overflow otherwise
    pts = [0.5 * p for p in pts]
    sub = {}
    check_derivative(op, pts, site, sub, stats)
    for (s, sym), d in sub.items():
        first.setdefault((s, sym), 'expression %s: %s' % (name, d))
    sigs.append('%s:%s' % (type(op).__name__, 'ok' if not sub else 'bad'))


def trace_functions():
    from odl.operator import operator as M, pspace_ops as P, tensor_ops as T
    fs = []
    for c in (M.OperatorSum, M.OperatorComp, M.OperatorLeftScalarMult, M.OperatorRightScalarMult,
              M.OperatorLeftVectorMult, M.OperatorRightVectorMult, M.FunctionalLeftVectorMult,
              M.OperatorPointwiseProduct, M.OperatorVectorSum, P.ProductSpaceOperator,
              P.BroadcastOperator, P.ReductionOperator, P.DiagonalOperator, T.PointwiseNorm):
        d = c.__dict__.get('derivative')
        if d is not None:
            fs.append(d)
    return fs


def meta(tier):
    return {
        'rule': 'state = registry instance with a derivative (class x option set) x base points | '
                'expression tree (BFS depth 1 and 2 over 9 leaves, 12 unary and 6 binary combinators '
                'incl. the with-temporaries constructors) | block operator over all leaf pairs. Each '
                'state is decided for ALL directions on the full real basis against twice '
                'Richardson-extrapolated central differences. History inside a state: one element '
                'object is modified in place across base points, D(e) is applied twice, and a '
                'derivative taken at a private copy of the first point must act the same after all '
                'later calls (these clauses also run for the accuracy-exempt classes). distinct = '
                '(operator class, outcome) + executed lines of the derivative methods',
        'bounds': {'h': H, 'base_points': 3 if tier == 'quick' else 5, 'max_dim': MAXDIM,
                   'expression_depth': 2},
        'assumptions': ['limit statement: only the fixed h-grid is decided (tolerance 2e-7 relative '
                        'after extrapolation; 2e-2 at h=2^-6 for single precision)',
                        'base points are the registry points of the domain kind (away from '
                        'documented non-differentiable points); LinDeformFixedTempl and '
                        'NumericalGradient exempt (discretised / approximate by design)'],
    }
