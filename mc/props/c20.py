"""C20 - sets and spaces: equality, hashing, membership, element creation, derived spaces.

Exploration (configuration space K + history space H, everything exhaustive inside the bounds):

* ``eq``      one state per recipe of the universe U (mc/ref/c20_model.py).  Every recipe is built
              twice independently (sharing only the pools of weight arrays and callables, because
              array weightings compare by identity).  The two builds of the row recipe are
              compared with *all* nodes of U in both directions: reflexivity, symmetry,
              ``!=`` = not ``==``, hash must not raise, equal => equal hashes, and the outcome is
              compared with the *documented identity* of the reference model.  The rows of the
              equality relation are handed to ``finalize`` which decides transitivity on the
              whole graph (every connected component must be a clique, networkx) -- all triples.
* ``triple``  replay form of a transitivity violation found by ``finalize``.
* ``member``  one state per space: an element of it against every space of U:
              ``x in S  <=>  x.space == S``; non-elements are not members.
* ``element`` one state per space: ``space.element(inp)`` over the input alphabet (own element,
              element of an equal / unequal space, ndarrays of every dtype and layout, lists,
              scalars, wrong shapes, callables, orders).
* ``derived`` one state per space: astype over all dtypes, real/complex counterparts over *all
              call sequences* up to a depth (history space: the counterparts are cached inside the
              space object), byaxis / byaxis_in over the axis-index alphabet.
* ``index``   one state per space: element indexing and product-space indexing over the index
              alphabet: ``x[idx].asarray() == x.asarray()[idx]``, space of the result.

Oracle: the laws of the statement plus an independent reference model (documented identities,
naive selections) that shares no code with odl.
"""
import itertools
import re
import warnings

import numpy as np
import odl
from odl.discr.discr_space import DiscretizedSpace, DiscretizedSpaceElement
from odl.discr.grid import RectGrid
from odl.discr.partition import RectPartition
from odl.set import sets as odl_sets
from odl.set.domain import IntervalProd
from odl.set.space import LinearSpace
from odl.space import npy_tensors as NT
from odl.space import pspace as PS
from odl.space import weighting as WT
from odl.space.base_tensors import TensorSpace

from mc.ref import c20_model as M

PROPERTY = 'C20'
BUDGET = {'quick': 1500, 'thorough': 3600}

warnings.simplefilter('ignore')


# ------------------------------------------------------------------------------------------
# callables used as custom inner / norm / dist (never called by the checks of this module)

def _inner_f(x, y):
    return 0.0


def _inner_g(x, y):
    return 1.0


def _norm_f(x):
    return 0.0


def _norm_g(x):
    return 1.0


def _dist_f(x, y):
    return 0.0


def _dist_g(x, y):
    return 1.0


class _Holder(object):
    """Bound methods of one object: a new, equal, equally hashing object at every access."""

    def inner(self, x, y):
        return 0.0

    def norm(self, x):
        return 0.0

    def dist(self, x, y):
        return 0.0


class Env(object):
    """Pools shared by all builds inside one state."""

    def __init__(self):
        self.arrays = M.make_arrays()
        self.holder = _Holder()
        import scipy.sparse
        self.sparse = {'M2': scipy.sparse.csr_matrix(self.arrays['M2'])}

    def fn(self, kind, name):
        if name == 'm':
            return getattr(self.holder, kind)
        return globals()['_%s_%s' % (kind, name)]


# ------------------------------------------------------------------------------------------
# recipe interpreter (the only place where recipes meet odl)

def _seq(v):
    return list(v) if isinstance(v, tuple) else v


_SIMPLE = {'Real': odl.RealNumbers, 'Complex': odl.ComplexNumbers, 'Int': odl.Integers,
           'Empty': odl.EmptySet, 'Univ': odl.UniversalSet}


def _wkwargs(wkind, warg, exponent, env, is_pspace):
    kw = {}
    if wkind is None:
        if exponent != 2.0 or type(exponent) is int:
            kw['exponent'] = exponent
    elif wkind == 'const':
        kw['weighting'] = warg
        kw['exponent'] = exponent
    elif wkind == 'arr':
        kw['weighting'] = env.arrays[warg]
        kw['exponent'] = exponent
    elif wkind == 'list':
        kw['weighting'] = list(M.ARRAYS[warg])
        kw['exponent'] = exponent
    elif wkind in ('inner', 'norm', 'dist'):
        kw[wkind] = env.fn(wkind, warg)
    elif wkind == 'W':
        kw['weighting'] = build(warg, env)
        if is_pspace:
            # ProductSpace takes its exponent from the `exponent` argument only
            pass
    else:
        raise KeyError(wkind)
    return kw


def build(r, env):
    tag = r[0]
    if tag in _SIMPLE:
        return _SIMPLE[tag]()
    if tag == 'Str':
        return odl.Strings(r[1])
    if tag == 'Cart':
        return odl.CartesianProduct(*[build(s, env) for s in r[1:]])
    if tag == 'Union':
        return odl.SetUnion(*[build(s, env) for s in r[1:]])
    if tag == 'Inter':
        return odl.SetIntersection(*[build(s, env) for s in r[1:]])
    if tag == 'Fin':
        return odl.FiniteSet(*r[1:])
    if tag == 'IP':
        return odl.IntervalProd(_seq(r[1]), _seq(r[2]))
    if tag == 'Grid':
        return odl.RectGrid(*[list(v) for v in r[1:]])
    if tag == 'UGrid':
        return odl.uniform_grid(_seq(r[1]), _seq(r[2]), _seq(r[3]))
    if tag == 'UPart':
        nob = r[4] if isinstance(r[4], bool) else [tuple(e) if isinstance(e, tuple) else e
                                                   for e in r[4]]
        return odl.uniform_partition(_seq(r[1]), _seq(r[2]), _seq(r[3]), nodes_on_bdry=nob)
    if tag == 'Part':
        return odl.RectPartition(build(r[1], env), build(r[2], env))
    if tag == 'W':
        _, cls, arg, p = r
        if cls == 'ConstT':
            return NT.NumpyTensorSpaceConstWeighting(arg, p)
        if cls == 'ConstP':
            return PS.ProductSpaceConstWeighting(arg, p)
        if cls == 'ConstB':
            return WT.ConstWeighting(arg, impl='numpy', exponent=p)
        if cls == 'ConstBo':
            return WT.ConstWeighting(arg, impl='other', exponent=p)
        if cls == 'ArrT':
            return NT.NumpyTensorSpaceArrayWeighting(env.arrays[arg], p)
        if cls == 'ArrP':
            return PS.ProductSpaceArrayWeighting(env.arrays[arg], p)
        if cls == 'ArrB':
            return WT.ArrayWeighting(env.arrays[arg], impl='numpy', exponent=p)
        if cls == 'MatB':
            return WT.MatrixWeighting(env.arrays[arg], impl='numpy', exponent=p)
        if cls == 'MatBs':
            return WT.MatrixWeighting(env.sparse[arg], impl='numpy', exponent=p)
        kind = cls[:-1].lower()
        f = env.fn(kind, arg)
        table = {'InnerT': NT.NumpyTensorSpaceCustomInner, 'InnerP': PS.ProductSpaceCustomInner,
                 'NormT': NT.NumpyTensorSpaceCustomNorm, 'NormP': PS.ProductSpaceCustomNorm,
                 'DistT': NT.NumpyTensorSpaceCustomDist, 'DistP': PS.ProductSpaceCustomDist}
        if cls == 'InnerB':
            return WT.CustomInner(f, impl='numpy')
        return table[cls](f)
    if tag == 'TS':
        _, shape, dtype, wkind, warg, exponent = r
        kw = _wkwargs(wkind, warg, exponent, env, False)
        dt = np.dtype(dtype)
        if dt.kind == 'f':
            return odl.rn(shape, dtype=dtype, **kw)
        if dt.kind == 'c':
            return odl.cn(shape, dtype=dtype, **kw)
        return odl.tensor_space(shape, dtype=dtype, **kw)
    if tag == 'UD':
        _, mins, maxs, shape, opts = r
        kw = dict(opts)
        if isinstance(kw.get('weighting'), str):
            kw['weighting'] = env.arrays[kw['weighting']]
        if 'axis_labels' in kw:
            kw['axis_labels'] = list(kw['axis_labels'])
        return odl.uniform_discr(_seq(mins), _seq(maxs), _seq(shape), **kw)
    if tag == 'DS':
        kw = {} if r[3] is None else {'axis_labels': list(r[3])}
        return odl.DiscretizedSpace(build(r[1], env), build(r[2], env), **kw)
    if tag == 'PW':
        _, base, n, wkind, warg, exponent = r
        return odl.ProductSpace(build(base, env), n, **_wkwargs(wkind, warg, exponent, env, True))
    if tag == 'PS':
        _, facs, wkind, warg, exponent, field = r
        kw = _wkwargs(wkind, warg, exponent, env, True)
        if field is not None:
            kw['field'] = build(field, env)
        return odl.ProductSpace(*[build(f, env) for f in facs], **kw)
    raise KeyError(tag)


_UNIVERSE = {}


def _universe(tier):
    if tier not in _UNIVERSE:
        recs = M.universe(tier)
        _UNIVERSE[tier] = (recs, [M.name(r) for r in recs])
    return _UNIVERSE[tier]


def _build_all(tier, env):
    """Two independent builds of every recipe: nodes[2*i + c]."""
    recs, names = _universe(tier)
    nodes = []
    for r in recs:
        nodes.append(build(r, env))
        nodes.append(build(r, env))
    return recs, names, nodes


# ------------------------------------------------------------------------------------------
# small helpers

def _cls(o):
    return type(o).__name__


def _try(f):
    """Return ('ok', value) or ('exc', exception)."""
    try:
        return 'ok', f()
    except Exception as e:      # noqa: a library exception is an observation, not an error
        return 'exc', e


def _eq(a, b):
    s, v = _try(lambda: a == b)
    return bool(v) if s == 'ok' else None


def _hash(a):
    s, v = _try(lambda: hash(a))
    return v if s == 'ok' else None


def components(o):
    if isinstance(o, odl.CartesianProduct):
        return list(o.sets)
    # SetUnion / SetIntersection / FiniteSet are unordered: no aligned components
    if isinstance(o, odl.ProductSpace):
        return list(o.spaces) + [o.weighting]
    if isinstance(o, DiscretizedSpace):
        return [o.tspace, o.partition]
    if isinstance(o, NT.NumpyTensorSpace):
        return [o.weighting]
    if isinstance(o, RectPartition):
        return [o.set, o.grid]
    return []


def _site_cls(o):
    """Class that names the site: weightings are named by their family in odl.space.weighting."""
    if isinstance(o, WT.Weighting):
        for c in type(o).__mro__:
            if c.__module__ == WT.__name__ and c is not WT.Weighting:
                return c.__name__
    return _cls(o)


def _pair_site(a, b):
    ca, cb = _site_cls(a), _site_cls(b)
    if ca != cb:
        return '~'.join(sorted([ca, cb]))
    return ca if type(a) is type(b) else ca + '(across subclasses)'


def _descend(a, b, test, depth=0):
    """Innermost aligned component pair that still exhibits ``test`` (site attribution only)."""
    if depth < 6 and type(a) is type(b):
        ca, cb = components(a), components(b)
        if len(ca) == len(cb):
            for x, y in zip(ca, cb):
                if test(x, y):
                    return _descend(x, y, test, depth + 1)
    return a, b


def _hash_culprit(o, depth=0):
    if depth < 6:
        for c in components(o):
            if _try(lambda: hash(c))[0] == 'exc':
                return _hash_culprit(c, depth + 1)
    return o


def wdesc(w):
    """Attribute-wise description of a weighting (values, not identity)."""
    if w is None:
        return None
    if isinstance(w, WT.ConstWeighting):
        return ('const', float(w.const), float(w.exponent))
    if isinstance(w, WT.ArrayWeighting):
        a = np.asarray(w.array)
        return ('array', a.shape, tuple(a.ravel().tolist()), float(w.exponent))
    if isinstance(w, WT.CustomInner):
        return ('inner', w.inner, float(w.exponent))
    if isinstance(w, WT.CustomNorm):
        return ('norm', w.norm, float(w.exponent))
    if isinstance(w, WT.CustomDist):
        return ('dist', w.dist, float(w.exponent))
    return ('other', _cls(w))


def field_name(space):
    f = space.field
    if f is None:
        return None
    if isinstance(f, odl.RealNumbers):
        return 'Real'
    if isinstance(f, odl.ComplexNumbers):
        return 'Complex'
    return _cls(f)


_ADDR = re.compile(r' at 0x[0-9a-fA-F]+')


class Report(object):
    """Collects the first failing case per (site, symptom), counts evaluations and outcomes."""

    def __init__(self):
        self.first = {}
        self.evals = 0
        self.skipped = 0
        self.sigs = set()

    def bad(self, site, symptom, detail):
        # no memory addresses in details: replays are compared literally between processes
        self.first.setdefault((site, symptom), _ADDR.sub(' at 0x?', str(detail))[:900])

    def result(self, sample=None):
        viol = [{'site': s, 'symptom': y, 'detail': d}
                for (s, y), d in sorted(self.first.items())]
        res = {'evals': self.evals, 'viol': viol, 'skipped': self.skipped,
               'sig': sorted(self.sigs) or ['none'], 'trivial': self.evals == 0}
        if sample is not None:
            res['sample'] = sample
        return res


# ------------------------------------------------------------------------------------------
# kind: eq

def _node_label(names, k):
    return '%s#%d' % (names[k // 2], k % 2)


def _run_eq(cfg):
    tier = cfg['tier']
    env = Env()
    recs, names, nodes = _build_all(tier, env)
    i = names.index(cfg['row'])
    rep = Report()
    keys = [M.keys(recs[k // 2], k) for k in range(len(nodes))]
    hashes = [_try(lambda o=o: hash(o)) for o in nodes]
    eqrows = {}
    for c in (0, 1):
        ka = 2 * i + c
        a = nodes[ka]
        la = _node_label(names, ka)
        # hash must not raise, and must be stable
        st, hv = hashes[ka]
        rep.evals += 1
        if st == 'exc':
            cul = _hash_culprit(a)
            rep.bad('hash:' + _site_cls(cul), 'hash_raises:' + type(hv).__name__,
                    'hash(%s) raises %r' % (la, hv))
        elif _hash(a) != hv:
            rep.bad('hash:' + _site_cls(a), 'hash_unstable', 'hash(%s) changes between calls' % la)
        row = []
        for kb, b in enumerate(nodes):
            lb = _node_label(names, kb)
            s1, ab = _try(lambda: a == b)
            s2, ba = _try(lambda: b == a)
            rep.evals += 2
            if s1 == 'exc' or s2 == 'exc':
                e = ab if s1 == 'exc' else ba
                x, y = _descend(a, b, lambda p, q: _try(lambda: p == q)[0] == 'exc'
                                or _try(lambda: q == p)[0] == 'exc')
                rep.bad('eq:' + _pair_site(x, y), 'eq_raises:' + type(e).__name__,
                        '%s == %s raises %r' % (((la, lb) if s1 == 'exc' else (lb, la)) + (e,)))
                continue
            ab, ba = bool(ab), bool(ba)
            if ab:
                row.append(kb)
            if ka == kb and not ab:
                x, y = _descend(a, a, lambda p, q: _eq(p, q) is False)
                rep.bad('eq:' + _site_cls(x), 'not_reflexive', '%s == itself is False' % la)
            if ab != ba:
                x, y = _descend(a, b, lambda p, q: _eq(p, q) != _eq(q, p))
                rep.bad('eq:' + _pair_site(x, y), 'not_symmetric',
                        '(%s == %s) is %s but (%s == %s) is %s' % (la, lb, ab, lb, la, ba))
            # != is the negation of ==
            s3, ne = _try(lambda: a != b)
            rep.evals += 1
            if s3 == 'exc' or bool(ne) == ab:
                rep.bad('eq:' + _pair_site(a, b), 'ne_inconsistent',
                        '(%s != %s) gives %r while == gives %s' % (la, lb, ne, ab))
            # equal objects have equal hashes
            if (ab or ba) and hashes[ka][0] == 'ok' and hashes[kb][0] == 'ok':
                rep.evals += 1
                if hashes[ka][1] != hashes[kb][1]:
                    x, y = _descend(a, b, lambda p, q: (_eq(p, q) or _eq(q, p))
                                    and _hash(p) is not None and _hash(q) is not None
                                    and _hash(p) != _hash(q))
                    rep.bad('hash:' + _pair_site(x, y), 'equal_but_hash_differs',
                            '%s == %s but their hashes differ' % (la, lb))
            # documented identity (reference model)
            (sa, loa), (sb, lob) = keys[ka], keys[kb]
            if sa == sb:
                want = True
            elif loa != lob:
                want = False
            else:
                want = None
                rep.skipped += 1
            if want is not None and (ab != want or ba != want):
                if want:
                    x, y = _descend(a, b, lambda p, q: _eq(p, q) is False)
                    rep.bad('eq:' + _pair_site(x, y), 'unequal_but_documented_equal',
                            '%s and %s are built from data that the documentation of __eq__ '
                            'calls equal, but == gives %s / %s' % (la, lb, ab, ba))
                else:
                    x, y = _descend(a, b, lambda p, q: False)
                    rep.bad('eq:' + _pair_site(x, y), 'equal_but_documented_unequal',
                            '%s and %s differ in data that the documentation of __eq__ compares, '
                            'but == gives %s / %s' % (la, lb, ab, ba))
        eqrows[c] = row
        rep.sigs.add('eq:%s:%d' % (_cls(a), len(row)))
    res = rep.result()
    res['eqrows'] = {str(2 * i + c): eqrows[c] for c in (0, 1)}
    return res


def _triple_site(objs):
    return 'eq:' + '~'.join(sorted(set(_site_cls(o) for o in objs)))


def _run_triple(cfg):
    tier = cfg['tier']
    env = Env()
    recs, names, nodes = _build_all(tier, env)
    ks = [2 * names.index(n) + c for n, c in zip(cfg['names'], cfg['copies'])]
    a, b, c = [nodes[k] for k in ks]
    rep = Report()
    rep.evals = 3
    ab, bc, ac = _eq(a, b), _eq(b, c), _eq(a, c)
    rep.sigs.add('triple:%s%s%s' % (ab, bc, ac))
    if ab and bc and not ac:
        rep.bad(_triple_site([a, b, c]), 'not_transitive',
                '%s == %s and %s == %s but (%s == %s) gives %s'
                % (_node_label(names, ks[0]), _node_label(names, ks[1]),
                   _node_label(names, ks[1]), _node_label(names, ks[2]),
                   _node_label(names, ks[0]), _node_label(names, ks[2]),
                   'an exception' if ac is None else ac))
    return rep.result()


def finalize(results, tier):
    """Transitivity over the whole equality graph: every connected component is a clique."""
    import networkx as nx
    rows = {}
    for cfg, res in results:
        if cfg.get('kind') == 'eq' and cfg.get('tier') == tier:
            for k, row in (res.get('eqrows') or {}).items():
                rows[int(k)] = set(row)
    if not rows:
        return []
    recs, names = _universe(tier)
    G = nx.Graph()
    G.add_nodes_from(rows)
    for a, row in rows.items():
        for b in row:
            if a != b:
                G.add_edge(a, b)
    env = Env()
    nodes = None
    out = []
    seen_sites = set()
    for comp in sorted(nx.connected_components(G), key=lambda c: min(c)):
        comp = sorted(comp)
        if len(comp) < 3:
            continue
        found = None
        for a, b, c in itertools.permutations(comp, 3):
            if b in rows.get(a, ()) and c in rows.get(b, ()) and c not in rows.get(a, ()):
                found = (a, b, c)
                break
        if found is None:
            continue
        if nodes is None:
            nodes = _build_all(tier, env)[2]
        objs = [nodes[k] for k in found]
        site = _triple_site(objs)
        if site in seen_sites:
            continue
        seen_sites.add(site)
        labs = [_node_label(names, k) for k in found]
        out.append({'site': site, 'symptom': 'not_transitive',
                    'detail': '%s == %s and %s == %s but not %s == %s'
                              % (labs[0], labs[1], labs[1], labs[2], labs[0], labs[2]),
                    'cfg': {'kind': 'triple', 'tier': tier,
                            'names': [names[k // 2] for k in found],
                            'copies': [k % 2 for k in found]}})
    return out


# ------------------------------------------------------------------------------------------
# kind: member

def _space_nodes(tier, env):
    recs, names = _universe(tier)
    out = []
    for r, n in zip(recs, names):
        if M.family(r) == 'space':
            out.append((r, n, build(r, env), build(r, env)))
    return out


def _new_element(space):
    return space.element()


def _run_member(cfg):
    tier = cfg['tier']
    env = Env()
    spaces = _space_nodes(tier, env)
    rep = Report()
    row = [s for s in spaces if s[1] == cfg['row']][0]
    S = row[2]
    st, x = _try(lambda: _new_element(S))
    if st == 'exc':
        rep.evals += 1
        rep.bad('element:' + _cls(S), 'raises:' + type(x).__name__,
                '%s.element() raises %r' % (cfg['row'], x))
        return rep.result()
    nin = 0
    for r, n, T0, T1 in spaces:
        for c, T in enumerate((T0, T1)):
            s1, got = _try(lambda: x in T)
            s2, want = _try(lambda: x.space == T)
            rep.evals += 1
            if s1 == 'exc':
                rep.bad('contains:' + _cls(T), 'raises:' + type(got).__name__,
                        '(element of %s) in %s#%d raises %r' % (cfg['row'], n, c, got))
                continue
            if s2 == 'exc':
                continue            # reported by the eq states
            if bool(got) != bool(want):
                rep.bad('contains:' + _cls(T), 'membership_differs_from_space_equality',
                        'x = %s.element(): (x in %s#%d) is %s but (x.space == %s#%d) is %s'
                        % (cfg['row'], n, c, bool(got), n, c, bool(want)))
            nin += bool(got)
    # the element's own space
    rep.evals += 1
    if x.space is not S and not _eq(x.space, S):
        rep.bad('element:' + _cls(S), 'element_space_differs',
                '%s.element().space is not the space' % cfg['row'])
    # things that are not elements ("random garbage is not in the space")
    shape = getattr(S, 'shape', ())
    garbage = [('None', None), ('1.0', 1.0), ("'a'", 'a'), ('object', object),
               ('False', False), ('the space itself', S),
               ('ndarray', np.zeros(shape if isinstance(shape, tuple) else ())),
               ('list', [0.0] * (len(S) if hasattr(S, '__len__') and shape else 0))]
    for lab, g in garbage:
        s1, got = _try(lambda: g in S)
        rep.evals += 1
        if s1 == 'exc':
            rep.bad('contains:' + _cls(S), 'raises:' + type(got).__name__,
                    '(%s in %s) raises %r' % (lab, cfg['row'], got))
        elif got:
            rep.bad('contains:' + _cls(S), 'non_element_is_member',
                    '(%s in %s) is True' % (lab, cfg['row']))
    rep.sigs.add('member:%s:%d' % (_cls(S), nin))
    return rep.result()


# ------------------------------------------------------------------------------------------
# kind: element

DTYPES = ['float64', 'float32', 'int64', 'int32', 'bool', 'complex128', 'complex64']


def _convertible(src, dst):
    """Conversions whose result the documentation fixes ("converted to the space's dtype").

    complex -> real discards the imaginary part with a warning and text <-> number conversions
    depend on the content: both are left unjudged.
    """
    src, dst = np.dtype(src), np.dtype(dst)
    num = 'biuf'
    if src.kind in num and dst.kind in num + 'c':
        return True
    if src.kind == 'c' and dst.kind == 'c':
        return True
    if src.kind in 'US' and dst.kind == src.kind:
        return dst.itemsize >= src.itemsize
    return False


def _arr(x):
    return np.asarray(x.asarray())


def _check_values(rep, site, lab, res, S, expected, dt, tol=0.0):
    """Result must be a member of S with the expected values (exact unless ``tol`` is given)."""
    ok = True
    if not _try(lambda: res in S)[1] is True:
        rep.bad(site, 'result_not_in_space', '%s: result of element() is not in the space' % lab)
        ok = False
    st, got = _try(lambda: _arr(res))
    if st == 'exc':
        rep.bad(site, 'raises:' + type(got).__name__, '%s: asarray raises %r' % (lab, got))
        return False
    if got.shape != expected.shape or got.dtype != dt:
        rep.bad(site, 'shape_or_dtype_differs', '%s: got shape %s dtype %s, expected %s %s'
                % (lab, got.shape, got.dtype, expected.shape, dt))
        return False
    same = np.array_equal(got, expected)
    if not same and tol and got.dtype.kind in 'fc':
        same = bool(np.all(np.abs(got - expected) <= tol * (1.0 + np.abs(expected))))
    if not same:
        rep.bad(site, 'values_differ', '%s: got %s expected %s'
                % (lab, got.tolist(), expected.tolist()))
        ok = False
    return ok


def _relation(r1, r2):
    """True / False / None: documented equal / documented unequal / left open."""
    (s1, l1), (s2, l2) = M.keys(r1, 2), M.keys(r2, 0)
    if s1 == s2:
        return True
    if l1 != l2:
        return False
    return None


def _sibling_recipes(recipe, tier):
    """Other tensor-like spaces of the universe with the same shape."""
    sh = M.space_shape(recipe)
    out = []
    for r in M.space_recipes(tier):
        if r[0] in ('TS', 'UD', 'DS') and r != recipe and M.space_shape(r) == sh:
            out.append(r)
    return out


def _wrong_shapes(sh):
    cands = [sh + (1,), (1,) + sh, (), (0,)]
    if sh:
        cands += [sh[:-1] + (sh[-1] + 1,), sh[::-1], (int(np.prod(sh)),), sh[:-1]]
        if len(sh) >= 2:
            cands.append((sh[0], 1) + sh[1:])
    out = []
    for c in cands:
        if c != sh and c not in out:
            out.append(c)
    return out


def _run_element_tensor(cfg, recipe, rep):
    tier = cfg['tier']
    thorough = tier == 'thorough'
    env = Env()
    S = build(recipe, env)
    S2 = build(recipe, env)
    site = 'element:' + _cls(S)
    sh, dt = M.space_shape(recipe), M.space_dtype(recipe)
    # constructor attributes (documented by the factories)
    rep.evals += 1
    if tuple(S.shape) != sh or S.dtype != dt or field_name(S) != M.field_of_dtype(dt):
        rep.bad('ctor:' + _cls(S), 'attributes_differ',
                'shape %s dtype %s field %s, expected %s %s %s'
                % (S.shape, S.dtype, field_name(S), sh, dt, M.field_of_dtype(dt)))
    vals = M.values(sh, dt)

    # --- no input
    st, x0 = _try(lambda: S.element())
    rep.evals += 1
    if st == 'exc':
        rep.bad(site, 'raises:' + type(x0).__name__, 'element() raises %r' % x0)
    elif not (x0 in S and tuple(x0.shape) == sh and x0.dtype == dt):
        rep.bad(site, 'result_not_in_space', 'element() is not a member with shape/dtype')

    for o in ('C', 'F'):
        st, xo = _try(lambda: S.element(order=o))
        rep.evals += 1
        if st == 'exc':
            rep.bad(site, 'raises:' + type(xo).__name__, 'element(order=%r) raises %r' % (o, xo))
        elif not (xo in S and tuple(xo.shape) == sh and _arr(xo).flags[o + '_CONTIGUOUS']):
            rep.bad(site, 'order_not_enforced', 'element(order=%r) is not a %s-contiguous member'
                    % (o, o))
    st, xo = _try(lambda: S.element(vals.copy(), order='X'))
    rep.evals += 1
    if st == 'ok':
        rep.bad(site, 'invalid_order_accepted', "element(inp, order='X') does not raise")
    if dt.kind in 'biufc' and isinstance(S, NT.NumpyTensorSpace) and sh != ():
        # "Elements can also be constructed from a data pointer, resulting again in shared memory"
        for o in ('C', 'F'):
            buf = np.array(vals, order=o)
            st, xp = _try(lambda: S.element(data_ptr=buf.ctypes.data, order=o))
            rep.evals += 1
            rep.sigs.add('el:data_ptr:%s' % st)
            if st == 'exc':
                rep.bad(site, 'raises:' + type(xp).__name__,
                        'element(data_ptr=..., order=%r) raises %r' % (o, xp))
            else:
                _check_values(rep, site, 'data_ptr, order=%r' % o, xp, S, vals, dt)
                if vals.size and not np.shares_memory(_arr(xp), buf):
                    rep.bad(site, 'copy_made_for_matching_array',
                            'element(data_ptr=...) does not share memory with the buffer')
        buf = np.array(vals, order='C')
        for lab, f in [('data_ptr without order', lambda: S.element(data_ptr=buf.ctypes.data)),
                       ('inp and data_ptr', lambda: S.element(vals.copy(),
                                                              data_ptr=buf.ctypes.data,
                                                              order='C'))]:
            rep.evals += 1
            if _try(f)[0] == 'ok':
                rep.bad(site, 'invalid_arguments_accepted', '%s does not raise' % lab)

    def case(lab, inp, want, expected=None, order=None, share=None, sig=None, tol=0.0):
        """want in 'same' | 'values' | 'raise' | 'either'."""
        rep.evals += 1
        kw = {} if order is None else {'order': order}
        st, res = _try(lambda: S.element(inp, **kw))
        rep.sigs.add('el:%s:%s:%s' % (_cls(S), sig or lab.split('[')[0], st))
        if want == 'raise':
            if st == 'ok':
                rep.bad(site, 'incompatible_shape_accepted',
                        '%s: no exception, got %r' % (lab, res))
            return None
        if want == 'either':
            # same number of entries, other shape: a refusal, or an element whose array equals
            # np.asarray(inp) after the ndmin promotion (leading axes of length 1) EXACTLY in
            # shape and values -- element(inp) wraps / casts inp, it never rearranges it
            if st == 'exc':
                return None
            if res is inp:
                rep.bad(site, 'non_member_returned_itself', '%s: element(x) is x' % lab)
                return res
            exp = np.array(expected, ndmin=len(sh))
            st2, got = _try(lambda: _arr(res))
            if st2 == 'ok' and got.shape != exp.shape:
                rep.bad(site, 'input_rearranged',
                        '%s: accepted and turned into an array of shape %s; np.asarray(inp) has '
                        'shape %s (%s after ndmin promotion), the space has shape %s'
                        % (lab, got.shape, np.shape(expected), exp.shape, sh))
                return res
            _check_values(rep, site, lab, res, S, exp.astype(dt), dt)
            return res
        if st == 'exc':
            rep.bad(site, 'raises:' + type(res).__name__, '%s: raises %r' % (lab, res))
            return None
        if want == 'same':
            if res is not inp:
                rep.bad(site, 'member_not_returned_itself',
                        '%s: element(x) is not x although x in space' % lab)
            return res
        if res is inp:
            rep.bad(site, 'non_member_returned_itself', '%s: element(x) is x' % lab)
            return res
        _check_values(rep, site, lab, res, S, expected, dt, tol)
        if order is not None:
            a = _arr(res)
            if not a.flags[order + '_CONTIGUOUS']:
                rep.bad(site, 'order_not_enforced', '%s: result is not %s-contiguous' % (lab, order))
        if share is not None and expected.size > 0:
            if not np.shares_memory(_arr(res), share):
                rep.bad(site, 'copy_made_for_matching_array',
                        '%s: result does not wrap the input array (documented: "it will merely '
                        'be wrapped")' % lab)
        return res

    # --- members
    x = S.element(vals.copy())
    case('own element', x, 'same')
    dup_equal = M.keys(recipe, 0)[0] == M.keys(recipe, 1)[0]
    x2 = S2.element(vals.copy())
    case('element of an independently built equal space', x2,
         'same' if dup_equal else 'values', vals)
    for o in ('C', 'F'):
        case('own element[order=%s]' % o, x, 'values', vals, order=o, sig='own+order')

    # --- elements of unequal spaces of the same shape
    for r in _sibling_recipes(recipe, tier):
        sdt = M.space_dtype(r)
        if not _convertible(sdt, dt):
            rep.skipped += 1
            continue
        T = build(r, env)
        sv = M.values(sh, sdt, salt=1)
        y = T.element(sv.copy())
        rel = _relation(r, recipe)
        if rel is None:
            # the documentation leaves open whether the two spaces are equal: follow the
            # library's own membership (validated by the member states)
            rep.skipped += 1
            rel = _try(lambda: y in S)[1] is True
        if rel:
            case('element of equal space %s' % M.name(r), y, 'same', sig='sibling-equal')
        else:
            case('element of unequal space %s' % M.name(r), y, 'values', sv.astype(dt),
                 sig='sibling')

    # --- arrays of every dtype and layout
    srcs = DTYPES if dt.kind not in 'US' else [dt.str]
    for sdt in srcs:
        if not _convertible(sdt, dt):
            rep.skipped += 1
            continue
        sv = M.values(sh, sdt, salt=2)
        exp = sv.astype(dt)
        same = np.dtype(sdt) == dt
        a = sv.copy(order='C')
        case('ndarray[%s,C]' % sdt, a, 'values', exp, share=a if same else None,
             sig='array-same' if same else 'array-cast')
        if len(sh) >= 2:
            a = sv.copy(order='F')
            case('ndarray[%s,F]' % sdt, a, 'values', exp, share=a if same else None,
                 sig='array-F')
        if len(sh) >= 1 and sh[-1] > 0:
            big = np.zeros(sh[:-1] + (2 * sh[-1],), dtype=sdt)
            a = big[..., ::2]
            a[...] = sv
            case('ndarray[%s,strided]' % sdt, a, 'values', exp, share=a if same else None,
                 sig='array-strided')
        a = sv.copy()
        a.flags.writeable = False
        case('ndarray[%s,readonly]' % sdt, a, 'values', exp, sig='array-readonly')
        if same or thorough:
            for o in ('C', 'F'):
                a = sv.copy(order='C')
                case('ndarray[%s,C,order=%s]' % (sdt, o), a, 'values', exp, order=o,
                     sig='array+order')
        if sv.size or len(sh) <= 1:
            case('list[%s]' % sdt, sv.tolist(), 'values', exp, sig='list')
        else:
            rep.skipped += 1        # an empty nested list does not carry its shape
        if len(sh) == 1:
            case('tuple[%s]' % sdt, tuple(sv.tolist()), 'values', exp, sig='tuple')

    # --- scalars and wrong shapes
    if dt.kind in 'biufc':
        for lab, sc in [('1.0', 1.0), ('2', 2)] + ([('1j', 1j)] if dt.kind == 'c' else []):
            if not _convertible(np.asarray(sc).dtype, dt):
                continue
            size = int(np.prod(sh)) if sh != () else 1
            if sh == ():
                case('scalar ' + lab, sc, 'values', np.asarray(sc).astype(dt), sig='scalar')
            elif size != 1:
                case('scalar ' + lab, sc, 'raise', sig='scalar')
            else:
                case('scalar ' + lab, sc, 'either', np.full(sh, sc).astype(dt), sig='scalar')
        size = int(np.prod(sh)) if sh != () else 1
        for wsh in _wrong_shapes(sh):
            wsize = int(np.prod(wsh)) if wsh != () else 1
            wv = M.values(wsh, dt, salt=3)
            if wsize != size:
                case('ndarray of shape %s' % (wsh,), wv, 'raise', sig='wrong-shape')
                if thorough:
                    case('list of shape %s' % (wsh,), wv.tolist(), 'raise', sig='wrong-shape')
            else:
                case('ndarray of shape %s' % (wsh,), wv, 'either', wv, sig='same-size-shape')
        # near-miss shapes: same entries, singleton axes elsewhere / another number of leading
        # singleton axes / equal-length axes transposed; offered as ndarray, nested list and as
        # an ELEMENT of the sibling space of that shape
        for wsh in M.near_miss_shapes(sh):
            wv = M.values(wsh, dt, salt=4)
            case('ndarray of near-miss shape %s' % (wsh,), wv, 'either', wv, sig='near-miss')
            if wv.size:
                case('nested list of near-miss shape %s' % (wsh,), wv.tolist(), 'either', wv,
                     sig='near-miss-list')
            if wsh != ():
                sib = odl.tensor_space(wsh, dtype=dt)
                x = sib.element(wv.copy())
                rep.evals += 1
                if _try(lambda: bool(x in S))[1] is not False:
                    rep.bad('contains:' + _cls(S), 'element_of_other_shape_is_member',
                            '(element of %r) in %s is not False' % (sib, cfg['row']))
                case('element of the sibling space of near-miss shape %s' % (wsh,), x, 'either',
                     wv, sig='near-miss-element')
        if len(sh) >= 2 and len(set(sh)) < len(sh) and vals.size:
            # transposition of equal-length axes keeps the shape: the values must not move
            axes = list(range(len(sh)))
            i, j = [(a, b) for a in axes for b in axes if a < b and sh[a] == sh[b]][0]
            axes[i], axes[j] = axes[j], axes[i]
            tv = np.transpose(vals, axes)
            case('transposed view (axes %d,%d swapped)' % (i, j), tv, 'values', tv.astype(dt),
                 sig='transposed')

    # --- odl.vector: "the space type is inferred from the input data"
    if recipe[0] == 'TS' and recipe[3] is None and recipe[5] == 2.0 and len(sh) >= 1:
        for lab, f in [('vector(ndarray)', lambda: odl.vector(vals.copy())),
                       ('vector(list, dtype)', lambda: odl.vector(vals.tolist(), dtype=dt)
                        if vals.size or len(sh) == 1 else odl.vector(vals.copy(), dtype=dt))]:
            st, v = _try(f)
            rep.evals += 1
            rep.sigs.add('vector:%s:%s' % (dt.kind, st))
            if st == 'exc':
                rep.bad('odl.vector', 'raises:' + type(v).__name__, '%s for %s raises %r'
                        % (lab, cfg['row'], v))
            else:
                _check_values(rep, 'odl.vector', lab, v, S, vals, dt)

    # --- discretized spaces: callables and tspace elements
    if isinstance(S, DiscretizedSpace):
        t = S.tspace.element(vals.copy())
        rep.evals += 1
        st, res = _try(lambda: S.element(t))
        if st == 'exc':
            rep.bad(site, 'raises:' + type(res).__name__, 'tspace element: raises %r' % res)
        else:
            _check_values(rep, site, 'tspace element', res, S, vals, dt)
            if res.tensor is not t:
                rep.bad(site, 'tspace_element_not_wrapped',
                        'element(t) with t in space.tspace does not wrap t')
        rep.sigs.add('el:ds:tspace')
        if dt.kind in 'fc' and recipe[0] == 'UD' and len(sh) >= 1:
            coords = _ud_coords(recipe)
            mesh = np.meshgrid(*coords, indexing='ij') if coords else []
            if len(sh) == 1:
                funcs = [('lambda x: 2*x', lambda x: 2 * x, 2 * mesh[0]),
                         ('lambda x: x+1', lambda x: x + 1.0, mesh[0] + 1.0)]
            else:
                funcs = [('lambda x: 2*x[0]', lambda x: 2 * x[0] + 0 * x[1], 2 * mesh[0]),
                         ('lambda x: sum(x)+1', lambda x: sum(x) + 1.0, sum(mesh) + 1.0)]
            for lab, f, ref in funcs:
                # sampling points are computed (linspace): 1e-12 relative, exact on dyadic grids
                case('callable ' + lab, f, 'values', np.asarray(ref).astype(dt), sig='callable',
                     tol=_sampling_tol(dt))
    return rep


def _sampling_tol(dt):
    eps = np.finfo(dt).eps
    return 1e-12 if eps < 1e-12 else 1e-5 if eps < 1e-5 else 1e-2


def _ud_coords(recipe):
    _, mins, maxs, shape, opts = recipe
    nob = dict(opts).get('nodes_on_bdry', False)
    mins, maxs, shape = M._ftuple(mins), M._ftuple(maxs), M._ituple(shape)
    return [np.array(M.uniform_nodes(lo, hi, n, l, r))
            for lo, hi, n, (l, r) in zip(mins, maxs, shape, M._nob_axes(nob, len(shape)))]


def _flat_parts(x):
    """Nested list of arrays of a product space element."""
    if isinstance(x.space, odl.ProductSpace):
        return [_flat_parts(p) for p in x.parts]
    return _arr(x)


def _nested_equal(a, b):
    if isinstance(a, list) or isinstance(b, list):
        return (isinstance(a, list) and isinstance(b, list) and len(a) == len(b)
                and all(_nested_equal(p, q) for p, q in zip(a, b)))
    a, b = np.asarray(a), np.asarray(b)
    return a.shape == b.shape and a.dtype == b.dtype and np.array_equal(a, b)


def _pspace_values(S, salt=0, as_elements=False, as_lists=False):
    """Nested list of test values for a product space (arrays, elements or python lists)."""
    out = []
    for k, sp in enumerate(S.spaces):
        if isinstance(sp, odl.ProductSpace):
            out.append(_pspace_values(sp, salt + 10 * (k + 1), as_elements, as_lists))
        else:
            v = M.values(tuple(sp.shape), sp.dtype, salt + k)
            if as_elements:
                v = sp.element(v)
            elif as_lists:
                v = v.tolist()
            out.append(v)
    return out


def _nested_astype(vals, S):
    out = []
    for v, sp in zip(vals, S.spaces):
        if isinstance(sp, odl.ProductSpace):
            out.append(_nested_astype(v, sp))
        else:
            out.append(np.asarray(v).astype(sp.dtype))
    return out


def _run_element_pspace(cfg, recipe, rep):
    tier = cfg['tier']
    env = Env()
    S = build(recipe, env)
    S2 = build(recipe, env)
    site = 'element:ProductSpace'
    n = len(S)
    exp = _pspace_values(S)

    def check(lab, res, expected):
        if _try(lambda: res in S)[1] is not True:
            rep.bad(site, 'result_not_in_space', '%s: result is not in the space' % lab)
        st, got = _try(lambda: _flat_parts(res))
        if st == 'exc':
            rep.bad(site, 'raises:' + type(got).__name__, '%s: %r' % (lab, got))
        elif not _nested_equal(got, expected):
            rep.bad(site, 'values_differ', '%s: got %s expected %s' % (lab, got, expected))

    def case(lab, inp, want, expected=None, sig=None, **kw):
        rep.evals += 1
        st, res = _try(lambda: S.element(inp, **kw))
        rep.sigs.add('el:ps:%s:%s' % (sig or lab, st))
        if want == 'raise':
            if st == 'ok':
                rep.bad(site, 'incompatible_shape_accepted', '%s: no exception' % lab)
            return None
        if st == 'exc':
            rep.bad(site, 'raises:' + type(res).__name__, '%s: raises %r' % (lab, res))
            return None
        if want == 'same':
            if res is not inp:
                rep.bad(site, 'member_not_returned_itself',
                        '%s: element(x) is not x although x in space' % lab)
            return res
        if res is inp:
            rep.bad(site, 'non_member_returned_itself', '%s: element(x) is x' % lab)
        check(lab, res, expected)
        return res

    st, x0 = _try(lambda: S.element())
    rep.evals += 1
    if st == 'exc':
        rep.bad(site, 'raises:' + type(x0).__name__, 'element() raises %r' % x0)
    elif x0 not in S:
        rep.bad(site, 'result_not_in_space', 'element() is not in the space')

    x = S.element(_pspace_values(S))
    case('own element', x, 'same')
    dup_equal = M.keys(recipe, 0)[0] == M.keys(recipe, 1)[0]
    x2 = S2.element(_pspace_values(S2))
    case('element of an independently built equal space', x2,
         'same' if dup_equal else 'values', exp)
    # parts that already belong to the factor spaces are taken as they are
    parts = _pspace_values(S, as_elements=True)
    parts = [S.spaces[k].element(p) if isinstance(p, list) else p for k, p in enumerate(parts)]
    res = case('list of elements of the factors', parts, 'values', exp, sig='parts')
    if res is not None and n:
        rep.evals += 1
        if not all(res[k] is parts[k] for k in range(n)):
            rep.bad(site, 'member_part_not_returned_itself',
                    'element([x_1, ..]) with x_i in space[i]: result[i] is not x_i')
    case('list of elements, cast=False', parts, 'values', exp, sig='parts-nocast', cast=False)
    case('nested lists', _pspace_values(S, as_lists=True), 'values', exp, sig='lists')
    case('list of arrays', _pspace_values(S, salt=0), 'values', exp, sig='arrays')
    if n:
        st, _ = _try(lambda: S.element(_pspace_values(S, as_lists=True), cast=False))
        rep.evals += 1
        if st == 'ok':
            rep.bad(site, 'cast_false_accepts_non_elements',
                    'element(lists, cast=False) does not raise (documented TypeError)')
    # other dtypes per part
    for sdt in ('float32', 'int64'):
        if M.space_dtype(recipe) is not None and _convertible(sdt, M.space_dtype(recipe)):
            src = _nested_map(exp, lambda a: (a.real if a.dtype.kind == 'c' else a).astype(sdt))
            want = _nested_astype(src, S)
            case('list of %s arrays' % sdt, src, 'values', want, sig='arrays-cast')
    # one ndarray for a power space of tensor spaces
    if n and S.is_power_space and not isinstance(S.spaces[0], odl.ProductSpace):
        a = np.stack([np.asarray(e) for e in exp])
        case('ndarray of shape %s' % (a.shape,), a, 'values', exp, sig='ndarray')
        bad = np.concatenate([a, a[:1]])
        case('ndarray with one row too many', bad, 'raise', sig='wrong-length')
    # siblings: same factors, other weighting
    for r in M.space_recipes(tier):
        if r[0] in ('PS', 'PW') and r != recipe and M.keys(r)[1] == M.keys(recipe)[1]:
            T = build(r, env)
            y = T.element(_pspace_values(T, salt=1))
            rel = _relation(r, recipe)
            if rel is None:
                rep.skipped += 1
                rel = _try(lambda: y in S)[1] is True
            if rel:
                case('element of equal space %s' % M.name(r), y, 'same', sig='sibling-equal')
            else:
                case('element of unequal space %s' % M.name(r), y, 'values',
                     _pspace_values(S, salt=1), sig='sibling')
    # incompatible inputs
    case('one part too many', _pspace_values(S, as_lists=True) + [[0.0]], 'raise',
         sig='wrong-length')
    if n:
        case('one part missing', _pspace_values(S, as_lists=True)[:-1], 'raise',
             sig='wrong-length')
        case('scalar', 1.0, 'raise', sig='scalar')
        first = S.spaces[0]
        if not isinstance(first, odl.ProductSpace) and first.size != 1 and first.shape != ():
            wrong = _pspace_values(S, as_lists=True)
            wrong[0] = M.values((first.size + 1,), first.dtype).tolist()
            case('first part of wrong shape', wrong, 'raise', sig='wrong-part-shape')
        # near-miss shape of ONE part (singleton axes elsewhere / other number of leading ones):
        # a refusal, or that part equals np.asarray(part input) exactly (never rearranged)
        for k, fac in enumerate(S.spaces):
            if isinstance(fac, odl.ProductSpace) or fac.dtype.kind not in 'biufc':
                continue
            fsh = tuple(fac.shape)
            for wsh in M.near_miss_shapes(fsh):
                wv = M.values(wsh, fac.dtype, salt=5)
                forms = [('ndarray', wv), ('nested list', wv.tolist())]
                if wsh != ():
                    forms.append(('element of the sibling space',
                                  odl.tensor_space(wsh, dtype=fac.dtype).element(wv.copy())))
                for flab, part in forms:
                    inp = _pspace_values(S)
                    inp[k] = part
                    lab = 'part %d as %s of near-miss shape %s' % (k, flab, wsh)
                    rep.evals += 1
                    st, res = _try(lambda: S.element(inp))
                    rep.sigs.add('el:ps:near-miss:%s' % st)
                    if st == 'exc':
                        continue
                    prom = np.array(wv, ndmin=len(fsh))
                    st2, got = _try(lambda: _arr(res[k]))
                    if st2 == 'exc' or got.shape != prom.shape or not np.array_equal(got, prom):
                        rep.bad(site, 'input_rearranged',
                                '%s: accepted; the part has shape %s, np.asarray(input) has shape '
                                '%s (%s after ndmin promotion), the factor has shape %s'
                                % (lab, getattr(got, 'shape', None), wsh, prom.shape, fsh))
            break       # first tensor-like factor only
    return rep


def _nested_map(v, f):
    if isinstance(v, list):
        return [_nested_map(e, f) for e in v]
    return f(np.asarray(v))


def _run_element(cfg):
    recs, names = _universe(cfg['tier'])
    recipe = recs[names.index(cfg['row'])]
    rep = Report()
    if recipe[0] in ('PS', 'PW'):
        _run_element_pspace(cfg, recipe, rep)
    else:
        _run_element_tensor(cfg, recipe, rep)
    return rep.result()


# ------------------------------------------------------------------------------------------
# kind: derived

ASTYPE_DTYPES = ['float64', 'float32', 'complex128', 'complex64', 'int64', 'int32', 'bool',
                 'float16']


def _axis_indices(nd, thorough):
    out = list(range(-nd, nd))
    out += [slice(None), slice(1, None), slice(None, 1), slice(None, None, 2), slice(0, 0)]
    if thorough:
        out += [slice(None, None, -1), slice(-1, None), slice(None, -1)]
    if nd:
        out += [[0], [nd - 1, 0], [0, 0], list(range(nd)), (nd - 1, 0)]
    out += [[]]
    return out


def _select_axes(nd, idx):
    """Axes selected by a by-axis index (documented: ints, slices, lists stack arbitrarily)."""
    ax = list(range(nd))
    if isinstance(idx, (int, np.integer)):
        return [ax[idx]]
    if isinstance(idx, slice):
        return ax[idx]
    return [ax[i] for i in idx]


def _check_space_attrs(rep, site, lab, R, cls, shape, dtype, wd, skip_weighting=False):
    """Derived tensor-like space R must have the attributes of the selection."""
    bad = []
    if type(R) is not cls:
        bad.append(('class_differs', 'class %s, expected %s' % (_cls(R), cls.__name__)))
    if tuple(R.shape) != tuple(shape):
        bad.append(('shape_differs', 'shape %s, expected %s' % (R.shape, shape)))
    if R.dtype != np.dtype(dtype):
        bad.append(('dtype_differs', 'dtype %s, expected %s' % (R.dtype, dtype)))
    if field_name(R) != M.field_of_dtype(dtype):
        bad.append(('field_differs', 'field %s, expected %s'
                    % (field_name(R), M.field_of_dtype(dtype))))
    if not skip_weighting and wdesc(R.weighting) != wd:
        bad.append(('weighting_differs', 'weighting %s, expected %s'
                    % (wdesc(R.weighting), wd)))
    for sym, det in bad:
        rep.bad(site, sym, '%s: %s' % (lab, det))
    return not bad


def _run_derived_tensor(cfg, recipe, rep):
    thorough = cfg['tier'] == 'thorough'
    env = Env()
    S = build(recipe, env)
    cls = type(S)
    sh, dt = M.space_shape(recipe), M.space_dtype(recipe)
    wd = wdesc(S.weighting)
    arrw = wd[0] == 'array'
    tagw = '(array-weighted)' if arrw else ''
    numeric = dt.kind in 'iufc'
    base = 'TensorSpace'        # astype and the counterparts live in TensorSpace for all of them
    if not numeric:
        tagw = '(non-numeric dtype)'

    def expect_astype(lab, R, dtype, site):
        floating = np.dtype(dtype).kind in 'fc'
        if not floating:
            # "Use weighting only for floating-point types" (code comment, not in the docstring)
            rep.skipped += 1
        ok = _check_space_attrs(rep, site, lab, R, cls, sh, dtype, wd,
                                skip_weighting=not floating or not numeric)
        if isinstance(S, DiscretizedSpace) and isinstance(R, DiscretizedSpace):
            if not (_eq(R.partition, S.partition) and R.axis_labels == S.axis_labels):
                rep.bad(site, 'partition_differs', '%s: partition or axis labels changed' % lab)
        return ok

    rep.evals += 1
    if _try(lambda: S.astype(None))[0] == 'ok':
        rep.bad('%s.astype%s' % (base, tagw), 'none_dtype_accepted',
                'astype(None) does not raise ("`None` is not a valid data type")')
    # --- astype over all dtypes
    for d in ASTYPE_DTYPES + ([dt.str] if dt.kind in 'US' else []):
        site = '%s.astype%s' % (base, tagw)
        S = build(recipe, env)
        st, R = _try(lambda: S.astype(d))
        rep.evals += 1
        rep.sigs.add('astype:%s:%s:%s' % (base, np.dtype(d).kind, st))
        if st == 'exc':
            rep.bad(site, 'raises:' + type(R).__name__,
                    '%s.astype(%r) raises %r' % (cfg['row'], d, R))
            continue
        expect_astype('astype(%r)' % d, R, d, site)
        # the source space is unchanged
        if not (tuple(S.shape) == sh and S.dtype == dt and wdesc(S.weighting) == wd):
            rep.bad(site, 'source_space_modified', 'astype(%r) changed the space itself' % d)

    # --- real / complex counterparts: all call sequences (the results are cached in the space)
    if numeric:
        ops = ['real_space', 'complex_space', 'astype:float32', 'astype:complex64',
               'astype:float64', 'astype:complex128']
        depth = 3 if thorough else 2        # 'same' mode goes one deeper
        # mode 'same': every call on the SAME space object (repeated calls hit its cache);
        # mode 'chain': every call on the result of the previous one
        for mode in ('same', 'chain'):
            for seq in itertools.product(ops, repeat=depth + (1 if mode == 'same' else 0)):
                S = build(recipe, env)
                cur = S
                cur_dt = dt
                for step, op in enumerate(seq):
                    if op == 'real_space':
                        want = M.counterpart(cur_dt, 'real')
                    elif op == 'complex_space':
                        want = M.counterpart(cur_dt, 'complex')
                    else:
                        want = np.dtype(op.split(':')[1])
                    if want is None:
                        rep.skipped += 1    # no documented counterpart (integer -> complex)
                        break
                    site = '%s.%s%s' % (base, op.split(':')[0], tagw)
                    st, R = _try(lambda: getattr(cur, op) if ':' not in op else cur.astype(want))
                    rep.evals += 1
                    lab = '%s after %s (%s)' % (op, list(seq[:step]),
                                                'all on the same space' if mode == 'same'
                                                else 'each on the previous result')
                    if st == 'exc':
                        rep.bad(site, 'raises:' + type(R).__name__,
                                '%s: %s raises %r' % (cfg['row'], lab, R))
                        if mode == 'chain':
                            break
                        continue
                    if not expect_astype(lab, R, want, site) and mode == 'chain':
                        break
                    if mode == 'chain':
                        cur, cur_dt = R, want
                rep.sigs.add('cache:%s:%s:%d' % (mode, base, step))
                if not (tuple(S.shape) == sh and S.dtype == dt and wdesc(S.weighting) == wd):
                    rep.bad('%s.astype%s' % (base, tagw), 'source_space_modified',
                            'sequence %s changed the space itself' % list(seq))

    # --- by axis
    S = build(recipe, env)
    nd = len(sh)
    if isinstance(S, DiscretizedSpace):
        site = 'DiscretizedSpace.byaxis_in' + tagw
        default_w = recipe[0] == 'UD' and 'weighting' not in dict(recipe[4]) and \
            float(dict(recipe[4]).get('exponent', 2.0)) != M.INF
        for idx in _axis_indices(nd, thorough):
            axes = _select_axes(nd, idx)
            lab = 'byaxis_in[%s]' % M.index_name(idx)
            if not axes or arrw:
                # empty selections are not documented; a per-entry weight array has no by-axis
                # selection ("except possibly weighting"): executed, not judged
                rep.skipped += 1
                _try(lambda: S.byaxis_in[idx])
                continue
            st, R = _try(lambda: S.byaxis_in[idx])
            rep.evals += 1
            rep.sigs.add('byaxis_in:%s:%s' % (M.index_class(idx), st))
            if st == 'exc':
                rep.bad(site, 'raises:' + type(R).__name__,
                        '%s.%s raises %r' % (cfg['row'], lab, R))
                continue
            nsh = tuple(sh[a] for a in axes)
            # "otherwise same properties (except possibly weighting)"
            if default_w and recipe[0] == 'UD' and numeric:
                o = dict(recipe[4])
                nob = M._nob_axes(o.get('nodes_on_bdry', False), nd)
                vol = M.cell_volume([M._ftuple(recipe[1])[a] for a in axes],
                                    [M._ftuple(recipe[2])[a] for a in axes], nsh,
                                    [nob[a] for a in axes])
                wexp = ('const', vol, float(o.get('exponent', 2.0)))
                _check_space_attrs(rep, site, lab, R, cls, nsh, dt, wexp)
            else:
                rep.skipped += 1
                _check_space_attrs(rep, site, lab, R, cls, nsh, dt, None, skip_weighting=True)
                if float(R.exponent) != float(S.exponent):
                    rep.bad(site, 'exponent_differs', '%s: exponent %s, expected %s'
                            % (lab, R.exponent, S.exponent))
            if isinstance(R, DiscretizedSpace):
                pm = [float(S.min_pt[a]) for a in axes]
                px = [float(S.max_pt[a]) for a in axes]
                cv = [S.partition.coord_vectors[a] for a in axes]
                if (list(map(float, R.min_pt)) != pm or list(map(float, R.max_pt)) != px
                        or len(R.partition.coord_vectors) != len(cv)
                        or not all(np.array_equal(p, q)
                                   for p, q in zip(R.partition.coord_vectors, cv))):
                    rep.bad(site, 'partition_differs',
                            '%s: domain [%s, %s], expected [%s, %s]'
                            % (lab, R.min_pt, R.max_pt, pm, px))
                labels = tuple(S.axis_labels[a] for a in axes)
                if tuple(R.axis_labels) != labels:
                    rep.bad(site, 'axis_labels_differ', '%s: axis_labels %r, expected %r'
                            % (lab, R.axis_labels, labels))
    elif isinstance(S, NT.NumpyTensorSpace):
        site = 'NumpyTensorSpace.byaxis' + tagw
        for idx in _axis_indices(nd, thorough):
            axes = _select_axes(nd, idx)
            lab = 'byaxis[%s]' % M.index_name(idx)
            if arrw:
                # a per-entry weight array has no by-axis selection: executed, weighting (and a
                # refusal) left unjudged
                rep.skipped += 1
                st, R = _try(lambda: S.byaxis[idx])
                if st == 'ok':
                    rep.evals += 1
                    _check_space_attrs(rep, site, lab, R, cls, tuple(sh[a] for a in axes), dt,
                                       None, skip_weighting=True)
                continue
            st, R = _try(lambda: S.byaxis[idx])
            rep.evals += 1
            rep.sigs.add('byaxis:%s:%s' % (M.index_class(idx), st))
            if st == 'exc':
                rep.bad(site, 'raises:' + type(R).__name__,
                        '%s.%s raises %r' % (cfg['row'], lab, R))
                continue
            _check_space_attrs(rep, site, lab, R, cls, tuple(sh[a] for a in axes), dt, wd)
    return rep


def _pspace_struct(S):
    """Nested description (shape, dtype) of the factors of a product space."""
    if isinstance(S, odl.ProductSpace):
        return [_pspace_struct(s) for s in S.spaces]
    return (type(S).__name__, tuple(S.shape), np.dtype(S.dtype).str, wdesc(S.weighting))


def _struct_astype(st, dtype):
    if isinstance(st, list):
        return [_struct_astype(s, dtype) for s in st]
    return (st[0], st[1], np.dtype(dtype).str, st[3])


def _run_derived_pspace(cfg, recipe, rep):
    env = Env()
    S = build(recipe, env)
    dt = M.space_dtype(recipe)
    struct = _pspace_struct(S) if len(S) else []

    def _leaf_kinds(st):
        if isinstance(st, list):
            return set().union(*[_leaf_kinds(t) for t in st]) if st else set()
        return {np.dtype(st[2]).kind}
    if len(S) == 0 or not _leaf_kinds(struct) <= set('fc'):
        rep.skipped += 1
        return rep
    # factors of different dtypes: `dtype` is documented as undefined, astype(d) still has to give
    # every factor the dtype d; the real / complex counterparts are judged for one common dtype
    mixed = dt is None
    wd = wdesc(S.weighting)
    rep.evals += 1
    if _try(lambda: S.astype(None))[0] == 'ok':
        rep.bad('ProductSpace.astype', 'none_dtype_accepted', 'astype(None) does not raise')

    def check(site, lab, R, want_dt):
        if not isinstance(R, odl.ProductSpace) or len(R) != len(S):
            rep.bad(site, 'class_differs', '%s: got %r' % (lab, R))
            return
        if _pspace_struct(R) != _struct_astype(struct, want_dt):
            rep.bad(site, 'factors_differ', '%s: factors %s, expected %s'
                    % (lab, _pspace_struct(R), _struct_astype(struct, want_dt)))
        if field_name(R) != M.field_of_dtype(want_dt):
            rep.bad(site, 'field_differs', '%s: field %s' % (lab, field_name(R)))
        if wd[0] in ('const', 'array'):
            if wdesc(R.weighting) != wd:
                rep.bad(site, 'weighting_dropped', '%s: weighting %s, expected that of the '
                        'space: %s' % (lab, wdesc(R.weighting), wd))
        else:
            rep.skipped += 1        # custom inner/norm/dist: not defined for another dtype

    for d in ('float64', 'float32', 'complex128', 'complex64'):
        S = build(recipe, env)
        st, R = _try(lambda: S.astype(d))
        rep.evals += 1
        rep.sigs.add('ps-astype:%s:%s' % (np.dtype(d).kind, st))
        if st == 'exc':
            rep.bad('ProductSpace.astype', 'raises:' + type(R).__name__,
                    '%s.astype(%r) raises %r' % (cfg['row'], d, R))
            continue
        check('ProductSpace.astype', 'astype(%r)' % d, R, d)
    for which in ('real', 'complex'):
        want = None if mixed else M.counterpart(dt, which)
        if want is None:
            rep.skipped += 1
            continue
        S = build(recipe, env)
        site = 'ProductSpace.%s_space' % which
        st, R = _try(lambda: getattr(S, which + '_space'))
        rep.evals += 1
        rep.sigs.add('ps-%s:%s' % (which, st))
        if st == 'exc':
            rep.bad(site, 'raises:' + type(R).__name__, '%s.%s_space raises %r'
                    % (cfg['row'], which, R))
            continue
        check(site, which + '_space', R, want)
    return rep


def _run_derived(cfg):
    recs, names = _universe(cfg['tier'])
    recipe = recs[names.index(cfg['row'])]
    rep = Report()
    if recipe[0] in ('PS', 'PW'):
        _run_derived_pspace(cfg, recipe, rep)
    else:
        _run_derived_tensor(cfg, recipe, rep)
    return rep.result()


# ------------------------------------------------------------------------------------------
# kind: index

def _run_index_tensor(cfg, recipe, rep):
    thorough = cfg['tier'] == 'thorough'
    env = Env()
    S = build(recipe, env)
    sh, dt = M.space_shape(recipe), M.space_dtype(recipe)
    vals = M.values(sh, dt)
    x = S.element(vals.copy())
    ts = S.tspace if isinstance(S, DiscretizedSpace) else S
    wd = wdesc(ts.weighting)
    arrw = wd[0] == 'array'
    # DiscretizedSpaceElement.__getitem__ delegates to its tensor
    site0 = '%s.__getitem__%s' % (type(getattr(x, 'tensor', x)).__name__,
                                  '(array-weighted)' if arrw else '')
    alphabet = list(M.index_alphabet(sh, thorough))
    if sh and dt.kind in 'iufc':
        # an element of the boolean counterpart of the space as mask (x[x.ufuncs.greater(0)])
        mask = M.values(sh, 'bool')
        alphabet.append(_ElementMask(S.astype(bool).element(mask), mask))
    for idx in alphabet:
        if isinstance(idx, _ElementMask):
            idx_odl, idx = idx.element, idx.mask
            lab = 'x[<element of space.astype(bool): %s>]' % idx.tolist()
        else:
            idx_odl = idx
            lab = 'x[%s]' % M.index_name(idx)
        # basic = ints / slices / Ellipsis / newaxis (views); advanced = lists, index arrays, masks
        adv = any(isinstance(i, (list, np.ndarray))
                  for i in (idx if isinstance(idx, tuple) else (idx,)))
        site = '%s(%s)' % (site0, 'advanced index' if adv else 'basic index')
        data = _arr(x)
        st0, exp = _try(lambda: data[idx])
        if st0 == 'exc':
            rep.skipped += 1            # not an index expression for this shape
            continue
        st, got = _try(lambda: x[idx_odl])
        rep.evals += 1
        rep.sigs.add('getitem:%s:%s:%s' % (_cls(S), M.index_class(idx),
                                           'scalar' if np.isscalar(exp) else st))
        if st == 'exc':
            rep.bad(site, 'raises:' + type(got).__name__,
                    '%s on an element of %s raises %r' % (lab, cfg['row'], got))
            continue
        if np.isscalar(exp) or (isinstance(exp, np.ndarray) and exp.shape == ()
                                and not hasattr(got, 'asarray')):
            if hasattr(got, 'asarray') or not (got == exp):
                rep.bad(site, 'values_differ', '%s: got %r, x.asarray()[idx] is %r'
                        % (lab, got, exp))
            continue
        if not hasattr(got, 'asarray'):
            rep.bad(site, 'values_differ', '%s: got %r instead of an element' % (lab, got))
            continue
        g = _arr(got)
        if g.shape != exp.shape:
            rep.bad(site, 'shape_differs', '%s: shape %s, x.asarray()[idx] has %s'
                    % (lab, g.shape, exp.shape))
            continue
        if g.dtype != exp.dtype:
            rep.bad(site, 'dtype_differs', '%s: dtype %s, expected %s' % (lab, g.dtype, exp.dtype))
        if not np.array_equal(g, exp):
            rep.bad(site, 'values_differ', '%s: got %s, x.asarray()[idx] is %s'
                    % (lab, g.tolist(), exp.tolist()))
        # space of the result: that of the selection
        R = got.space
        if tuple(R.shape) != exp.shape or R.dtype != dt or type(R) is not type(ts):
            rep.bad(site, 'space_differs', '%s: result space %r' % (lab, R))
        elif dt.kind in 'iufc':
            if arrw:
                w = np.asarray(ts.weighting.array)
                wexp = ('array', exp.shape, tuple(w[idx].ravel().tolist()), wd[3])
            else:
                wexp = wd
            if wdesc(R.weighting) != wexp:
                rep.bad(site, 'weighting_differs', '%s: weighting %s, expected that of the '
                        'selection: %s' % (lab, wdesc(R.weighting), wexp))
        # views stay views ("the returned object is a writable view into the original tensor,
        # except for the case when indices is a list")
        if exp.size and np.shares_memory(exp, data) and not np.shares_memory(g, data):
            rep.bad(site, 'view_not_returned', '%s: result does not share memory with x' % lab)
    return rep


class _ElementMask(object):
    def __init__(self, element, mask):
        self.element, self.mask = element, mask


def _leaf_struct(S):
    return (type(S).__name__, tuple(S.shape), np.dtype(S.dtype).str, wdesc(S.weighting))


class Node(list):
    """Factor list of a product space that remembers the space it came from."""
    space = None


def _tree(S):
    """Factor tree of a product space with the space objects at the leaves."""
    if isinstance(S, odl.ProductSpace):
        n = Node(_tree(s) for s in S.spaces)
        n.space = S
        return n
    return S


def _depth(S):
    d = 0
    while isinstance(S, odl.ProductSpace) and len(S):
        S = S.spaces[0]
        d += 1
    return d


def _match_tree(R, tree):
    """R has exactly the factors of ``tree`` (leaf spaces compared by identity or attributes)."""
    if isinstance(tree, Node):
        return R is tree.space          # a factor that is itself a product space: taken as it is
    if isinstance(tree, list):
        return (isinstance(R, odl.ProductSpace) and len(R) == len(tree)
                and all(_match_tree(r, t) for r, t in zip(R.spaces, tree)))
    return R is tree


def _run_index_pspace(cfg, recipe, rep):
    thorough = cfg['tier'] == 'thorough'
    env = Env()
    S = build(recipe, env)
    n = len(S)
    wd = wdesc(S.weighting)
    depth = _depth(S)
    tree = _tree(S)
    x = S.element(_pspace_values(S)) if n else S.element()
    dt = M.space_dtype(recipe)
    power = n > 0 and dt is not None and _is_power(S)
    arr = np.asarray(_stack(_pspace_values(S))) if power else None
    if power:
        depth = arr.ndim        # tuple indices reach into the tensors of a power space
    for idx in M.pspace_index_alphabet(n, depth, thorough):
        lab = '[%s]' % M.index_name(idx)
        ssite = 'ProductSpace.__getitem__(%s)' % M.index_class(idx)
        esite = 'ProductSpaceElement.__getitem__(%s)' % M.index_class(idx)
        kind, sel = M.select_factors(tree, idx)
        # ---- the space
        st, R = _try(lambda: S[idx])
        rep.evals += 1
        rep.sigs.add('ps-getitem:%s:%s:%s' % (M.index_class(idx), kind, st))
        if kind == 'error':
            if st == 'ok':
                rep.bad(ssite, 'invalid_index_accepted', 'space%s gives %r' % (lab, R))
        elif st == 'exc':
            rep.bad(ssite, 'raises:' + type(R).__name__,
                    '%s%s raises %r' % (cfg['row'], lab, R))
        elif kind == 'leaf':
            if R is not sel:
                rep.bad(ssite, 'factors_differ', 'space%s is not the selected factor' % lab)
        else:
            if not _match_tree(R, sel):
                rep.bad(ssite, 'factors_differ', 'space%s = %r does not consist of the selected '
                        'factors' % (lab, R))
            elif isinstance(sel, Node) and sel.space is not S:
                pass                    # a whole factor: nothing else to compare
            elif field_name(R) != field_name(S):
                rep.bad(ssite, 'field_differs', 'space%s has field %s' % (lab, field_name(R)))
            else:
                first = idx[0] if isinstance(idx, tuple) and idx else idx
                toplevel = not isinstance(idx, tuple) or len(idx) <= 1
                if len(sel) == 0 or wd[0] not in ('const', 'array') or not toplevel:
                    rep.skipped += 1    # weighting of an empty / custom / nested selection
                elif isinstance(idx, tuple) and not idx:
                    if wdesc(R.weighting) != wd:
                        rep.bad(ssite, 'weighting_dropped', 'space[()] has weighting %s'
                                % (wdesc(R.weighting),))
                else:
                    if wd[0] == 'const':
                        ok = wdesc(R.weighting) == wd
                        wexp = wd
                    else:
                        ws = M.select_weights(wd[2], first)
                        wexp = ('array', (len(ws),), tuple(ws), wd[3])
                        got = wdesc(R.weighting)
                        ok = got == wexp or (len(set(ws)) == 1
                                             and got == ('const', ws[0], wd[3]))
                    if not ok:
                        rep.bad(ssite, 'weighting_dropped',
                                '%s%s has weighting %s, expected that of the selection: %s'
                                % (cfg['row'], lab, wdesc(R.weighting), wexp))
        # ---- the element
        if not n:
            continue
        st2, y = _try(lambda: x[idx])
        rep.evals += 1
        if kind == 'leaf':
            if st2 == 'exc':
                rep.bad(esite, 'raises:' + type(y).__name__, 'x%s raises %r' % (lab, y))
            elif y is not _pick(x, idx):
                rep.bad(esite, 'parts_differ', 'x%s is not the selected part' % lab)
        elif kind == 'prod':
            if st2 == 'exc':
                rep.bad(esite, 'raises:' + type(y).__name__,
                        'x%s on an element of %s raises %r' % (lab, cfg['row'], y))
            elif st == 'ok' and not _same_pspace(y.space, R):
                # compared by factors and weighting values: sliced weight arrays are new arrays,
                # which the library's == (identity of arrays) would call different
                rep.bad(esite, 'space_differs', 'x%s.space = %r differs from space%s = %r'
                        % (lab, y.space, lab, R))
        # commutation with the conversion to an array (power spaces)
        if power and (not isinstance(idx, tuple) or len(idx) <= arr.ndim):
            st3, exp = _try(lambda: arr[tuple(idx) if isinstance(idx, tuple) else idx])
            if st3 == 'exc':
                continue
            if not np.isscalar(exp) and exp.size == 0:
                rep.skipped += 1        # empty selections have no array form (dtype undefined)
                continue
            rep.evals += 1
            if st2 == 'exc':
                rep.bad(esite, 'raises:' + type(y).__name__,
                        'x%s on an element of %s raises %r although x.asarray()%s is defined'
                        % (lab, cfg['row'], y, lab))
                continue
            if np.isscalar(exp) or exp.shape == ():
                if hasattr(y, 'asarray') and np.asarray(y).size != 1 or not _scal_eq(y, exp):
                    rep.bad(esite, 'values_differ', 'x%s gives %r, x.asarray()%s is %r'
                            % (lab, y, lab, exp))
                continue
            st4, g = _try(lambda: np.asarray(y.asarray()))
            if st4 == 'exc':
                # asarray is refused when the factors of the result are not ==-equal (e.g. sliced
                # weight arrays are new objects): stack the parts ourselves
                st4, g = _try(lambda: np.asarray(_stack(_flat_parts(y))))
            if st4 == 'exc':
                rep.bad(esite, 'raises:' + type(g).__name__, 'x%s.asarray() raises %r' % (lab, g))
                continue
            # an integer at the innermost level keeps a length-1 axis (code comment): accepted
            if g.shape != exp.shape and g.size == exp.size and \
                    [s for s in g.shape if s != 1] == [s for s in exp.shape if s != 1]:
                g = g.reshape(exp.shape)
            if g.shape != exp.shape or not np.array_equal(g, exp):
                rep.bad(esite, 'values_differ',
                        'x%s.asarray() = %s (shape %s) but x.asarray()%s = %s (shape %s)'
                        % (lab, g.tolist(), g.shape, lab, exp.tolist(), exp.shape))
    return rep


def _same_pspace(A, B):
    if A is B:
        return True
    if isinstance(A, odl.ProductSpace) != isinstance(B, odl.ProductSpace):
        return False
    if not isinstance(A, odl.ProductSpace):
        return _eq(A, B) is True
    return (len(A) == len(B) and field_name(A) == field_name(B)
            and wdesc(A.weighting) == wdesc(B.weighting)
            and all(_same_pspace(a, b) for a, b in zip(A.spaces, B.spaces)))


def _scal_eq(y, exp):
    try:
        return bool(np.asarray(y).reshape(()) == exp)
    except Exception:
        return False


def _is_power(S):
    if not isinstance(S, odl.ProductSpace):
        return True
    if len(S) == 0 or not S.is_power_space:
        return False
    return _is_power(S.spaces[0])


def _stack(v):
    if isinstance(v, list):
        return np.stack([_stack(e) for e in v])
    return np.asarray(v)


def _pick(x, idx):
    if isinstance(idx, tuple):
        for i in idx:
            x = x.parts[i]
        return x
    return x.parts[idx]


def _run_index(cfg):
    recs, names = _universe(cfg['tier'])
    recipe = recs[names.index(cfg['row'])]
    rep = Report()
    if recipe[0] in ('PS', 'PW'):
        _run_index_pspace(cfg, recipe, rep)
    else:
        _run_index_tensor(cfg, recipe, rep)
    return rep.result()


# ------------------------------------------------------------------------------------------
# kind: setelem  (Set.element: "Return an element from inp or from scratch")

def _run_setelem(cfg):
    recs, names = _universe(cfg['tier'])
    recipe = recs[names.index(cfg['row'])]
    env = Env()
    S = build(recipe, env)
    rep = Report()
    site = 'element:' + _cls(S)
    st, e = _try(lambda: S.element())
    rep.evals += 1
    rep.sigs.add('setelem:%s:%s' % (_cls(S), st))
    if st == 'exc':
        if isinstance(e, (NotImplementedError, IndexError)) or not _has_elements(recipe):
            rep.skipped += 1            # no element() for this set / empty set
        else:
            rep.bad(site, 'raises:' + type(e).__name__, '%s.element() raises %r' % (cfg['row'], e))
    else:
        s2, isin = _try(lambda: e in S)
        if s2 == 'exc' or not isin:
            rep.bad(site, 'result_not_in_set', '%s.element() = %r is not in the set'
                    % (cfg['row'], e))
    # membership over a pool of candidates: must not raise; composite sets follow their
    # documented rule ("member of any subset" / "of all subsets" / component-wise / "an
    # element in `elements`"), evaluated with the library's own component membership
    csite = 'contains:' + _cls(S)
    pool = list(SET_POOL)
    if isinstance(S, (IntervalProd, RectGrid)):
        pool += [np.array([0.0, 0.0]), np.array([0.5]), np.array([[0.5]]), np.array([])]
    nin = 0
    for v in pool:
        st, got = _try(lambda: v in S)
        rep.evals += 1
        if st == 'exc':
            rep.bad(csite, 'raises:' + type(got).__name__, '(%r in %s) raises %r'
                    % (v, cfg['row'], got))
            continue
        nin += bool(got)
        want = None
        if isinstance(S, odl.SetUnion):
            want = _try(lambda: any(v in c for c in S.sets))
        elif isinstance(S, odl.SetIntersection):
            want = _try(lambda: all(v in c for c in S.sets))
        elif isinstance(S, odl.CartesianProduct):
            want = _try(lambda: hasattr(v, '__len__') and len(v) == len(S.sets)
                        and all(p in c for p, c in zip(v, S.sets)))
        elif isinstance(S, odl.FiniteSet):
            want = _try(lambda: any(v is e or v == e for e in recipe[1:]))
        if want is not None and want[0] == 'ok' and bool(want[1]) != bool(got):
            rep.bad(csite, 'membership_differs_from_documented_rule',
                    '(%r in %s) is %s, the rule over the subsets gives %s'
                    % (v, cfg['row'], bool(got), bool(want[1])))
        # element(v) of a member is a member
        if got and not isinstance(S, (odl.UniversalSet,)):
            s3, ev = _try(lambda: S.element(v))
            if s3 == 'ok':
                rep.evals += 1
                if _try(lambda: ev in S)[1] is not True and not bool(_try(lambda: ev in S)[1]):
                    rep.bad(site, 'result_not_in_set', '%s.element(%r) = %r is not in the set'
                            % (cfg['row'], v, ev))
    rep.sigs.add('contains:%s:%d' % (_cls(S), nin))
    return rep.result()


SET_POOL = [None, 0, 1, -1, 2, 3, 0.5, 1.0, -0.0, 1j, True, 'a', 'ab', '', [0.5], (0.5,),
            (0.5, 0.5), (1, 2), [0, 1], (0.25, 0.75), (1, 'a'), ('ab', 1.0), ((0.5, 1.0),),
            (0.5, 0.5, 0.5), ()]


def _has_elements(recipe):
    tag = recipe[0]
    if tag in ('Empty',):
        return True         # documented: contains None
    if tag == 'Fin':
        return len(recipe) > 1
    if tag in ('Union', 'Inter'):
        return False        # need not be implemented / may be empty
    if tag == 'Cart':
        return all(_has_elements(r) for r in recipe[1:])
    return True



# ------------------------------------------------------------------------------------------
# kind: arrhist  (history space: caller-owned arrays kept BY REFERENCE by documentation)
#
# Array / matrix weightings compare by identity of the stored array ("identical array"), i.e. the
# object keeps the caller's array.  History alphabet: hash(A), hash(B), in-place update of the
# shared array by its owner.  After EVERY history the clauses of the statement are re-checked on
# the SAME objects: A == B (the array is still the identical object) must imply
# hash(A) == hash(B), and a fresh object built from the same array must be equal to and hash
# like the old ones.  (That the hash follows the contents is not judged.)

def _run_arrhist(cfg):
    tier = cfg['tier']
    recs, names = _universe(tier)
    recipe = recs[names.index(cfg['row'])]
    used = M.arrays_used(recipe)
    rep = Report()
    ops = ['hash(A)', 'hash(B)', 'w *= 2']
    depth = 4 if tier == 'thorough' else 3
    tag = '(after in-place update of the shared array)'
    for n in range(1, depth + 1):
        for seq in itertools.product(ops, repeat=n):
            if 'w *= 2' not in seq:
                continue                        # no update: covered by the eq states
            env = Env()
            A = build(recipe, env)
            B = build(recipe, env)
            for op in seq:
                if op == 'hash(A)':
                    _try(lambda: hash(A))
                elif op == 'hash(B)':
                    _try(lambda: hash(B))
                else:
                    for name in used:
                        env.arrays[name] *= 2.0
            C = build(recipe, env)              # fresh object from the same (updated) array
            lab = 'history %s on A, B = two builds of %s sharing %s' % (list(seq), cfg['row'],
                                                                         used)
            for (x, y, lx, ly) in ((A, B, 'A', 'B'), (A, C, 'A', 'fresh C'),
                                   (B, C, 'B', 'fresh C')):
                rep.evals += 1
                e1, e2 = _eq(x, y), _eq(y, x)
                if e1 is not True or e2 is not True:
                    p, q = _descend(x, y, lambda u, v: _eq(u, v) is not True)
                    rep.bad('eq:' + _pair_site(p, q) + tag, 'objects_sharing_the_array_unequal',
                            '%s: (%s == %s) gives %s / %s' % (lab, lx, ly, e1, e2))
                    continue
                s1, h1 = _try(lambda: hash(x))
                s2, h2 = _try(lambda: hash(y))
                if s1 == 'exc' or s2 == 'exc':
                    continue                    # reported by the eq states
                if h1 != h2:
                    p, q = _descend(x, y, lambda u, v: _eq(u, v) is True
                                    and _hash(u) is not None and _hash(v) is not None
                                    and _hash(u) != _hash(v))
                    rep.bad('hash:' + _pair_site(p, q) + tag, 'equal_but_hash_differs',
                            '%s: %s == %s but hash(%s) != hash(%s)' % (lab, lx, ly, lx, ly))
            rep.sigs.add('arrhist:%s:%d' % (_cls(A), n))
    return rep.result()


# ------------------------------------------------------------------------------------------
# kind: ctorarg  (history space: constructor arguments overwritten in place after construction)
#
# Every array-valued constructor argument is handed over as a float64 / int64 / float32 ndarray
# or as a list which the driver OVERWRITES IN PLACE after construction (the caller re-uses his
# buffers).  The object built before must not change: its eq / hash / contains / element clauses
# are compared with those of an object built from fresh copies of the original values, and (mode
# 'observed') with a snapshot taken on the same object before the overwrite.  Arguments that are
# kept by reference by documentation (the ndarray of an array weighting) are not in this block
# but in `arrhist`.

def _pts(*rows):
    return [np.array(r, dtype=float) for r in rows]


def _ctor_routes():
    """name -> (args, build(args), probes).  args: list of (argname, values, 'float'|'int')."""
    r2 = odl.rn(2)
    return {
        'IntervalProd(min_pt, max_pt)': (
            [('min_pt', [0.0, 0.5], 'float'), ('max_pt', [1.0, 2.0], 'float')],
            lambda a: odl.IntervalProd(a[0], a[1]),
            _pts([0.0, 0.5], [1.0, 2.0], [0.5, 1.0], [1.5, 2.5], [0.5, 2.25], [-0.5, 1.0])),
        'RectGrid(vec0, vec1)': (
            [('vec0', [0.0, 0.5, 1.0], 'float'), ('vec1', [0.0, 1.0], 'float')],
            lambda a: odl.RectGrid(a[0], a[1]),
            _pts([0.0, 0.0], [0.5, 1.0], [1.0, 1.0], [1.5, 1.0], [1.0, 2.0], [0.25, 0.0])),
        'uniform_grid(min_pt, max_pt, shape)': (
            [('min_pt', [0.0, 0.0], 'float'), ('max_pt', [1.0, 2.0], 'float'),
             ('shape', [3, 2], 'int')],
            lambda a: odl.uniform_grid(a[0], a[1], a[2]),
            _pts([0.0, 0.0], [0.5, 2.0], [1.0, 1.0], [1.0, 3.0], [2.0, 3.0])),
        'uniform_partition(min_pt, max_pt, shape)': (
            [('min_pt', [0.0, 0.0], 'float'), ('max_pt', [1.0, 2.0], 'float'),
             ('shape', [2, 4], 'int')],
            lambda a: odl.uniform_partition(a[0], a[1], a[2]), None),
        'uniform_partition(min_pt, max_pt, shape, nodes_on_bdry=True)': (
            [('min_pt', [0.0, 0.0], 'float'), ('max_pt', [1.0, 2.0], 'float'),
             ('shape', [2, 3], 'int')],
            lambda a: odl.uniform_partition(a[0], a[1], a[2], nodes_on_bdry=True), None),
        'uniform_partition(min_pt, max_pt, cell_sides=)': (
            [('min_pt', [0.0, 0.0], 'float'), ('max_pt', [1.0, 2.0], 'float'),
             ('cell_sides', [0.5, 0.5], 'float0')],
            lambda a: odl.uniform_partition(a[0], a[1], cell_sides=a[2]), None),
        'uniform_partition_fromintv(IntervalProd(min_pt, max_pt), shape)': (
            [('min_pt', [0.0, 0.0], 'float'), ('max_pt', [1.0, 2.0], 'float'),
             ('shape', [2, 4], 'int')],
            lambda a: odl.uniform_partition_fromintv(odl.IntervalProd(a[0], a[1]), a[2]), None),
        'nonuniform_partition(vec0, vec1, min_pt=, max_pt=)': (
            [('vec0', [0.0, 0.5, 2.0], 'float'), ('vec1', [0.0, 1.0], 'float'),
             ('min_pt', [-0.5, -0.5], 'float'), ('max_pt', [2.5, 1.5], 'float')],
            lambda a: odl.nonuniform_partition(a[0], a[1], min_pt=a[2], max_pt=a[3]), None),
        'RectPartition(IntervalProd(min_pt, max_pt), RectGrid(vec))': (
            [('min_pt', [0.0], 'float'), ('max_pt', [1.0], 'float'),
             ('vec', [0.25, 0.75], 'float')],
            lambda a: odl.RectPartition(odl.IntervalProd(a[0], a[1]), odl.RectGrid(a[2])), None),
        'uniform_discr(min_pt, max_pt, shape)': (
            [('min_pt', [0.0, 0.0], 'float'), ('max_pt', [1.0, 2.0], 'float'),
             ('shape', [2, 4], 'int')],
            lambda a: odl.uniform_discr(a[0], a[1], a[2]), None),
        'uniform_discr_fromintv(IntervalProd(min_pt, max_pt), shape)': (
            [('min_pt', [0.0], 'float'), ('max_pt', [1.0], 'float'), ('shape', [2], 'int')],
            lambda a: odl.uniform_discr_fromintv(odl.IntervalProd(a[0], a[1]), a[2]), None),
        'DiscretizedSpace(nonuniform_partition(vec, min_pt=, max_pt=), rn(shape))': (
            [('vec', [0.0, 0.5, 2.0], 'float'), ('min_pt', [-0.5], 'float'),
             ('max_pt', [2.5], 'float'), ('shape', [3], 'int0')],
            lambda a: odl.DiscretizedSpace(
                odl.nonuniform_partition(a[0], min_pt=a[1], max_pt=a[2]), odl.rn(a[3])), None),
        'rn(shape)': ([('shape', [2, 3], 'int')], lambda a: odl.rn(a[0]), None),
        'tensor_space(shape, dtype=int)': (
            [('shape', [2, 3], 'int')], lambda a: odl.tensor_space(a[0], dtype=int), None),
        'rn(2, weighting=<list>)': (
            [('weighting', [1.0, 2.0], 'list-only')],
            lambda a: odl.rn(2, weighting=a[0]), None),
        'uniform_discr(0, 1, 2, weighting=<list>)': (
            [('weighting', [1.0, 2.0], 'list-only')],
            lambda a: odl.uniform_discr(0, 1, 2, weighting=a[0]), None),
        'ProductSpace(rn(2), rn(2), weighting=<list>)': (
            [('weighting', [1.0, 2.0], 'list-only')],
            lambda a: odl.ProductSpace(r2, r2, weighting=a[0]), None),
        'ProductSpace(rn(2), 2, weighting=<list>)': (
            [('weighting', [1.0, 2.0], 'list-only')],
            lambda a: odl.ProductSpace(r2, 2, weighting=a[0]), None),
    }


CTOR_ROUTES = sorted(_ctor_routes())


def _as_form(values, kind, form):
    if form == 'list':
        return list(values)
    if kind.startswith('int'):
        return np.array(values, dtype='int64' if form != 'f32' else 'int32')
    return np.array(values, dtype='float64' if form == 'f64' else 'float32')


def _overwrite(buf, kind):
    """The caller re-uses his buffer: shift floats / shapes by one, in place."""
    if isinstance(buf, list):
        for i in range(len(buf)):
            buf[i] = buf[i] + 1
    else:
        buf += 1


def _shifted(values, kind):
    return [v + 1 for v in values]


def _space_vals(O, salt=0):
    if isinstance(O, odl.ProductSpace):
        return _pspace_values(O, salt)
    return M.values(tuple(O.shape), O.dtype, salt)


def _observe(O, R0, T0, probes, elems):
    """The clauses of the statement on O, as a list of (name, value)."""
    obs = []
    obs.append(('O == reference', _eq(O, R0)))
    obs.append(('reference == O', _eq(R0, O)))
    obs.append(('hash(O) == hash(reference)', _hash(O) is not None and _hash(O) == _hash(R0)))
    if T0 is not None:
        obs.append(('O == other', _eq(O, T0)))
        obs.append(('other == O', _eq(T0, O)))
    if probes is not None:
        obs.append(('membership of probe points',
                    tuple(bool(_try(lambda p=p: p in O)[1] is True
                               or _try(lambda p=p: bool(p in O))[1] is True) for p in probes)))
    for lab, x in elems:
        obs.append(('(%s) in O' % lab, _try(lambda: bool(x in O))[1]))
        obs.append(('O.element(%s) is it' % lab, _try(lambda: O.element(x) is x)[1]))
    return obs


_CLAUSE_SYMPTOM = [('hash', 'hash_changed'), ('membership', 'membership_changed'),
                   ('element', 'element_changed'), (' in O', 'membership_changed')]


def _clause_symptom(name):
    for key, sym in _CLAUSE_SYMPTOM:
        if key in name:
            return sym
    return 'eq_changed'


def _run_ctorarg(cfg):
    route = cfg['route']
    args, make, probes = _ctor_routes()[route]
    rep = Report()
    site = 'ctorarg:' + route
    is_space = None
    forms_all = ['f64', 'list', 'f32']
    nargs = len(args)
    subsets = [(i,) for i in range(nargs)]
    if nargs > 1:
        subsets.append(tuple(range(nargs)))
    for form in forms_all:
        for sub in subsets:
            for mode in ('observed', 'unobserved'):
                # arguments: the overwritten ones in the form under test, the others as lists
                def form_of(i):
                    kind = args[i][2]
                    if kind == 'list-only':
                        return 'list'
                    return form if i in sub else 'list'
                if any(args[i][2] == 'list-only' for i in sub) and form != 'list':
                    continue        # an ndarray of weights is kept by reference (documented)
                base = [list(a[1]) for a in args]
                st, R0 = _try(lambda: make([_as_form(base[i], args[i][2], 'list')
                                            for i in range(nargs)]))
                if st == 'exc':
                    rep.skipped += 1
                    continue
                R1 = make([_as_form(base[i], args[i][2], 'list') for i in range(nargs)])
                after = [(_shifted(base[i], args[i][2]) if i in sub else base[i])
                         for i in range(nargs)]
                T0 = _try(lambda: make([_as_form(after[i], args[i][2], 'list')
                                        for i in range(nargs)]))
                T0 = T0[1] if T0[0] == 'ok' else None
                bufs = [_as_form(base[i], args[i][2], form_of(i)) for i in range(nargs)]
                st, O = _try(lambda: make(bufs))
                if st == 'exc':
                    rep.skipped += 1        # this form of argument is not accepted
                    continue
                is_space = isinstance(O, LinearSpace)
                elems, elems1 = [], []
                if is_space:
                    y = R0.element(_space_vals(R0))
                    elems.append(('element of the reference', y))
                    elems1.append(('element of the reference', y))
                    if mode == 'observed':
                        x = O.element(_space_vals(O, 1))
                        x1 = R1.element(_space_vals(R1, 1))
                        elems.append(('own element created before', x))
                        elems1.append(('own element created before', x1))
                before = _observe(O, R0, T0, probes, elems) if mode == 'observed' else None
                h_before = _hash(O) if mode == 'observed' else None
                for i in sub:
                    _overwrite(bufs[i], args[i][2])
                got = _observe(O, R0, T0, probes, elems)
                want = _observe(R1, R0, T0, probes, elems1)
                rep.evals += len(got)
                lab = ('%s with %s as %s, overwritten in place after construction (%s)'
                       % (route, '+'.join(args[i][0] for i in sub),
                          {'f64': 'float64/int64 ndarray', 'f32': 'float32/int32 ndarray',
                           'list': 'list'}[form], mode))
                for (name, g), (_, w) in zip(got, want):
                    if g != w:
                        rep.bad(site, _clause_symptom(name),
                                '%s: "%s" is %r, for an object built from fresh copies of the '
                                'original values it is %r' % (lab, name, g, w))
                if before is not None:
                    for (name, g), (_, b) in zip(got, before):
                        if g != b:
                            rep.bad(site, _clause_symptom(name),
                                    '%s: "%s" was %r before the overwrite and is %r after'
                                    % (lab, name, b, g))
                    rep.evals += 1
                    if h_before is not None and _hash(O) != h_before:
                        rep.bad(site, 'hash_changed',
                                '%s: hash(O) changed during the lifetime of O' % lab)
                rep.sigs.add('ctorarg:%s:%s:%s' % (_cls(O), form, mode))
    return rep.result()


# ------------------------------------------------------------------------------------------
# engine interface

def configs(tier):
    recs, names = _universe(tier)
    cfgs = []
    for r, n in zip(recs, names):
        cfgs.append({'kind': 'eq', 'tier': tier, 'row': n})
    for r, n in zip(recs, names):
        if M.family(r) in ('set', 'geom') and r[0] not in ('UPart', 'Part'):
            cfgs.append({'kind': 'setelem', 'tier': tier, 'row': n})
    for r, n in zip(recs, names):
        if M.family(r) == 'space':
            cfgs.append({'kind': 'member', 'tier': tier, 'row': n})
    for kind in ('element', 'derived', 'index'):
        for r, n in zip(recs, names):
            if M.family(r) == 'space':
                cfgs.append({'kind': kind, 'tier': tier, 'row': n})
    for r, n in zip(recs, names):
        if M.arrays_used(r) and r[:2] != ('W', 'MatBs'):
            cfgs.append({'kind': 'arrhist', 'tier': tier, 'row': n})
    for route in CTOR_ROUTES:
        cfgs.append({'kind': 'ctorarg', 'tier': tier, 'route': route})
    return cfgs


_RUN = {'eq': _run_eq, 'triple': _run_triple, 'member': _run_member, 'element': _run_element,
        'derived': _run_derived, 'index': _run_index, 'setelem': _run_setelem,
        'arrhist': _run_arrhist, 'ctorarg': _run_ctorarg}


def run(cfg):
    with warnings.catch_warnings():
        warnings.simplefilter('ignore')
        return _RUN[cfg['kind']](cfg)


def trace_functions():
    S = odl_sets
    fs = []
    for c in (S.EmptySet, S.UniversalSet, S.Strings, S.ComplexNumbers, S.RealNumbers, S.Integers,
              S.CartesianProduct, S.SetUnion, S.SetIntersection, S.FiniteSet, IntervalProd,
              RectGrid, RectPartition, TensorSpace, NT.NumpyTensorSpace, PS.ProductSpace,
              DiscretizedSpace, WT.Weighting, WT.MatrixWeighting, WT.ArrayWeighting,
              WT.ConstWeighting, WT.CustomInner, WT.CustomNorm, WT.CustomDist,
              NT.NumpyTensorSpaceArrayWeighting, LinearSpace):
        for m in ('__eq__', '__hash__', '__contains__', '__ne__'):
            f = c.__dict__.get(m)
            if f is not None:
                fs.append(f)
    fs += [NT.NumpyTensorSpace.element, PS.ProductSpace.element, DiscretizedSpace.element,
           TensorSpace.astype, TensorSpace._astype, DiscretizedSpace._astype,
           PS.ProductSpace.astype, NT.NumpyTensor.__getitem__, PS.ProductSpace.__getitem__,
           PS.ProductSpaceElement.__getitem__, DiscretizedSpaceElement.__getitem__,
           type(odl.rn(1).byaxis).__getitem__,
           type(odl.uniform_discr(0, 1, 1).byaxis_in).__getitem__]
    return fs


def meta(tier):
    recs, names = _universe(tier)
    fam = {}
    for r in recs:
        fam[M.family(r)] = fam.get(M.family(r), 0) + 1
    return {
        'rule': 'small scope, exhaustive: every recipe of a finite universe is built twice '
                'independently; ALL ordered pairs of the resulting nodes are compared (==, !=, '
                'hash) and all triples through the clique test on the equality graph; every '
                'element against every space; element(inp) over the whole input alphabet; '
                'astype over all dtypes and all call sequences of the cached counterparts up to '
                'the depth; every index expression of the alphabet; history blocks: all '
                'sequences over {hash(A), hash(B), in-place update of the shared weight array} '
                'up to the depth on objects that keep caller-owned arrays by reference '
                '(arrhist), and every array-valued constructor argument handed over as float64 / '
                'float32 / int ndarray or list and overwritten in place after construction, '
                'singly and all together, with and without prior observation (ctorarg).  '
                'Reference: documented '
                'identities and naive NumPy selections (mc/ref/c20_model.py). distinct = distinct '
                '(operation, class, outcome class, executed-line signature).',
        'bounds': {'universe_recipes': len(recs), 'nodes': 2 * len(recs), 'families': fam,
                   'one_field_variant_pairs': len(M.one_field_variants(tier == 'thorough')),
                   'array_history_depth': 4 if tier == 'thorough' else 3,
                   'constructor_routes': CTOR_ROUTES,
                   'ordered_pairs': (2 * len(recs)) ** 2,
                   'counterpart_call_sequences': 'ops {real_space, complex_space, astype f32/c64/'
                                                 'f64/c128}: all sequences of length %d applied '
                                                 'to the same space object and of length %d '
                                                 'applied to the previous result'
                                                 % ((4, 3) if tier == 'thorough' else (3, 2)),
                   'element_input_dtypes': DTYPES, 'astype_dtypes': ASTYPE_DTYPES,
                   'shapes': '(), (0,), (1,), (2,), (3,), (2,2), (2,3), (3,2)'
                             + (', (4,), (1,2), (2,1), (0,2), (2,2,2); plus the full products '
                                'shape x dtype x weighting x exponent (tensor), domain x dtype x '
                                'nodes_on_bdry x exponent (discretized), base x length x weighting '
                                'x exponent (product spaces)' if tier == 'thorough' else ''),
                   'index_alphabet': 'ints, slices start/stop in {None,0,1,-1,n} x steps, '
                                     'Ellipsis, None, lists, bool masks (all 2^n), int arrays, '
                                     '2-d/3-d tuples mixing them'},
        'assumptions': [
            'array weightings compare by identity (documented), so the two builds of a recipe '
            'share the pool of weight arrays; weights given as lists are new arrays per build',
            'the docstrings of DiscretizedSpace.__eq__ and ProductSpace.__eq__ do not mention '
            'partition / weighting although the code compares them, and the weighting docstrings '
            'leave open whether equal data in different subclasses is equal: such pairs are '
            'counted as unspecified for the documented-identity oracle (the laws -- symmetry, '
            'transitivity, equal hashes -- are still checked on them)',
            'complex -> real conversion in element(), weighting after astype to a non-floating '
            'dtype, by-axis selection of per-entry weight arrays, empty by-axis selections of '
            'discretized spaces, UniversalSpace (documented dummy) are not judged',
            'hashing is required of sets, spaces, grids, partitions and weightings only '
            '(elements are documented unhashable)'],
    }


def summarize(results):
    kinds = {}
    for cfg, res in results:
        k = cfg.get('kind')
        d = kinds.setdefault(k, {'states': 0, 'evals': 0})
        d['states'] += 1
        d['evals'] += res.get('evals', 0)
    return {'per_kind': kinds}
