"""C09 - functional values, gradients and Lipschitz bounds agree with each other.

State = functional (registry class x options | derived by the library combinators | composition
with linear / nonlinear operators | product | quotient | sum | Moreau envelope; depth <= 2) x space.
Inside a state, over ALL points of V^n (small scope):
 (a) library value f(x) == reference interpreter value (documented formula) on all of V^n
 (b) on all admissible base points (interior of differentiability, registry predicate, also
     required at x +- h e_k) and ALL basis directions e_k:
        Richardson-extrapolated central difference of the *reference* values
        (h = 2^-6, 2^-9, 2^-12; two extrapolation steps)  ==  <grad f(x), e_k>_W  ==  f.derivative(x)(e_k)
 (c) finite grad_lipschitz L:  ||grad f(x) - grad f(y)||_W <= L ||x - y||_W on ALL pairs of base
     points (plus near-coincident pairs x, x + 2^-10 e_0)
"""
import itertools

import numpy as np
import odl

from mc import spaces as S
from mc.registry import functionals as FR
from mc.registry import derived as DV

PROPERTY = 'C09'
BUDGET = {'quick': 1500, 'thorough': 5400}
INF = float('inf')
H1, H2, H3 = 2.0 ** -6, 2.0 ** -9, 2.0 ** -12
QUICK_SPACES = ('rn2x2', 'pw_rn2_2_c', 'pw_rn2_1_c', 'rn3', 'ud3', 'rn3w2', 'rn3wa', 'ud3b', 'pw_rn2_2', 'pw_ud2_2', 'pr_rn2_rn2_w')
DER_BASES = ['L1Norm', 'L2NormSquared', 'L2Norm', 'KullbackLeibler', 'Huber',
             'KullbackLeiblerCrossEntropy', 'GroupL1Norm', 'KullbackLeiblerConvexConj',
             'KullbackLeiblerCrossEntropyConvexConj', 'ConstantFunctional', 'LpNorm']
DER_KINDS = ['translated', 'leftscal', 'leftscal_half', 'rightscal', 'rightscal_neg', 'quadpert_a0', 'scalarsum',
             'rightvec', 'quadpert', 'quadpert_nou', 'quadpert_c', 'bregman', 'rightscal0']
OPS = ['matrix', 'scaling', 'multiply', 'square', 'sin', 'exp', 'affine']


def configs(tier):
    thorough = tier == 'thorough'
    cfgs = []
    for spec in FR.SPECS:
        for sp in spec.spaces:
            if not thorough and sp not in QUICK_SPACES:
                continue
            for o in spec.opts:
                cfgs.append({'kind': 'spec', 'name': spec.name, 'space': sp, 'opt': o})
    # Huber on vector fields whose components carry weights (values and gradient must use the
    # same, weighted, pointwise norm)
    for sp in ('pw_rn2_2_c', 'pw_rn2_2_wl'):
        for o in FR.BY_NAME['Huber'].opts:
            cfgs.append({'kind': 'spec', 'name': 'Huber', 'space': sp, 'opt': o})
    for kd in DER_KINDS:
        for b in DER_BASES:
            spec = FR.BY_NAME[b]
            sps = [s for s in (['rn3', 'ud3', 'rn3wa', 'pw_rn2_2'] if not thorough else
                               ['rn3', 'ud3', 'rn3wa', 'rn3w2', 'ud3b', 'pw_rn2_2', 'pw_ud2_2'])
                   if s in spec.spaces]
            for sp in sps:
                cfgs.append({'kind': 'derived', 'der': [kd], 'name': b, 'space': sp})
    d2 = [('translated', 'leftscal'), ('leftscal', 'translated'), ('rightscal', 'translated'),
          ('translated', 'rightscal_neg'), ('quadpert', 'translated'), ('scalarsum', 'quadpert'),
          ('leftscal', 'quadpert'), ('translated', 'translated'), ('rightscal', 'rightscal'),
          ('leftscal', 'leftscal'), ('rightvec', 'leftscal'), ('leftscal', 'rightvec'),
          ('rightvec', 'translated'), ('translated', 'rightvec'), ('bregman', 'rightscal'),
          ('rightscal', 'quadpert'), ('quadpert', 'rightscal'), ('leftscal_half', 'leftscal'),
          ('leftscal', 'leftscal_half'), ('leftscal_half', 'leftscal_half'),
          ('leftscal_half', 'rightscal'), ('rightscal', 'leftscal_half')]
    if thorough:
        d2 = [(a, b) for a in DER_KINDS for b in DER_KINDS]
    for a, b in d2:
        for base in (['L2NormSquared', 'KullbackLeibler', 'Huber'] if not thorough
                     else DER_BASES):
            for sp in (['rn3wa'] if not thorough else ['rn3wa', 'ud3']):
                if sp in FR.BY_NAME[base].spaces:
                    cfgs.append({'kind': 'derived', 'der': [a, b], 'name': base, 'space': sp})
    pool = ['L1Norm', 'L2NormSquared', 'L2Norm', 'KullbackLeibler', 'Huber',
            'KullbackLeiblerCrossEntropy']
    for f1, f2 in itertools.product(pool, repeat=2):
        for sp in (['rn2', 'rn2wa'] if not thorough else ['rn2', 'rn2wa', 'ud2', 'rn2w2']):
            for comb in ('sum', 'product', 'quotient', 'sepsum'):
                if comb == 'sepsum' and sp != 'rn2':
                    continue
                cfgs.append({'kind': comb, 'f1': f1, 'f2': f2, 'space': sp})
    # derived functionals over a LINEAR base: affine results (constant, translation) must not keep
    # the linearity flag, which the scalar-multiple rewrites rely on
    for der in (['quadpert_c', 'rightscal'], ['quadpert_a0', 'rightscal'], ['scalarsum', 'rightscal'],
                ['translated', 'rightscal'], ['quadpert_c', 'rightscal_neg'], ['leftscal', 'rightscal'],
                ['quadpert_c'], ['rightscal'], ['rightvec', 'rightscal']):
        for sp in ('rn2', 'rn2wa'):
            cfgs.append({'kind': 'derived', 'der': der, 'name': '@linear', 'space': sp})
    # factors / dividends that VANISH at points of the alphabet where their gradient does not: a
    # linear functional (zero on a hyperplane) and |x|^2 - 1 (zero on the unit sphere)
    for f1 in sorted(ADHOC):
        for f2 in ('L2NormSquared', 'Huber', 'L2Norm'):
            for sp in ('rn2', 'rn2wa'):
                if f2 == 'Huber' and sp == 'rn2wa':
                    continue        # Huber.gradient on array-weighted spaces: see the Huber spec
                for comb in ('product', 'quotient'):
                    cfgs.append({'kind': comb, 'f1': f1, 'f2': f2, 'space': sp})
                cfgs.append({'kind': 'product', 'f1': f2, 'f2': f1, 'space': sp})
    for b in pool + ['LpNorm', 'ConstantFunctional']:
        for opn in OPS:
            for sp in (['rn3', 'ud3', 'rn3wa'] if not thorough else ['rn3', 'ud3', 'rn3wa',
                                                                    'rn3w2', 'ud3b']):
                cfgs.append({'kind': 'comp', 'name': b, 'op': opn, 'space': sp})
    for b in ['L1Norm', 'L2Norm', 'L2NormSquared', 'IndicatorBox', 'Huber', 'KullbackLeibler',
              'IndicatorLpUnitBall']:
        for sp in (['rn3', 'ud3', 'rn3wa'] if not thorough else ['rn3', 'ud3', 'rn3wa', 'rn3w2']):
            for sg in (0.5, 2.0):
                cfgs.append({'kind': 'moreau', 'name': b, 'space': sp, 'sigma': sg})
    for sp in ('rn2', 'rn2w2', 'ud2'):
        for mat in ('sym', 'nonsym'):
            for v in (0, 1):
                cfgs.append({'kind': 'quadform', 'space': sp, 'mat': mat, 'vec': v})
        # no quadratic part: linear (constant 0) or affine (constant != 0), argument-scaled
        for c in (0.0, 0.5):
            for sc in (None, 2.0, -0.5):
                cfgs.append({'kind': 'quadform', 'space': sp, 'mat': 'none', 'vec': 1, 'const': c,
                             'scale': sc})
    for sp in ('rn3', 'rn3f32', 'ud3', 'rn1', 'rn2', 'rn4', 'rn2x2'):
        for meth in ('forward', 'central', 'backward'):
            for nm in ('L2NormSquared', 'Huber', 'KullbackLeibler'):
                if nm == 'KullbackLeibler' and sp in ('rn3f32', 'rn1', 'rn2', 'rn4', 'rn2x2'):
                    continue
                cfgs.append({'kind': 'numgrad', 'space': sp, 'method': meth, 'name': nm})
    # simple_functional: which of the ingredients are given, and in which form
    for sp in ('rn3', 'rn3wa', 'ud3'):
        cfgs.append({'kind': 'simple', 'space': sp, 'form': 'identity', 'given': 'grad'})
        for form in ('callables', 'operators'):
            for given in ('grad', 'grad+conj_grad', 'all'):
                cfgs.append({'kind': 'simple', 'space': sp, 'form': form, 'given': given})
                if given != 'grad':
                    cfgs.append({'kind': 'simple', 'space': sp, 'form': form, 'given': given,
                                 'conj': 1})
    return cfgs


class _Adhoc(object):
    opts = [{}]
    posdom = False
    dom = None
    V = FR.V5

    def __init__(self, build, ref):
        self.build, self.ref = build, ref


_LB = [1.0, -1.0, 2.0, -0.5]
ADHOC = {
    '@linear': _Adhoc(
        lambda sp, o: odl.solvers.QuadraticForm(vector=S.from_flat(sp, np.resize(_LB, S.flat_size(sp)))),
        lambda info, o: (lambda z: info.inner(z, np.resize(_LB, info.n)))),
    '@l2sq-1': _Adhoc(lambda sp, o: odl.solvers.L2NormSquared(sp) - 1.0,
                      lambda info, o: (lambda z: info.norm2(z) - 1.0)),
}


def _spec(name):
    return ADHOC[name] if name in ADHOC else FR.BY_NAME[name]


def _sk(name):
    from mc.props.c08 import _sk as f
    return f(name)


def _site(cfg):
    k = cfg['kind']
    if k == 'spec':
        o = ','.join('%s=%s' % kv for kv in sorted(cfg['opt'].items()))
        return '%s(%s)[%s]' % (cfg['name'], o, _sk(cfg['space']))
    if k == 'derived':
        return '%s.%s[%s]' % (cfg['name'], '.'.join(cfg['der']), _sk(cfg['space']))
    if k in ('sum', 'product', 'quotient', 'sepsum'):
        nm = {'sum': 'FunctionalSum', 'product': 'FunctionalProduct',
              'quotient': 'FunctionalQuotient', 'sepsum': 'SeparableSum'}[k]
        return '%s(%s,%s)[%s]' % (nm, cfg['f1'], cfg['f2'], _sk(cfg['space']))
    if k == 'comp':
        return 'FunctionalComp(%s,%s)[%s]' % (cfg['name'], cfg['op'], _sk(cfg['space']))
    if k == 'moreau':
        return 'MoreauEnvelope(%s)[%s]' % (cfg['name'], _sk(cfg['space']))
    if k == 'quadform':
        extra = ''
        if cfg['mat'] == 'none':
            extra = ',const=%s,scaled=%s' % (cfg['const'] != 0, cfg.get('scale') is not None)
        return 'QuadraticForm[%s,vector=%d%s,%s]' % (cfg['mat'], cfg['vec'], extra, _sk(cfg['space']))
    if k == 'numgrad':
        return 'NumericalGradient[%s,%s,%s,%s%s]' % (cfg['method'], cfg['name'],
                                                     'single' if cfg['space'] == 'rn3f32' else 'double',
                                                     _sk(cfg['space']) if cfg['space'] != 'rn3f32'
                                                     else 'tensor,unweighted',
                                                     ',size=%s' % cfg['space'][2:]
                                                     if cfg['space'] in ('rn1', 'rn2', 'rn4') else ',shape=2x2' if cfg['space'] == 'rn2x2' else '')
    if k == 'simple':
        return 'simple_functional%s[%s,%s,%s]' % ('.convex_conj' if cfg.get('conj') else '',
                                                   cfg['given'], cfg['form'], _sk(cfg['space']))
    return k


class _PInfo(FR.Info):
    def __init__(self, space):
        self.name = 'adhoc'
        self.space = space
        self.n = S.flat_size(space)
        self.w = S.weights(space)
        self.ncomp = None
        self.nested = None


_M = np.array([[1.0, -0.5, 2.0], [0.0, 1.0, 0.5], [2.0, 0.0, -1.0]])
_MV = np.array([2.0, -0.5, 1.0])
_AV = np.array([0.5, -1.0, 2.0])


def _operator(opn, info):
    """-> (odl operator dom->dom, reference map on flat arrays, keeps-positivity?)"""
    sp = info.space
    if opn == 'matrix':
        if not np.all(info.w == info.w[0]):
            raise NotImplementedError     # MatrixOperator between weighted spaces: C05 matter
        return odl.MatrixOperator(_M, domain=sp, range=sp), (lambda z: _M.dot(z)), False
    if opn == 'scaling':
        return odl.ScalingOperator(sp, -1.5), (lambda z: -1.5 * np.asarray(z)), False
    if opn == 'multiply':
        return (odl.MultiplyOperator(info.elem(_MV), domain=sp, range=sp),
                (lambda z: _MV * np.asarray(z)), False)
    if opn == 'square':
        return odl.PowerOperator(sp, 2), (lambda z: np.asarray(z) ** 2), True
    if opn == 'sin':
        return odl.ufunc_ops.sin(sp), (lambda z: np.sin(z)), False
    if opn == 'exp':
        return odl.ufunc_ops.exp(sp), (lambda z: np.exp(z)), True
    if opn == 'affine':
        return (odl.ScalingOperator(sp, 2.0) + info.elem(_AV),
                (lambda z: 2.0 * np.asarray(z) + _AV), False)
    raise KeyError(opn)


def _build(cfg):
    k = cfg['kind']
    if k == 'spec':
        spec = FR.BY_NAME[cfg['name']]
        info = FR.info(cfg['space'])
        o = cfg['opt']
        return dict(f=spec.build(info.space, o), info=info, ref=spec.ref(info, o), V=spec.V,
                    dom=spec.dom(info, o) if spec.dom else (lambda z: True))
    if k == 'derived':
        spec = _spec(cfg['name'])
        info = FR.info(cfg['space'])
        o = spec.opts[0]
        f, ref = spec.build(info.space, o), spec.ref(info, o)
        dom = spec.dom(info, o) if spec.dom else (lambda z: True)
        for kd in cfg['der']:
            d = DV.derive(kd, f, ref, None, info)
            f, ref = d['func'], d['ref']
            if kd == 'rightscal0':
                dom = (lambda z: True) if dom is not None else None
            elif dom is not None:
                dom = (lambda dm, arg: (lambda z: dm(arg(z))))(dom, d['arg'])
        return dict(f=f, info=info, ref=ref, V=spec.V, dom=dom)
    if k in ('sum', 'product', 'quotient', 'sepsum'):
        s1, s2 = _spec(cfg['f1']), _spec(cfg['f2'])
        o1, o2 = s1.opts[0], s2.opts[0]
        info = FR.info(cfg['space'])
        f1, f2 = s1.build(info.space, o1), s2.build(info.space, o2)
        r1, r2 = s1.ref(info, o1), s2.ref(info, o2)
        d1 = s1.dom(info, o1) if s1.dom else (lambda z: True)
        d2 = s2.dom(info, o2) if s2.dom else (lambda z: True)
        pos = s1.posdom or s2.posdom
        V = FR.V5P if pos else FR.V5
        if k == 'sepsum':
            f = odl.solvers.SeparableSum(f1, f2)
            dom = (lambda z: d1(z[:2]) and d2(z[2:])) if d1 and d2 else None
            return dict(f=f, info=_PInfo(f.domain), ref=lambda z: r1(z[:2]) + r2(z[2:]),
                        V=[0.25, 1.0, 3.0] if pos else [-2.0, 0.5, 3.0], dom=dom)
        dom = (lambda z: d1(z) and d2(z)) if d1 and d2 else None
        if k == 'sum':
            return dict(f=f1 + f2, info=info, ref=lambda z: r1(z) + r2(z), V=V, dom=dom)
        if k == 'product':
            return dict(f=odl.solvers.FunctionalProduct(f1, f2), info=info,
                        ref=lambda z: r1(z) * r2(z), V=V, dom=dom)
        dq = None
        if dom is not None:
            dq = lambda z: dom(z) and abs(r2(z)) > 1e-2
        return dict(f=odl.solvers.FunctionalQuotient(f1, f2), info=info,
                    ref=lambda z: (r1(z) / r2(z)) if r2(z) != 0 else float('nan'), V=V, dom=dq,
                    valdom=lambda z: abs(r2(z)) > 1e-9)
    if k == 'comp':
        spec = FR.BY_NAME[cfg['name']]
        info = FR.info(cfg['space'])
        o = spec.opts[0]
        f0, r0 = spec.build(info.space, o), spec.ref(info, o)
        A, Aref, keeps_pos = _operator(cfg['op'], info)
        d0 = spec.dom(info, o) if spec.dom else (lambda z: True)
        dom = None
        if d0 is not None:
            dom = lambda z: d0(Aref(z))
        V = FR.V5
        if spec.posdom:
            V = [-2.0, -0.5, 0.25, 1.0, 3.0] if keeps_pos else FR.V5P
        return dict(f=f0 * A, info=info, ref=lambda z: r0(Aref(z)), V=V, dom=dom)
    if k == 'moreau':
        spec = FR.BY_NAME[cfg['name']]
        info = FR.info(cfg['space'])
        o = spec.opts[0]
        f0, r0 = spec.build(info.space, o), spec.ref(info, o)
        sg = cfg['sigma']
        f = odl.solvers.MoreauEnvelope(f0, sigma=sg)
        prox = f0.proximal(sg)

        def env(z):
            # envelope value through the library's proximal (certified by C07) and f_ref
            p = S.to_flat(prox(info.elem(z))).astype(float)
            FR.BAND_FEASIBLE[0] = True
            try:
                v = r0(p)
            finally:
                FR.BAND_FEASIBLE[0] = False
            return v + info.norm2(p - np.asarray(z)) / (2 * sg)
        V = FR.V5P if spec.posdom else FR.V5
        return dict(f=f, info=info, ref=env, V=V, dom=lambda z: True, novalue=True,
                    c11=1.0 / sg)
    if k == 'quadform' and cfg['mat'] == 'none':
        info = FR.info(cfg['space'])
        b = np.array([0.5, -1.0])
        c = cfg['const']
        f = odl.solvers.QuadraticForm(vector=info.elem(b), constant=c)
        sc = cfg.get('scale')
        if sc is not None:
            f = f * sc        # documented: (f * a)(x) = f(a * x)
        a = 1.0 if sc is None else sc
        return dict(f=f, info=info, ref=lambda z: info.inner(a * np.asarray(z), b) + c, V=FR.V5,
                    dom=lambda z: True)
    if k == 'simple':
        # f = 3/2 |x|^2 (gradient 3x, Lipschitz constant 3), f* = |y|^2 / 6 (gradient y/3)
        info = FR.info(cfg['space'])
        sp = info.space
        ops = cfg['form'] == 'operators'
        if cfg['form'] == 'identity':
            # f = |x|^2 / 2: the gradient callable hands back ITS ARGUMENT (the cheapest legal form)
            f = odl.solvers.simple_functional(sp, fcall=lambda x: 0.5 * x.inner(x),
                                              grad=lambda x: x, grad_lip=1.0)
            return dict(f=f, info=info, ref=lambda z: 0.5 * info.norm2(z), V=FR.V5,
                        dom=lambda z: True)
        kw = dict(fcall=lambda x: 1.5 * x.inner(x),
                  grad=odl.ScalingOperator(sp, 3.0) if ops else (lambda x: 3.0 * x), grad_lip=3.0)
        if cfg['given'] in ('grad+conj_grad', 'all'):
            kw['convex_conj_grad'] = odl.ScalingOperator(sp, 1.0 / 3) if ops else (lambda y: y / 3.0)
            kw['convex_conj_fcall'] = lambda y: y.inner(y) / 6.0
            kw['convex_conj_grad_lip'] = 1.0 / 3
        if cfg['given'] == 'all':
            kw['prox'] = lambda sig: odl.ScalingOperator(sp, 1.0 / (1.0 + 3.0 * sig))
            kw['convex_conj_prox'] = lambda sig: odl.ScalingOperator(sp, 1.0 / (1.0 + sig / 3.0))
        f = odl.solvers.simple_functional(sp, **kw)
        if cfg.get('conj'):
            f = f.convex_conj
            return dict(f=f, info=info, ref=lambda z: info.norm2(z) / 6.0, V=FR.V5,
                        dom=lambda z: True)
        return dict(f=f, info=info, ref=lambda z: 1.5 * info.norm2(z), V=FR.V5, dom=lambda z: True)
    if k == 'quadform':
        info = FR.info(cfg['space'])
        A = np.array([[2.0, 0.5], [0.5, 1.0]]) if cfg['mat'] == 'sym' else \
            np.array([[2.0, 1.0], [0.0, 1.0]])
        b = np.array([0.5, -1.0]) if cfg['vec'] else None
        op = odl.MatrixOperator(A, domain=info.space, range=info.space)
        f = odl.solvers.QuadraticForm(op, None if b is None else info.elem(b), 0.5)
        bb = np.zeros(2) if b is None else b
        return dict(f=f, info=info,
                    ref=lambda z: info.inner(z, A.dot(z)) + info.inner(z, bb) + 0.5,
                    V=FR.V5, dom=lambda z: True)
    raise KeyError(k)


def _eq(a, b, tol):
    if not (np.isfinite(a) and np.isfinite(b)):
        return (a == b) or (np.isnan(a) and np.isnan(b))
    return abs(a - b) <= tol * (1.0 + max(abs(a), abs(b)))


def _run_numgrad(cfg, site):
    """NumericalGradient (default step) against the analytic gradient, on double and single
    precision spaces: the documented approximation must be accurate to its truncation order."""
    spec = FR.BY_NAME[cfg['name']]
    info = FR.info(cfg['space'])
    o = spec.opts[0]
    f = spec.build(info.space, o)
    first = {}
    evals = 0
    single = cfg['space'] == 'rn3f32'
    try:
        ng = odl.solvers.NumericalGradient(f, method=cfg['method'])
        dom = spec.dom(info, o) if spec.dom else (lambda z: True)
        V = [0.25, 2.0, 3.0] if spec.posdom else [-2.0, 0.75, 3.0]
        for x in S.points(info.n, V):
            if not all(dom(x + s * 0.05 * e) for e in np.eye(info.n) for s in (1, -1)):
                continue
            xe = info.elem(x)
            ga = S.to_flat(f.gradient(xe)).astype(float)
            gn = S.to_flat(ng(xe)).astype(float)
            evals += 1
            tol = (5e-2 if single else 1e-4) * (1.0 + np.abs(ga).max())
            if not np.all(np.isfinite(gn)) or np.abs(gn - ga).max() > tol:
                first.setdefault('numerical_gradient_far_from_gradient',
                                 'x=%s: NumericalGradient gives %s, gradient is %s'
                                 % (x.tolist(), gn.tolist(), ga.tolist()))
    except Exception as e:
        first.setdefault('raises:' + type(e).__name__, repr(e)[:300])
    return {'evals': evals, 'sig': site,
            'viol': [{'site': site, 'symptom': s, 'detail': d} for s, d in first.items()]}


def run(cfg):
    site = _site(cfg)
    if cfg['kind'] == 'numgrad':
        return _run_numgrad(cfg, site)
    try:
        B = _build(cfg)
    except NotImplementedError:
        return {'evals': 0, 'skipped': 1, 'trivial': True, 'sig': 'notimpl'}
    except Exception as e:
        return {'evals': 1, 'sig': 'build-raises',
                'viol': [{'site': site, 'symptom': 'construction_raises:' + type(e).__name__,
                          'detail': repr(e)[:300]}]}
    f, info, ref, V, dom = B['f'], B['info'], B['ref'], B['V'], B['dom']
    n = info.n
    w = info.w
    first = {}
    evals = 0
    skipped = 0
    alph = V if n <= 3 else [V[0], V[len(V) // 2], V[-1]]
    X = list(S.points(n, alph))
    # (a) values
    if not B.get('novalue'):
        valdom = B.get('valdom', lambda z: True)
        for x in X:
            if not valdom(x):
                skipped += 1
                continue
            r = ref(x)
            FR.BAND_FEASIBLE[0] = True
            try:
                r2 = ref(x)
            finally:
                FR.BAND_FEASIBLE[0] = False
            if r != r2 and not (np.isnan(r) and np.isnan(r2)):
                skipped += 1
                continue
            try:
                v = float(np.real(f(info.elem(x))))
            except NotImplementedError:
                break
            except Exception as e:
                first.setdefault('value_raises:' + type(e).__name__, 'f(%s): %r' % (x.tolist(), e))
                continue
            evals += 1
            if not _eq(v, r, 1e-10):
                first.setdefault('value_differs', 'f(%s)=%r documented value %r'
                                 % (x.tolist(), v, r))
    # (b) gradients
    grad = None
    if dom is not None:
        try:
            grad = f.gradient
        except NotImplementedError:
            grad = None
        except Exception as e:
            first.setdefault('gradient_construction_raises:' + type(e).__name__, repr(e)[:300])
    base, G = [], []
    nsig = 0
    if grad is not None:
        eye = np.eye(n)
        for x in X:
            ok = dom(x) and all(dom(x + s * H1 * eye[k]) for k in range(n) for s in (1, -1))
            if not ok:
                continue
            try:
                ge = grad(info.elem(x))
                g = S.to_flat(ge).astype(float)
                if S.has_layout(info.space):
                    xf = S.from_flat_F(info.space, x)
                    gf = S.to_flat(grad(xf)).astype(float)
                    vf, vc = float(np.real(f(xf))), float(np.real(f(info.elem(x))))
                    evals += 2
                    if not np.array_equal(gf, g, equal_nan=True) or not _eq(vf, vc, 1e-14):
                        first.setdefault('value_or_gradient_depends_on_memory_layout_of_x',
                                         'x=%s: f=%r grad=%s for C-ordered x, f=%r grad=%s for the '
                                         'same x wrapping a Fortran-ordered array'
                                         % (x.tolist(), vc, g.tolist(), vf, gf.tolist()))
            except NotImplementedError:
                grad = None
                break
            except Exception as e:
                first.setdefault('gradient_raises:' + type(e).__name__,
                                 'x=%s: %r' % (x.tolist(), e))
                continue
            evals += 1
            try:
                deriv = f.derivative(info.elem(x))
            except Exception as e:
                deriv = None
                first.setdefault('derivative_raises:' + type(e).__name__,
                                 'x=%s: %r' % (x.tolist(), e))
            fx = ref(x)
            scale = 1.0 + abs(fx)
            for k in range(n):
                d1 = (ref(x + H1 * eye[k]) - ref(x - H1 * eye[k])) / (2 * H1)
                d2 = (ref(x + H2 * eye[k]) - ref(x - H2 * eye[k])) / (2 * H2)
                d3 = (ref(x + H3 * eye[k]) - ref(x - H3 * eye[k])) / (2 * H3)
                # two Richardson steps (ratio 8): removes the h^2 and the h^4 error terms
                ra, rb = (64.0 * d2 - d1) / 63.0, (64.0 * d3 - d2) / 63.0
                rich = (4096.0 * rb - ra) / 4095.0
                target = w[k] * g[k]
                evals += 1
                tol = 2e-7 * (scale + abs(rich)) + 1e-12 * scale / H3
                if B.get('c11') is not None:
                    # only C^{1,1}: no extrapolation; a gradient with Lipschitz constant L gives
                    # |central difference - derivative| <= L h / 2 along e_k (in the W metric)
                    rich = d3
                    tol = B['c11'] * w[k] * H3 / 2 * (1 + 1e-6) + 1e-12 * scale / H3
                if not np.isfinite(rich):
                    skipped += 1
                    continue
                if abs(target - rich) > tol:
                    first.setdefault('gradient_differs_from_directional_derivative',
                                     'x=%s direction e_%d: <grad,e>_W=%r, central differences of the '
                                     'values give %r (h=2^-6: %r, h=2^-9: %r), grad=%s'
                                     % (x.tolist(), k, target, rich, d1, d2, g.tolist()))
                if deriv is not None:
                    try:
                        dv = float(np.real(deriv(info.elem(eye[k]))))
                        evals += 1
                        if abs(dv - rich) > tol:
                            first.setdefault('derivative_differs_from_directional_derivative',
                                             'x=%s direction e_%d: derivative(x)(e)=%r, central '
                                             'differences give %r' % (x.tolist(), k, dv, rich))
                    except Exception as e:
                        first.setdefault('derivative_raises:' + type(e).__name__,
                                         'x=%s: %r' % (x.tolist(), e))
            base.append(x)
            G.append(g)
            nsig += 1
    # (b'') history: D = f.derivative(x) is the derivative AT x; Functional.derivative hands the
    # gradient to `.T`, which is documented and implemented as a copy ("InnerProductOperator(
    # self.copy())"), so D must not follow the element x when the caller updates it in place later
    if grad is not None and base:
        for x0 in base[:2]:
            try:
                xe = info.elem(np.asarray(x0, float))
                D = f.derivative(xe)
                v0 = [float(np.real(D(info.elem(eye[k])))) for k in range(n)]
                xe.lincomb(2.0, xe)
                xe += info.elem(np.ones(n))
                v1 = [float(np.real(D(info.elem(eye[k])))) for k in range(n)]
                evals += 2 * n
                if any(not _eq(a, b, 1e-12) for a, b in zip(v0, v1)):
                    first.setdefault('derivative_follows_later_updates_of_the_base_point',
                                     'D = f.derivative(x), x=%s: D(e_k)=%s; after x was updated in '
                                     'place (x <- 2x + 1) the same D gives %s'
                                     % (np.asarray(x0).tolist(), v0, v1))
            except Exception:
                pass        # failures of derivative() itself are judged in (b)
    # (b') the same at base points of tiny magnitude (x * 2^-30, steps scaled alike): exact tests in
    # a gradient ("norm == 0") must not be tolerance-based ones.  Only where the values themselves
    # are of the order of the scale (norms, Huber, quadratic terms), so that the difference
    # quotients keep their accuracy; smooth (not merely C^{1,1}) functionals only.
    if grad is not None and B.get('c11') is None:
        sc = 2.0 ** -30
        ntiny = 0
        # x0 and x0 +- H1 e_k are admissible (they are base points of (b)); the sets where the
        # registry's functionals are not differentiable are cones through 0 or lie at distance O(1)
        # from 0, so the scaled stencil is admissible too - and a stencil that did cross a kink
        # fails the agreement test below and is not judged
        for x0 in base:
            if ntiny >= 6:
                break
            x = sc * np.asarray(x0, float)
            vals = [ref(x)] + [ref(x + s_ * sc * H1 * eye[k]) for k in range(n) for s_ in (1, -1)]
            if not all(np.isfinite(v) and abs(v) <= 64 * sc for v in vals):
                skipped += 1
                continue
            try:
                g = S.to_flat(grad(info.elem(x))).astype(float)
            except Exception as e:
                first.setdefault('gradient_raises:' + type(e).__name__,
                                 'x=%s: %r' % (x.tolist(), e))
                continue
            ntiny += 1
            evals += 1
            for k in range(n):
                ds = [(ref(x + sc * h * eye[k]) - ref(x - sc * h * eye[k])) / (2 * sc * h)
                      for h in (H1, H2, H3)]
                # at these step sizes the h^2 term is far below round-off for a smooth functional:
                # the three quotients must agree with each other, otherwise the REFERENCE values
                # are not accurate enough at this scale (exp(x) - 1 and the like) - undecided
                rich = ds[0]
                if not all(np.isfinite(d) for d in ds) or \
                        max(abs(ds[1] - ds[0]), abs(ds[2] - ds[0])) > 1e-8 * (1 + abs(rich)):
                    skipped += 1
                    continue
                evals += 1
                if abs(w[k] * g[k] - rich) > 1e-6 * (1 + abs(rich)):
                    first.setdefault('gradient_differs_from_directional_derivative',
                                     'x=%s (tiny magnitude) direction e_%d: <grad,e>_W=%r, central '
                                     'differences of the values with steps 2^-30 * (2^-6, 2^-9, 2^-12) '
                                     'give %r, grad=%s' % (x.tolist(), k, w[k] * g[k], rich, g.tolist()))
    # (c) Lipschitz bound
    L = None
    try:
        L = float(f.grad_lipschitz)
    except Exception:
        L = None
    lipsig = 'nolip'
    if grad is not None and L is not None and np.isfinite(L) and len(base) >= 1:
        lipsig = 'lip'
        pts = list(base)
        gs = list(G)
        # near-coincident partners
        for x in base[:12]:
            y = x.copy()
            y[0] += 2.0 ** -10
            if dom(y):
                try:
                    gs.append(S.to_flat(grad(info.elem(y))).astype(float))
                    pts.append(y)
                    evals += 1
                except Exception:
                    pass
        P = np.array(pts)
        GG = np.array(gs)
        dx = np.sqrt(np.sum(w * (P[:, None, :] - P[None, :, :]) ** 2, axis=2))
        dg = np.sqrt(np.sum(w * (GG[:, None, :] - GG[None, :, :]) ** 2, axis=2))
        bad = dg > L * dx * (1 + 1e-9) + 1e-12
        evals += bad.size
        if bad.any():
            i, j = np.argwhere(bad)[0]
            first.setdefault('grad_lipschitz_not_an_upper_bound',
                             'grad_lipschitz=%r but x=%s y=%s: |grad f(x)-grad f(y)|=%r > L|x-y|=%r '
                             '(ratio %r)' % (L, P[i].tolist(), P[j].tolist(), dg[i, j],
                                             L * dx[i, j], dg[i, j] / dx[i, j]))
    viol = [{'site': site, 'symptom': s, 'detail': d} for s, d in first.items()]
    return {'evals': evals, 'viol': viol, 'skipped': skipped,
            'sig': '%s:%s:%s' % (site.split('[')[0], 'grad' if nsig else 'nograd', lipsig),
            'trivial': evals == 0}


def meta(tier):
    return {
        'rule': 'state = functional (registry class x options | derived, depth <= 2 | sum, product, '
                'quotient, separable sum | composition with 7 linear/nonlinear operators | Moreau '
                'envelope | quadratic form) x space; inside: values on all of V^n against the '
                'reference interpreter; on all admissible base points and all basis directions the '
                'Richardson-extrapolated central difference (h=2^-6,2^-9,2^-12) of the reference values '
                'against <grad,e_k>_W and derivative(x)(e_k); Lipschitz bound on all pairs of base '
                'points. distinct = (site, has gradient, has finite Lipschitz constant)',
        'bounds': {'V': FR.V5, 'h': [H1, H2, H3], 'n': '<= 3 full alphabet, 4: 3 values'},
        'assumptions': ['directional derivatives are taken of the reference values (validated '
                        'against the library values in clause (a))',
                        'tolerance 2e-7 relative + rounding floor 1e-9/h; differentiability domain '
                        'from the registry, enforced with margin h'],
    }
