"""C02 - inner product, norm and distance obey their axioms and the documented weighting.

Exploration: configuration space.  A state is one complete space configuration

  tensor   shape x dtype x memory layout (C, F, x-F/y-C, strided views) x weighting
           (none, constant, per-entry array in C or F layout) x exponent x size regime
           (< 100, < 50 000, > 50 000: the dot / tensordot / BLAS switches)
  discr    uniform_discr: shape x EVERY per-axis-side nodes_on_bdry combination x domain
           extent class (unit box, uneven box, cell volume exactly 1) x dtype x exponent x
           weighting (default cell volume, explicit constant, explicit array)
  gdiscr   uniform_discr_frompartition over uniform_partition_fromgrid(grid, min_pt, max_pt):
           grids NOT aligned with their domain, outermost cells cropped / extended so that the
           boundary-cell fractions are 1/2, 3/4, 1, 3/2, 7/4 independently per axis side
  prod     product spaces over tensor / discretized leaves: pairs, powers, nested to depth 3,
           own weighting (none, constant, per-component array) and exponent per node
  custom   user supplied inner= / norm= / dist= callables (tensor and product spaces)
  derived  spaces and elements reached from a tensor / discretized space through astype(dtype),
           real_space, complex_space, x.real, x.imag, x.conj(), x.copy(), x.astype(dtype): they
           carry the weighting and the exponent of the space they come from
  regimes  discretized spaces far from the origin, with tiny / huge cells, and with boundary-cell
           fractions next to (not equal to) 1 and 1/2: tolerances inside the library are visible

Inside a state the real odl code (x.inner(y), x.norm(), x.dist(y)) is executed
  * on ALL pairs of V^n when the space has at most 3 real (2 complex) entries (small scope),
    otherwise on all pairs of a fixed family of "packed" dyadic vectors plus basis vectors;
  * on the complete real basis (e_k and i e_k): the Gram matrix decides the inner product for
    all inputs by sesquilinearity (checked separately on <s x + z, y>).
Oracle (mc/ref/c02_ref.py, NumPy reductions with an EXPLICIT weight array computed from
min_pt / max_pt / shape / nodes_on_bdry in rational arithmetic, no odl code):
  (a) documented formula for inner / norm / dist, (b) axioms: conjugate symmetry, linearity in
  the first argument, positivity, Cauchy-Schwarz, absolute homogeneity, triangle inequality,
  norm = sqrt(inner), dist(x, y) = ||x - y|| = dist(y, x), (c) ||one||^2 = domain volume.
"""
import itertools
import math

import numpy as np
import odl

from mc.ref import c02_ref as R

PROPERTY = 'C02'
BUDGET = {'quick': 1500, 'thorough': 3600}
INF = float('inf')

# value alphabets (dyadic: sums and products are exact in single and double precision)
AL = [1.0, -2.0, 0.5, 0.0, 3.0, -0.5, 2.0, -1.0]
V5 = [-2.0, -0.5, 0.0, 1.0, 3.0]
V3 = [-2.0, 0.0, 1.0]
VC = [0.0, 1.0, 1j, -0.5 + 2j]
S_REAL = [0.0, 1.0, -1.0, 2.0, 0.5, -3.0]
S_CPLX = [1j, 1 + 1j, -0.5j]
WA = [1.0, 2.0, 0.5, 4.0, 0.25, 3.0, 1.5, 0.75]        # per-entry weights (tensor spaces)
WAI = [1, 2, 3, 4, 1, 3, 2, 5]                          # per-entry weights, integer spaces
S_INT = [0, 1, -1, 2, -3]                               # scalars on integer spaces
PWA = [2.0, 0.5, 1.5, 1.0, 4.0]                         # per-component weights (product spaces)
# uneven box, sides 1.75, 3.25, 0.75: no cell side and no cell volume is 1 for any enumerated
# shape / boundary choice (the unit-cell regime is enumerated on purpose by 'cell1'/'cellinv')
WIDE = [(-1.0, 0.75), (0.5, 3.75), (-2.0, -1.25)]
INV_SIDES = [0.5, 2.0, 1.0]                             # cell sides with product exactly 1
# magnitude regimes of the geometry (all dyadic, so every grid coordinate stays exact): domains far
# from the origin (half a cell far below 1e-5 * |coordinate|), cells of tiny / huge physical size
# (half a cell far below 1e-8).  Tolerances inside the library that are absolute, or relative to
# the coordinate instead of the cell, become visible there.
FAR = [2.0 ** 20, -2.0 ** 24, 2.0 ** 17]
FARFINE = [1024.0, -4096.0, 512.0]
TINY = 2.0 ** -30
HUGE = 2.0 ** 20
GEO_REGIMES = ('far', 'farfine', 'farwide', 'tiny', 'tinywide', 'huge')


def _p(v):
    return INF if v == 'inf' else float(v)


def _pcls(v):
    return 'p=%s' % (v if v in (1, 2, 'inf') else 'other')


# ------------------------------------------------------------------------------------------
# nodes: a space built by odl together with its reference model

class Node(object):
    """space + flat coordinates + reference formulas."""
    space = None
    n = 0               # number of scalar entries (flat size)
    cplx = False
    single = False      # some leaf is single precision
    exact = False       # dyadic weights: sums are exact
    p = 2.0
    has_inner = True
    has_norm = True
    judge = True        # False: the documentation does not define the formula here
    integer = False     # integer dtype: all alphabets are doubled (even integers), integer scalars
    warr = False        # weighted by an array (space.weighting.array exists)
    volume = None       # domain volume where ||one||^2 = volume is promised

    def make(self, flat, role='x'):
        raise NotImplementedError

    def inner(self, x, y):
        raise NotImplementedError

    def iscale(self, x, y):
        raise NotImplementedError

    def norm(self, x):
        raise NotImplementedError

    def dist(self, x, y):
        return self.norm(np.asarray(x) - np.asarray(y))


class Diag(Node):
    """Space whose inner product is diagonal with the explicit weight array W (flat, C order)."""

    def __init__(self, space, shape, dtype, W, p, lay):
        self.space = space
        self.shape = tuple(shape)
        self.dtype = np.dtype(dtype)
        self.n = int(np.prod(self.shape))
        self.cplx = self.dtype.kind == 'c'
        self.single = self.dtype in (np.dtype('float32'), np.dtype('complex64'))
        self.integer = self.dtype.kind in 'iu'
        self.W = np.asarray(W, dtype=float).ravel()
        self.p = p
        self.lay = lay
        self.has_inner = p == 2.0

    def make(self, flat, role='x'):
        a = np.asarray(flat).astype(self.dtype).reshape(self.shape)
        # one code: both operands; two codes: first operand (x), second operand (y)
        lay = self.lay if len(self.lay) == 1 else self.lay[0 if role == 'x' else 1]
        if lay == 'F':
            a = np.asfortranarray(a)
        elif lay == 'T':                        # transposed view of a C-ordered block
            base = np.array(a.T, order='C', copy=True)
            a = base.T
        elif lay == 'S':
            big = np.zeros(tuple(2 * s for s in self.shape), dtype=self.dtype)
            view = big[tuple(slice(None, None, 2) for _ in self.shape)]
            view[...] = a
            a = view
        else:
            a = np.array(a, order='C', copy=True)
        return self.space.element(a)

    def inner(self, x, y):
        return R.inner_w(self.W, x, y)

    def iscale(self, x, y):
        return R.inner_scale(self.W, x, y)

    def norm(self, x):
        return R.norm_w(self.W, x, self.p)


class Prod(Node):
    def __init__(self, space, parts, w, p):
        self.space = space
        self.parts = parts
        self.w = [float(v) for v in w]
        self.p = p
        self.n = sum(c.n for c in parts)
        self.cplx = any(c.cplx for c in parts)
        self.single = any(c.single for c in parts)
        self.exact = all(c.exact for c in parts)
        self.has_norm = all(c.has_norm for c in parts)
        self.has_inner = p == 2.0 and all(c.has_inner for c in parts)
        self.judge = all(c.judge for c in parts)

    def split(self, flat):
        flat = np.asarray(flat)
        out, pos = [], 0
        for c in self.parts:
            out.append(flat[pos:pos + c.n])
            pos += c.n
        return out

    def make(self, flat, role='x'):
        return self.space.element([c.make(f, role) for c, f in zip(self.parts, self.split(flat))])

    def inner(self, x, y):
        return R.prod_inner([c.inner(a, b) for c, a, b in
                             zip(self.parts, self.split(x), self.split(y))], self.w)

    def iscale(self, x, y):
        return R.prod_inner([c.iscale(a, b) for c, a, b in
                             zip(self.parts, self.split(x), self.split(y))], self.w)

    def norm(self, x):
        return R.prod_norm([c.norm(a) for c, a in zip(self.parts, self.split(x))],
                           self.w, self.p)

    def dist(self, x, y):
        return R.prod_norm([c.dist(a, b) for c, a, b in
                            zip(self.parts, self.split(x), self.split(y))], self.w, self.p)


def _real_dtype(dt):
    dt = np.dtype(dt)
    return np.dtype('float32') if dt in (np.dtype('float32'), np.dtype('complex64')) \
        else np.dtype('float64')


def _mk_space(shape, dt, **kw):
    dt = np.dtype(dt)
    shape = tuple(shape)
    if dt.kind in 'iu':
        return odl.tensor_space(shape if len(shape) > 1 else shape[0], dtype=dt, **kw)
    if dt.kind == 'c':
        return odl.cn(shape if len(shape) > 1 else shape[0], dtype=dt, **kw)
    return odl.rn(shape if len(shape) > 1 else shape[0], dtype=dt, **kw)


def build_tensor(cfg):
    shape = tuple(cfg['shape'])
    n = int(np.prod(shape))
    dt = np.dtype(cfg['dtype'])
    p = _p(cfg['p'])
    wk = cfg['w']
    kw = {}
    if wk == 'none':
        W = np.ones(n)
    elif wk.startswith('c'):
        c = float(wk[1:])
        kw['weighting'] = c
        W = c * np.ones(n)
    elif dt.kind in 'iu':                   # integer space: weights must be castable to it
        w = np.array(cfg.get('wv') or [WAI[i % len(WAI)] for i in range(n)],
                     dtype=dt).reshape(shape)
        if wk == 'arrF':
            w = np.asfortranarray(w)
        kw['weighting'] = w
        W = np.array(w, dtype=float, order='C').ravel()
    else:                                   # 'arr' / 'arrF': per-entry array of the real dtype
        w = np.array(cfg.get('wv') or [WA[i % len(WA)] for i in range(n)],
                     dtype=_real_dtype(dt)).reshape(shape)
        if wk == 'arrF':
            w = np.asfortranarray(w)
        kw['weighting'] = w
        W = np.array(w, dtype=float, order='C').ravel()
    if cfg['p'] != 2:
        kw['exponent'] = p
    node = Diag(_mk_space(shape, dt, **kw), shape, dt, W, p, cfg.get('lay', 'C'))
    node.exact = True
    node.warr = wk in ('arr', 'arrF')
    return node


def discr_geometry(cfg):
    shape = tuple(cfg['shape'])
    bdry = [tuple(bool(v) for v in b) for b in cfg['bdry']]
    lo, hi = [], []
    for ax, (n, (l, r)) in enumerate(zip(shape, bdry)):
        cells = float(R.axis_cells(n, l, r))
        if cfg['ext'] == 'unit':
            a, b = 0.0, 1.0
        elif cfg['ext'] == 'wide':
            a, b = WIDE[ax]
        elif cfg['ext'] == 'cell1':             # every cell side exactly 1
            a, b = 0.0, cells
        elif cfg['ext'] == 'cellinv':           # sides 1/2, 2, 1: cell volume exactly 1
            a, b = 0.0, cells * INV_SIDES[ax]
        elif cfg['ext'] == 'far':               # cell side 1, 10^5 ... 10^7 cells from the origin
            a, b = FAR[ax], FAR[ax] + cells
        elif cfg['ext'] == 'farfine':           # cell side 2^-10, 10^6 cells from the origin
            a, b = FARFINE[ax], FARFINE[ax] + cells * 2.0 ** -10
        elif cfg['ext'] == 'farwide':           # the uneven box moved away (non-dyadic cells)
            a, b = FAR[ax] + WIDE[ax][0], FAR[ax] + WIDE[ax][1]
        elif cfg['ext'] == 'tiny':              # cell side 2^-30 ~ 1e-9 at the origin
            a, b = 0.0, cells * TINY
        elif cfg['ext'] == 'tinywide':          # the uneven box in units of 1e-9
            a, b = WIDE[ax][0] * 1e-9, WIDE[ax][1] * 1e-9
        elif cfg['ext'] == 'huge':              # cell side 2^20
            a, b = 0.0, cells * HUGE
        else:
            raise KeyError(cfg['ext'])
        lo.append(a)
        hi.append(b)
    return shape, bdry, lo, hi


def build_discr(cfg):
    shape, bdry, lo, hi = discr_geometry(cfg)
    n = int(np.prod(shape))
    dt = np.dtype(cfg['dtype'])
    p = _p(cfg['p'])
    wk = cfg['w']
    kw = {'dtype': dt, 'nodes_on_bdry': [tuple(b) for b in bdry]}
    if cfg['p'] != 2:
        kw['exponent'] = p
    frac = R.has_boundary_fraction(shape, bdry)
    judge = True
    volume = None
    if wk == 'default':
        W = R.discr_weights(lo, hi, shape, bdry)
        if p == INF:
            # uniform_discr: "weighting ... None: Use the cell volume as weighting constant
            # (default)" but uniform_discr_frompartition uses 1.0 for exponent inf; docstring and
            # code disagree, the property does not arbitrate -> formula not judged
            judge = False
        if p == 2.0:
            volume = float(R.domain_volume(lo, hi))
    else:
        if wk.startswith('c'):
            c = float(wk[1:])
            kw['weighting'] = c
            W = c * np.ones(n)
        else:
            w = np.array(cfg.get('wv') or [WA[i % len(WA)] for i in range(n)],
                         dtype=_real_dtype(dt)).reshape(shape)
            kw['weighting'] = w
            W = np.array(w, dtype=float).ravel()
        if frac:
            # explicit weights on a grid with cut boundary cells: whether the boundary-cell
            # fractions multiply a user-supplied weighting is nowhere documented
            # (uniform_discr: "float: Weighting by a constant", "array-like: Point-wise
            # weighting by an array") -> formula not judged, relations and axioms are
            judge = False
    space = odl.uniform_discr(lo if len(lo) > 1 else lo[0], hi if len(hi) > 1 else hi[0],
                              shape if len(shape) > 1 else shape[0], **kw)
    node = Diag(space, shape, dt, W, p, cfg.get('lay', 'C'))
    node.judge = judge
    node.volume = volume
    node.exact = False
    node.warr = wk == 'arr'
    node.geom = _geom(lo, hi, [float(R.axis_cell_side(a, b, n_, l, r))
                               for a, b, n_, (l, r) in zip(lo, hi, shape, bdry)])
    return node


def _geom(lo, hi, sides):
    """Largest |coordinate| / cell side over the axes: grid coordinates of magnitude M carry a
    rounding of eps * M, so cell fractions and cell sides carry eps * M / side."""
    return max(max(abs(a), abs(b)) / s_ for a, b, s_ in zip(lo, hi, sides) if s_ > 0)


GX0 = [0.0, -1.0, 0.5]                                  # first grid node per axis


def gdiscr_geometry(cfg):
    """-> shape, x0, stride, grid min, grid max, lo, hi  (all dyadic, exact in binary).

    cfg['reg'] (optional) moves / rescales the whole configuration: 'far' shifts it by FAR (cell
    sides stay), 'tiny' / 'huge' multiply every length by 2^-30 / 2^20."""
    shape = tuple(cfg['shape'])
    reg = cfg.get('reg')
    scale = TINY if reg == 'tiny' else (HUGE if reg == 'huge' else 1.0)
    x0, st, gmin, gmax, lo, hi = [], [], [], [], [], []
    for ax, (n, s_, (ol, oh)) in enumerate(zip(shape, cfg['s'], cfg['off'])):
        x = GX0[ax] * scale + (FAR[ax] if reg == 'far' else 0.0)
        s_ = s_ * scale
        x0.append(x)
        if n == 1:                              # offsets are absolute lengths, stride is void
            st.append(0.0)
            gmin.append(x)
            gmax.append(x)
            lo.append(x - ol * scale)
            hi.append(x + oh * scale)
        else:                                   # offsets in units of the cell side
            st.append(float(s_))
            gmin.append(x)
            gmax.append(x + (n - 1) * s_)
            lo.append(x - ol * s_)
            hi.append(x + (n - 1) * s_ + oh * s_)
    return shape, x0, st, gmin, gmax, lo, hi


def build_gdiscr(cfg):
    """uniform_discr_frompartition(uniform_partition_fromgrid(grid, min_pt, max_pt)): outermost
    cells cropped or extended by arbitrary amounts, independently per axis side."""
    shape, x0, st, gmin, gmax, lo, hi = gdiscr_geometry(cfg)
    dt = np.dtype(cfg['dtype'])
    p = _p(cfg['p'])

    def arg(v):
        return v if len(v) > 1 else v[0]

    grid = odl.uniform_grid(arg(gmin), arg(gmax), arg(list(shape)))
    part = odl.uniform_partition_fromgrid(grid, min_pt=arg(lo), max_pt=arg(hi))
    kw = {'dtype': dt}
    if cfg['p'] != 2:
        kw['exponent'] = p
    space = odl.uniform_discr_frompartition(part, **kw)
    W = R.grid_weights(x0, st, shape, lo, hi)
    node = Diag(space, shape, dt, W, p, cfg.get('lay', 'C'))
    node.exact = False
    # exponent inf: docstring (cell volume) and code (1.0) disagree, see build_discr
    node.judge = p != INF
    node.volume = float(R.domain_volume(lo, hi)) if p == 2.0 else None
    node.geom = _geom(lo, hi, [s_ if n_ > 1 else b - a
                               for s_, n_, a, b in zip(st, shape, lo, hi)])
    return node


def build_prod(cfg):
    parts_cfg = cfg['parts']
    power = cfg.get('power')
    if power:
        child = build(parts_cfg[0])
        parts = [child] * power
    else:
        parts = [build(c) for c in parts_cfg]
    k = len(parts)
    p = _p(cfg['p'])
    wk = cfg['w']
    kw = {}
    if wk == 'none':
        w = [1.0] * k
    elif wk.startswith('c'):
        c = float(wk[1:])
        kw['weighting'] = c
        w = [c] * k
    else:
        w = list(cfg.get('wv') or [PWA[i % len(PWA)] for i in range(k)])
        kw['weighting'] = np.array(w, dtype=float)
    if cfg['p'] != 2:
        kw['exponent'] = p
    if power:
        space = odl.ProductSpace(parts[0].space, power, **kw)
    else:
        space = odl.ProductSpace(*[c.space for c in parts], **kw)
    node = Prod(space, parts, w, p)
    node.warr = not (wk == 'none' or wk.startswith('c'))
    return node


def build_npyfree(cfg):
    """Spaces whose inner= / norm= / dist= is one of the documented free functions
    npy_weighted_inner / npy_weighted_norm / npy_weighted_dist (same documented formulas)."""
    from odl.space.npy_tensors import npy_weighted_inner, npy_weighted_norm, npy_weighted_dist
    shape = tuple(cfg['shape'])
    n = int(np.prod(shape))
    dt = np.dtype(cfg['dtype'])
    p = _p(cfg['p'])
    if cfg['w'].startswith('c'):
        w = float(cfg['w'][1:])
        W = w * np.ones(n)
    else:
        w = np.array([WA[i % len(WA)] for i in range(n)], dtype=_real_dtype(dt)).reshape(shape)
        W = np.array(w, dtype=float).ravel()
    which = cfg['which']
    if which == 'inner':
        kw = {'inner': npy_weighted_inner(w)}
    elif which == 'norm':
        kw = {'norm': npy_weighted_norm(w, exponent=p)}
    else:
        kw = {'dist': npy_weighted_dist(w, exponent=p)}
    node = Diag(_mk_space(shape, dt, **kw), shape, dt, W, p, 'C')
    node.exact = True
    node.has_inner = which == 'inner'
    node.has_norm = which in ('inner', 'norm')
    return node


# ------------------------------------------------------------------------------------------
# derived spaces and elements: dtype conversions, real / imaginary parts, conjugates, copies
#
# ``TensorSpace.astype``: "Return a copy of this space with new ``dtype``" / "Version of this
# space with given data type"; ``real_space`` / ``complex_space``: "The space corresponding to
# this space's `real_dtype`" / "`complex_dtype`"; ``NumpyTensor.real`` / ``imag`` /
# ``DiscretizedSpaceElement.real``: the real (imaginary) part "as an element of" the real space;
# ``astype`` of an element: "Return a copy of this element with new ``dtype``"; ``conj``, ``copy``
# stay in the space.  A version of the space that differs in the data type only has the SAME
# weighting and the SAME exponent, so inner / norm / dist of the derived objects obey the
# documented formulas with the weights and the exponent of the space they were derived from.

FLOAT_DTYPES = ('float64', 'complex128', 'float32', 'complex64')
VIAS_SPACE = ['real_space', 'complex_space'] + ['astype:' + d for d in FLOAT_DTYPES]
VIAS_ELEM = ['el.real', 'el.imag', 'el.conj', 'el.copy'] + ['el.astype:' + d for d in FLOAT_DTYPES]


def _real_of(dt):
    return {'complex128': 'float64', 'complex64': 'float32'}.get(dt, dt)


def _cplx_of(dt):
    return {'float64': 'complex128', 'float32': 'complex64'}.get(dt, dt)


def derived_dtype(base_dt, via):
    """Data type of the derived object; None when the route derives nothing new or is not
    defined (real part of a real element is the element itself, the imaginary part of a real
    element is the zero element, a complex element has no real-typed copy)."""
    cplx = base_dt.startswith('complex')
    if via == 'real_space':
        return _real_of(base_dt) if cplx else None
    if via == 'complex_space':
        return _cplx_of(base_dt) if not cplx else None
    if via.startswith('astype:'):
        dt = via.split(':')[1]
        return dt if dt != base_dt else None
    if via in ('el.real', 'el.imag'):
        return _real_of(base_dt) if cplx else None
    if via == 'el.conj':
        return base_dt if cplx else None
    if via == 'el.copy':
        return base_dt
    if via.startswith('el.astype:'):
        dt = via.split(':')[1]
        if dt == base_dt or (cplx and not dt.startswith('complex')):
            return None
        return dt
    raise KeyError(via)


def derived_admissible(base, via):
    dt = derived_dtype(base['dtype'], via)
    if dt is None:
        return False
    # a per-entry weight array is not converted to another precision (``astype`` raises "cannot
    # cast from `weighting` data type": C20's subject, known finding there) -> same precision only
    if base.get('w') in ('arr', 'arrF') and _real_of(dt) != _real_of(base['dtype']):
        return False
    return True


def _junk(flat):
    """A dyadic companion part that must not show in the derived element."""
    return 0.5 * np.roll(np.asarray(flat).real, 1) + 1.0


class Derived(Diag):
    """Model of the derived object: weights and exponent of the base, new data type."""

    def __init__(self, base, via):
        self.base = base
        self.via = via
        self.elem = via.startswith('el.')
        bs = base.space
        if via == 'real_space':
            space = bs.real_space
        elif via == 'complex_space':
            space = bs.complex_space
        elif via.startswith('astype:'):
            space = bs.astype(via.split(':')[1])
        else:
            space = self._derive(bs.zero()).space
        dt = derived_dtype(str(base.dtype), via)
        Diag.__init__(self, space, base.shape, dt, base.W, base.p, base.lay)
        if self.elem and not base.cplx:
            self.cplx = False       # the elements reached from a real space are real-valued
        self.single = self.single or base.single
        self.exact = base.exact
        self.judge = base.judge
        self.volume = base.volume
        self.warr = base.warr
        self.geom = getattr(base, 'geom', 0.0)

    def _derive(self, el):
        via = self.via
        if via == 'el.real':
            return el.real
        if via == 'el.imag':
            return el.imag
        if via == 'el.conj':
            return el.conj()
        if via == 'el.copy':
            return el.copy()
        return el.astype(via.split(':')[1])

    def make(self, flat, role='x'):
        if not self.elem:
            return Diag.make(self, flat, role)
        flat = np.asarray(flat)
        if self.via == 'el.real':
            flat = flat + 1j * _junk(flat)
        elif self.via == 'el.imag':
            flat = _junk(flat) + 1j * flat
        elif self.via == 'el.conj':
            flat = np.conj(flat)
        return self._derive(self.base.make(flat, role))


def build_derived(cfg):
    return Derived(build(cfg['base']), cfg['via'])


def check_derived(node, ctx, describe):
    """Relations between the derived object and the space it came from (no reference formula
    involved, so they are judged where the weighting formula itself is left unjudged, too)."""
    base = node.base
    eps_tol = 1e-5 if node.single else 1e-12
    got = ctx.call('exponent', lambda: float(node.space.exponent), 'space.exponent')
    if got is not None and got != base.p:
        ctx.report('exponent_differs_from_parent_space',
                   '%s: exponent of the space it was derived from %s, of the derived space %s'
                   % (describe, base.p, got))
    if not base.has_norm:
        return
    # the same real-valued coordinates live in both spaces: same norm, same distance
    n = node.n
    vecs = [pattern(n, k, False) for k in range(4)] + [unit(n, k, False) for k in range(min(n, 3))]
    pn, dn = [], []
    for v in vecs:
        a = ctx.call('norm', lambda: base.make(v, 'x').norm(), lambda: 'x=%s' % _l(v))
        b = ctx.call('norm', lambda: node.make(v, 'x').norm(), lambda: 'x=%s' % _l(v))
        if a is None or b is None:
            return
        pn.append(float(a))
        dn.append(float(b))
        if not abs(float(a) - float(b)) <= 4 * eps_tol * abs(float(a)):
            ctx.report('norm_differs_from_parent_space',
                       lambda: '%s x=%s: norm in the space it was derived from %r, norm of the '
                               'derived element %r' % (describe, _l(v), float(a), float(b)))
    for i in range(len(vecs) - 1):
        x, y = vecs[i], vecs[i + 1]
        a = ctx.call('dist', lambda: base.make(x, 'x').dist(base.make(y, 'y')),
                     lambda: 'x=%s y=%s' % (_l(x), _l(y)))
        b = ctx.call('dist', lambda: node.make(x, 'x').dist(node.make(y, 'y')),
                     lambda: 'x=%s y=%s' % (_l(x), _l(y)))
        if a is None or b is None:
            return
        if not abs(float(a) - float(b)) <= 4 * eps_tol * (pn[i] + pn[i + 1]):
            ctx.report('dist_differs_from_parent_space',
                       lambda: '%s x=%s y=%s: dist in the space it was derived from %r, dist of '
                               'the derived elements %r' % (describe, _l(x), _l(y), float(a),
                                                            float(b)))


def build(cfg):
    k = cfg['kind']
    if k == 'derived':
        return build_derived(cfg)
    if k == 'tensor':
        return build_tensor(cfg)
    if k == 'npyfree':
        return build_npyfree(cfg)
    if k == 'discr':
        return build_discr(cfg)
    if k == 'gdiscr':
        return build_gdiscr(cfg)
    if k == 'prod':
        return build_prod(cfg)
    raise KeyError(k)


# ------------------------------------------------------------------------------------------
# custom inner= / norm= / dist= callables

A_REAL = [[2.0, 1.0, 0.0, 0.5], [1.0, 2.0, -0.5, 0.0], [0.0, -0.5, 1.0, 0.25],
          [0.5, 0.0, 0.25, 3.0]]                       # symmetric, strictly diagonally dominant
A_CPLX = [[2.0, 1j, 0.0, 0.0], [-1j, 2.0, 0.5, 0.0], [0.0, 0.5, 1.0, 0.25j],
          [0.0, 0.0, -0.25j, 3.0]]                     # Hermitian, strictly diagonally dominant
CW = [2.0, 0.5, 1.0, 4.0]


def _flat_of(x):
    """Flat coordinates of an odl element as seen by a user callable."""
    if isinstance(x.space, odl.ProductSpace):
        return np.concatenate([_flat_of(xi) for xi in x])
    return np.asarray(x).ravel()


class Custom(Node):
    def __init__(self, cfg):
        base, which = cfg['base'], cfg['which']
        self.which = which
        self.exact = True
        self.p = 2.0
        self.prodbase = base.startswith('pw')
        shapes = {'rn3': (3,), 'cn2': (2,), 'rn2x2': (2, 2), 'pw_rn2_2': (2,), 'pw_cn1_2': (1,),
                  'rn4f32': (4,)}
        self.shape = shapes[base]
        self.cplx = 'cn' in base
        self.dtype = np.dtype('float32' if base.endswith('f32') else
                              (complex if self.cplx else float))
        self.single = base.endswith('f32')
        self.k = 2 if self.prodbase else 1
        self.n = int(np.prod(self.shape)) * self.k
        n = self.n
        A = np.array(A_CPLX if self.cplx else A_REAL)[:n, :n]
        self.A = A
        cw = np.array(CW[:n])
        self.cw = cw
        real = not self.cplx

        def f_inner(x, y):
            v = np.vdot(_flat_of(y), A.dot(_flat_of(x)))
            return float(v.real) if real else complex(v)

        def f_norm(x):
            return float(np.sum(cw * np.abs(_flat_of(x))))

        def f_dist(x, y):
            return float(2.0 * np.max(cw * np.abs(_flat_of(x) - _flat_of(y))))

        kw = {which: {'inner': f_inner, 'norm': f_norm, 'dist': f_dist}[which]}
        if self.prodbase:
            leaf = _mk_space(self.shape, self.dtype)
            self.space = odl.ProductSpace(leaf, 2, **kw)
        else:
            self.space = _mk_space(self.shape, self.dtype, **kw)
        self.has_inner = which == 'inner'
        self.has_norm = which in ('inner', 'norm')

    def make(self, flat, role='x'):
        flat = np.asarray(flat).astype(self.dtype)
        if self.prodbase:
            m = self.n // 2
            return self.space.element([flat[:m].reshape(self.shape),
                                       flat[m:].reshape(self.shape)])
        return self.space.element(flat.reshape(self.shape).copy())

    def inner(self, x, y):
        return R.inner_mat(self.A.tolist(), x, y)

    def iscale(self, x, y):
        return float(np.abs(np.asarray(y)).dot(np.abs(self.A)).dot(np.abs(np.asarray(x))))

    def norm(self, x):
        if self.which == 'inner':
            return math.sqrt(max(0.0, np.real(R.inner_mat(self.A.tolist(), x, x))))
        return R.norm_w(self.cw, x, 1)

    def dist(self, x, y):
        if self.which == 'dist':
            return 2.0 * R.norm_w(self.cw, np.asarray(x) - np.asarray(y), INF)
        return self.norm(np.asarray(x) - np.asarray(y))


# ------------------------------------------------------------------------------------------
# the vectors visited in one state

def pattern(n, k, cplx):
    i = np.arange(n)
    al = np.array(AL)
    v = al[(i * (k + 1) + k) % 8].astype(complex if cplx else float)
    if cplx:
        v = v + 1j * al[(i * (k + 2) + 3 + k) % 8]
    if not v.any():
        v[0] = 1.0
    return v


def unit(n, k, cplx, imag=False):
    e = np.zeros(n, dtype=complex if cplx else float)
    e[k] = 1j if imag else 1.0
    return e


def vectors(node, scope):
    """-> (mode, flat vectors, ordered index pairs, labels).

    scope 't': all of V5^n for n <= 2, V3^3 for n = 3 (VC^n for complex n <= 2);
    scope 'q': all of V3^n for n <= 2 (VC^1 for complex n = 1); packed vectors otherwise.
    scope 'p': packed vectors only.
    """
    n, cplx = node.n, node.cplx
    if node.integer:
        mode, vecs, pairs, labels = _vectors(node, scope)
        vecs = [2 * v for v in vecs]
        return mode, vecs, pairs, [str(_l(v)) for v in vecs]
    return _vectors(node, scope)


def _vectors(node, scope):
    n, cplx = node.n, node.cplx
    if n == 0:
        return 'empty', [np.zeros(0)], [(0, 0)], ['()']
    small = ((not cplx and n <= 3) or (cplx and n <= 2)) if scope == 't' else \
        ((not cplx and n <= 2) or (cplx and n <= 1))
    if scope == 'p':
        small = False
    if small:
        V = VC if cplx else (V5 if (n <= 2 and scope == 't') else V3)
        vecs = [np.array(t, dtype=complex if cplx else float)
                for t in itertools.product(V, repeat=n)]
        # two packed vectors so that fractional values occur for every n
        vecs += [pattern(n, k, cplx) for k in (0, 2)]
        idx = range(len(vecs))
        return ('all-of-V^%d' % n, vecs, [(i, j) for i in idx for j in idx],
                [str(v.tolist()) for v in vecs])
    m = 6 if n <= 12 else 4
    pats = [pattern(n, k, cplx) for k in range(m)]
    ks = sorted(set([0, 1, n // 2, n - 2, n - 1])) if n > 16 else list(range(n))
    bas = [unit(n, k, cplx) for k in ks]
    vecs = pats + bas + [np.zeros(n, dtype=complex if cplx else float)]
    labels = ['pattern(%d,%d)' % (n, k) for k in range(m)] + ['e_%d' % k for k in ks] + ['zero']
    pairs = [(i, j) for i in range(m) for j in range(m)]
    for b in range(len(bas)):
        pairs += [(m + b, 0), (1, m + b)]
        if b < 3:
            pairs += [(0, m + b), (m + b, 1)]
    z = len(vecs) - 1
    pairs += [(z, 0), (0, z), (2, z), (z, 2)]
    if n <= 24:
        labels = [str(v.tolist()) for v in vecs]
    else:
        labels = ['%s=%s...' % (lb, v[:9].tolist()) for lb, v in zip(labels, vecs)]
    return 'packed', vecs, pairs, labels


# ------------------------------------------------------------------------------------------
# the oracle

class Ctx(object):
    def __init__(self, site):
        self.site = site
        self.first = {}
        self.order = []
        self.broken = set()
        self.evals = 0
        self.skipped = 0

    def report(self, symptom, detail):
        if symptom not in self.first:
            self.first[symptom] = detail() if callable(detail) else detail
            self.order.append(symptom)

    def call(self, op, f, what):
        """Execute one library call; an exception is a violation of an admissible configuration."""
        if op in self.broken:
            return None
        self.evals += 1
        try:
            return f()
        except Exception as e:       # noqa
            self.broken.add(op)
            self.report('raises:' + type(e).__name__,
                        '%s %s: %r' % (op, what() if callable(what) else what, e))
            return None

    def viol(self):
        return [{'site': self.site, 'symptom': s, 'detail': self.first[s]} for s in self.order]


def _l(v):
    v = np.asarray(v)
    if v.size > 24:
        return '%s...(n=%d)' % (v[:9].tolist(), v.size)
    return v.tolist()


def check_node(node, ctx, describe, scope='t'):
    eps = float(np.finfo('float32' if node.single else 'float64').eps)
    base = 1e-5 if node.single else 1e-12
    n = max(node.n, 1)
    # discretized spaces: the quadrature weights inherit the rounding of the grid coordinates,
    # eps * |coordinate| / cell side (below 1e-12 unless the domain is far from the origin)
    tol_pow = max(base, 4 * eps * n, 16 * 2.0 ** -52 * getattr(node, 'geom', 0.0))
    tol_sum = 4 * eps * n if node.exact else tol_pow
    p = node.p
    tol_norm = tol_sum if (not node.cplx and p in (1.0, INF)) else tol_pow
    mode, vecs, pairs, lab = vectors(node, scope)
    cplx = node.cplx
    scal = S_INT if node.integer else S_REAL + (S_CPLX if cplx else [])
    pairset = set(pairs)

    def D(**kw):
        return describe + ' ' + ' '.join('%s=%s' % (k, v) for k, v in kw.items())

    els_x = {}
    els_y = {}

    def X(i):
        if i not in els_x:
            els_x[i] = node.make(vecs[i], 'x')
        return els_x[i]

    def Y(i):
        if i not in els_y:
            els_y[i] = node.make(vecs[i], 'y')
        return els_y[i]

    # ---- per vector: norm formula, positivity, homogeneity
    N = {}
    visit = sorted(set(i for pr in pairs for i in pr))
    for i in visit:
        xf = vecs[i]
        if not node.has_norm:
            break
        got = ctx.call('norm', lambda: X(i).norm(), lambda: 'x=%s' % lab[i])
        if got is None:
            break
        got = float(got)
        N[i] = got
        if node.judge:
            ref = node.norm(xf)
            if not abs(got - ref) <= tol_norm * abs(ref):
                ctx.report('norm_differs_from_formula',
                           lambda: D(x=lab[i], p=p, expected=ref, got=got))
        else:
            ctx.skipped += 1
        if not xf.any() and got != 0.0:
            ctx.report('norm_of_zero_nonzero', lambda: D(x=lab[i], got=got))
        if xf.any() and not got > 0.0:
            ctx.report('norm_not_positive', lambda: D(x=lab[i], got=got))
    if node.has_norm:
        hom = visit if mode.startswith('all') else visit[:8]
        for i in hom:
            if i not in N:
                continue
            for s in scal:
                sx = s * vecs[i]
                got = ctx.call('norm', lambda: node.make(sx, 'x').norm(),
                               lambda: 'x=%s*%s' % (s, lab[i]))
                if got is None:
                    break
                got = float(got)
                want = abs(s) * N[i]
                if not abs(got - want) <= 4 * tol_pow * want:
                    ctx.report('norm_not_homogeneous',
                               lambda: D(s=s, x=lab[i], norm_x=N[i], norm_sx=got))

    # ---- inner product on every ordered pair
    I = {}
    if node.has_inner:
        for (i, j) in pairs:
            v = ctx.call('inner', lambda: X(i).inner(Y(j)),
                         lambda: 'x=%s y=%s' % (lab[i], lab[j]))
            if v is None:
                break
            I[(i, j)] = complex(v)
        zi = visit[len(visit) // 2]
        for cnt, (i, j) in enumerate(pairs):
            if (i, j) not in I:
                continue
            xf, yf = vecs[i], vecs[j]
            a = I[(i, j)]
            sc = node.iscale(xf, yf)
            if not cplx and a.imag != 0:
                ctx.report('inner_differs_from_formula', lambda: D(x=lab[i], y=lab[j], got=a))
            if node.judge:
                ref = complex(node.inner(xf, yf))
                if not abs(a - ref) <= tol_sum * sc:
                    ctx.report('inner_differs_from_formula',
                               lambda: D(x=lab[i], y=lab[j], expected=ref, got=a))
            else:
                ctx.skipped += 1
            if (j, i) in I:
                b = I[(j, i)]
                if not abs(a - b.conjugate()) <= 2 * tol_sum * sc:
                    ctx.report('inner_not_conj_symmetric',
                               lambda: D(x=lab[i], y=lab[j], inner_x_y=a, inner_y_x=b))
            if i == j:
                if xf.any() and not a.real > 0.0:
                    ctx.report('inner_not_positive', lambda: D(x=lab[i], inner_x_x=a))
                if not xf.any() and a != 0:
                    ctx.report('inner_not_positive', lambda: D(x=lab[i], inner_x_x=a))
                if i in N and not abs(N[i] - math.sqrt(max(a.real, 0.0))) <= 4 * tol_pow * N[i]:
                    ctx.report('norm_not_sqrt_inner',
                               lambda: D(x=lab[i], norm=N[i], inner_x_x=a))
            if i in N and j in N and not abs(a) <= N[i] * N[j] * (1 + 4 * tol_pow):
                ctx.report('cauchy_schwarz_violated',
                           lambda: D(x=lab[i], y=lab[j], inner=a, norm_x=N[i], norm_y=N[j]))
            # linearity in the first argument: <s x + z, y> = s <x, y> + <z, y>
            if (zi, j) in I and cnt % (2 if mode == 'packed' else 3) == 0:
                s = scal[cnt % len(scal)]
                zf = vecs[zi]
                lf = s * xf + zf
                d = ctx.call('inner', lambda: node.make(lf, 'x').inner(Y(j)),
                             lambda: 'x=%s*%s+%s y=%s' % (s, lab[i], lab[zi], lab[j]))
                if d is not None:
                    d = complex(d)
                    c = I[(zi, j)]
                    sc2 = abs(s) * sc + node.iscale(zf, yf)
                    if not abs(d - (s * a + c)) <= 4 * tol_sum * sc2:
                        ctx.report('inner_not_linear_in_first_argument',
                                   lambda: D(s=s, x=lab[i], z=lab[zi], y=lab[j],
                                             inner_sx_plus_z_y=d,
                                             s_inner_x_y_plus_inner_z_y=s * a + c))

    # ---- triangle inequality, distance
    DI = {}
    for (i, j) in pairs:
        v = ctx.call('dist', lambda: X(i).dist(Y(j)), lambda: 'x=%s y=%s' % (lab[i], lab[j]))
        if v is None:
            break
        DI[(i, j)] = float(v)
    for (i, j) in pairs:
        xf, yf = vecs[i], vecs[j]
        first = i <= j or (j, i) not in pairset
        if node.has_norm and i in N and j in N and first:
            sf = xf + yf
            t = ctx.call('norm', lambda: node.make(sf, 'x').norm(),
                         lambda: 'x=%s+%s' % (lab[i], lab[j]))
            if t is not None and not float(t) <= (N[i] + N[j]) * (1 + 4 * tol_pow):
                ctx.report('triangle_inequality_violated',
                           lambda: D(x=lab[i], y=lab[j], norm_sum=float(t), norm_x=N[i],
                                     norm_y=N[j]))
        if (i, j) not in DI:
            continue
        dxy = DI[(i, j)]
        if node.has_norm and i in N and j in N:
            dsc = N[i] + N[j]
        else:
            dsc = node.dist(xf, np.zeros_like(xf)) + node.dist(yf, np.zeros_like(yf))
        if (j, i) in DI and not abs(dxy - DI[(j, i)]) <= tol_pow * dsc:
            ctx.report('dist_not_symmetric',
                       lambda: D(x=lab[i], y=lab[j], dist_x_y=dxy, dist_y_x=DI[(j, i)]))
        if i == j and dxy != 0.0:
            ctx.report('dist_x_x_nonzero', lambda: D(x=lab[i], got=dxy))
        if node.has_norm and first:
            try:
                diff = X(i) - Y(j)          # element arithmetic itself is C01's subject
            except Exception:               # noqa
                diff = None
                ctx.skipped += 1
            nd = None if diff is None else ctx.call(
                'norm', lambda: diff.norm(), lambda: '(x-y) x=%s y=%s' % (lab[i], lab[j]))
            if nd is not None and not abs(dxy - float(nd)) <= 4 * tol_pow * dsc:
                ctx.report('dist_not_norm_of_difference',
                           lambda: D(x=lab[i], y=lab[j], dist=dxy, norm_x_minus_y=float(nd)))
        if node.judge:
            ref = node.dist(xf, yf)
            if not abs(dxy - ref) <= 4 * tol_pow * dsc:
                ctx.report('dist_differs_from_formula',
                           lambda: D(x=lab[i], y=lab[j], p=p, expected=ref, got=dxy))
        else:
            ctx.skipped += 1

    # ---- Gram matrix over the real basis: decides the inner product for ALL inputs
    gram = 'none'
    if node.has_inner and node.n > 0 and 'inner' not in ctx.broken:
        nn = node.n
        ks = list(range(nn)) if nn <= 125 else sorted(set([0, 1, 2, nn // 2, nn - 2, nn - 1]))
        full = (2 if cplx else 1) * nn <= 16
        B = [unit(nn, k, cplx) for k in ks]
        bl = ['e_%d' % k for k in ks]
        if cplx:
            B += [unit(nn, k, cplx, imag=True) for k in ks]
            bl += ['i*e_%d' % k for k in ks]
        bx = [node.make(b, 'x') for b in B]
        by = [node.make(b, 'y') for b in B]
        m = len(B)
        G = np.zeros((m, m), dtype=complex)
        have = np.zeros((m, m), dtype=bool)
        for a in range(m):
            for b in range(m):
                if not (full or a == b or abs(a - b) == 1 or (a, b) in ((0, m - 1), (m - 1, 0))):
                    continue
                g = ctx.call('inner', lambda: bx[a].inner(by[b]),
                             lambda: 'x=%s y=%s' % (bl[a], bl[b]))
                if g is None:
                    break
                G[a, b] = complex(g)
                have[a, b] = True
                if node.judge:
                    ref = complex(node.inner(B[a], B[b]))
                    sc = node.iscale(B[a], B[b])
                    if not abs(G[a, b] - ref) <= tol_sum * max(sc, abs(ref)):
                        ctx.report('inner_differs_from_formula',
                                   lambda: D(x=bl[a], y=bl[b], expected=ref, got=G[a, b]))
                else:
                    ctx.skipped += 1
        if 'inner' not in ctx.broken:
            dg = np.abs(np.diag(G))
            bad = np.argwhere(have & have.T & ~(np.abs(G - G.conj().T) <=
                                                2 * tol_sum * np.sqrt(np.outer(dg, dg))))
            if len(bad):
                a, b = bad[0]
                ctx.report('inner_not_conj_symmetric',
                           D(x=bl[a], y=bl[b], inner_x_y=G[a, b], inner_y_x=G[b, a]))
            if full:
                ev = np.linalg.eigvalsh((G.real + G.real.T) / 2)
                if not ev.min() > 0:
                    ctx.report('inner_not_positive', D(gram_min_eigenvalue=float(ev.min())))
                gram = 'full'
            else:
                if not np.all(np.diag(G).real > 0):
                    ctx.report('inner_not_positive', D(gram_diagonal=_l(np.diag(G).real)))
                gram = 'banded'

    # ---- ||one||^2 = domain volume
    sample = None
    if node.volume is not None:
        one = node.space.one()
        a = ctx.call('norm', lambda: one.norm(), 'one')
        b = ctx.call('inner', lambda: one.inner(one), 'one, one')
        vol = node.volume
        if a is not None and not abs(float(a) ** 2 - vol) <= 4 * tol_pow * vol:
            ctx.report('one_norm_squared_not_domain_volume',
                       D(volume=vol, norm_one_squared=float(a) ** 2))
        if b is not None and not abs(complex(b) - vol) <= 4 * tol_pow * vol:
            ctx.report('one_norm_squared_not_domain_volume',
                       D(volume=vol, inner_one_one=complex(b)))
        sample = {'volume': vol, 'norm_one_squared': None if a is None else float(a) ** 2}
    return mode, gram, sample


# ------------------------------------------------------------------------------------------
# history of in-place changes of a weight array
#
# Array weightings keep the array they are given and compare it BY IDENTITY
# (``ArrayWeighting.__eq__``: "``self.array is getattr(other, 'array', None)``"), and
# ``weighting.array`` is the documented view of "the weighting array of this instance".  The
# oracle does not even need that: after every step inner / norm / dist must equal the documented
# formula evaluated with the CURRENT contents of ``space.weighting.array`` (whatever the object
# shows), and the values of a fresh space built from a copy of those contents.

def _subnode(node, path):
    for i in path:
        node = node.parts[i]
    return node


def _refresh(node):
    """Re-read the reference weights from what the odl objects show now."""
    if isinstance(node, Prod):
        for c in node.parts:
            _refresh(c)
        if node.warr:
            node.w = [float(v) for v in np.asarray(node.space.weighting.array).ravel()]
    elif isinstance(node, Diag) and node.warr:
        node.W = np.array(node.space.weighting.array, dtype=float, order='C').ravel()


def _freeze(node, cfg):
    """Configuration of a fresh space with copies of the weights the objects show now."""
    out = dict(cfg)
    if cfg['kind'] == 'prod':
        out['parts'] = [_freeze(c, pc) for c, pc in zip(node.parts, cfg['parts'])]
        if node.warr:
            out['wv'] = [float(v) for v in np.asarray(node.space.weighting.array).ravel()]
    elif node.warr:
        out['wv'] = np.array(node.space.weighting.array, dtype=float, order='C').ravel().tolist()
    return out


def _overwrite(w, k):
    """k-th in-place change of a weight array (values stay positive and dyadic)."""
    if k % 3 == 0:
        w *= 2
        return 'w *= 2'
    if k % 3 == 1:
        w[(0,) * w.ndim] = 7
        return 'w[0] = 7'
    w[(-1,) * w.ndim] *= 0.25
    return 'w[-1] *= 0.25'


def run_history(cfg, ctx):
    scfg = cfg['space']
    node = build(scfg)
    target = _subnode(node, cfg['target'])
    done = []
    nover = 0
    modes = []
    for step in list(cfg['hist']) + ['E']:          # the final state is always observed
        if step == 'O':
            done.append(_overwrite(target.space.weighting.array, nover))
            nover += 1
            continue
        done.append('evaluate')
        _refresh(node)
        shown = np.asarray(target.space.weighting.array).ravel().tolist()
        desc = '%s; history (on space.%sweighting.array): %s; weights shown now: %s' % (
            _describe(scfg), ''.join('[%d].' % i for i in cfg['target']), ', '.join(done), shown)
        mode, gram, _ = check_node(node, ctx, desc, 'p')
        modes.append(mode)
        # differential: a fresh space built from a copy of the shown weights
        fresh = build(_freeze(node, scfg))
        _, vecs, pairs, lab = vectors(node, 'p')
        for (i, j) in pairs[:12]:
            for op in (['inner'] if node.has_inner else []) + (['norm'] if node.has_norm else []) \
                    + ['dist']:
                if op in ctx.broken:
                    continue
                if op == 'norm':
                    a = ctx.call(op, lambda: node.make(vecs[i]).norm(), lambda: lab[i])
                    b = ctx.call(op, lambda: fresh.make(vecs[i]).norm(), lambda: lab[i])
                else:
                    a = ctx.call(op, lambda: getattr(node.make(vecs[i]), op)(node.make(vecs[j], 'y')),
                                 lambda: '%s, %s' % (lab[i], lab[j]))
                    b = ctx.call(op, lambda: getattr(fresh.make(vecs[i]), op)(
                        fresh.make(vecs[j], 'y')), lambda: '%s, %s' % (lab[i], lab[j]))
                if a is None or b is None:
                    continue
                a, b = complex(a), complex(b)
                tol = 1e-5 if node.single else 1e-12
                if not abs(a - b) <= tol * max(abs(a), abs(b)):
                    ctx.report('%s_differs_from_fresh_space_with_the_shown_weights' % op,
                               lambda: '%s x=%s y=%s: space with history %s, fresh space %s'
                               % (desc, lab[i], lab[j], a, b))
    return node, modes


# ------------------------------------------------------------------------------------------
# configurations

def _regime(n):
    return 'small' if n < 100 else ('medium' if n <= 50000 else 'large')


def _wcls(w):
    return 'none' if w == 'none' else ('const' if w.startswith('c') else
                                       ('default' if w == 'default' else 'array'))


def _walk(cfg, ps, dts, top=False):
    """Collect the exponents of all parts below the top node and the leaf dtypes."""
    if not top:
        ps.add(cfg['p'])
    if cfg['kind'] == 'prod':
        for c in cfg['parts']:
            _walk(c, ps, dts)
    else:
        dts.add(cfg['dtype'])


def site_of(cfg):
    k = cfg['kind']
    if k == 'extreme':
        return 'tensor[w=%s,%s,%s,extreme magnitudes,%s]' % (
            cfg['w'], _pcls(cfg['p']), cfg['dtype'], _regime(cfg['n']))
    if k == 'tensor':
        n = int(np.prod(cfg['shape']))
        return 'tensor[w=%s,%s,%s,%s,%s]' % (_wcls(cfg['w']) + ('F' if cfg['w'] == 'arrF' else ''),
                                             _pcls(cfg['p']), cfg['dtype'], cfg.get('lay', 'C'),
                                             _regime(n))
    if k == 'discr':
        shape, bdry, lo, hi = discr_geometry(cfg)
        frac = R.has_boundary_fraction(shape, bdry)
        cv1 = R.cell_volume(lo, hi, shape, bdry) == 1
        w = cfg['w'] if cfg['w'] in ('default', 'c1.0') else _wcls(cfg['w'])
        reg = (',' + cfg['ext']) if cfg['ext'] in GEO_REGIMES else ''
        return 'uniform_discr[w=%s,%s,%s,%s,%s%s]' % (w, _pcls(cfg['p']), cfg['dtype'],
                                                      'bdry' if frac else 'nobdry',
                                                      'cv1' if cv1 else 'cv', reg)
    if k == 'gdiscr':
        shape, x0, st, gmin, gmax, lo, hi = gdiscr_geometry(cfg)
        fr = [f for pr in R.grid_fractions(x0, st, shape, lo, hi) for f in pr]
        cls = 'fr1' if all(f == 1 for f in fr) else (
            'frhalf' if all(f in (1, R.Fr(1, 2)) for f in fr) else 'frany')
        if any(f not in (1, R.Fr(1, 2)) and min(abs(f - 1), abs(f - R.Fr(1, 2))) < R.Fr(1, 10000)
               for f in fr):
            cls = 'frnear'                      # a fraction within 1e-4 of 1 or 1/2, not equal
        vol = R.Fr(1)
        for n, s_, a, b in zip(shape, st, lo, hi):
            vol *= (R.Fr(b) - R.Fr(a)) if n == 1 else R.Fr(s_)
        return 'discr_frompartition[w=default,%s,%s,%s,%s%s]' % (
            _pcls(cfg['p']), cfg['dtype'], cls, 'cv1' if vol == 1 else 'cv',
            (',' + cfg['reg']) if cfg.get('reg') else '')
    if k == 'prod':
        ps, dts = set(), set()
        _walk(cfg, ps, dts, top=True)
        tags = 'hilbert-parts' if ps <= {2} else 'parts-without-inner'
        if len(dts) > 1:
            tags += ',mixed-precision'
        return 'ProductSpace[%s,%s,w=%s,%s]' % (cfg['name'], tags, _wcls(cfg['w']),
                                                _pcls(cfg['p']))
    if k == 'derived':
        b = cfg['base']
        bs = site_of(b)
        w = b.get('w', 'default')
        w = w if w in ('default', 'c1.0') else _wcls(w)
        return 'derived[%s|%s,w=%s%s,%s,%s]' % (
            cfg['via'], bs.split('[')[0], w, ',cv1' if ',cv1' in bs else '', _pcls(b['p']),
            b['dtype'])
    if k == 'whist':
        return 'array_weight_history[%s,%s]' % (cfg['name'], _pcls(cfg['space']['p']))
    if k == 'custom':
        return 'custom[%s=,%s]' % (cfg['which'], cfg['base'])
    if k == 'npyfree':
        return 'npy_weighted_%s[w=%s,%s,%s]' % (cfg['which'], _wcls(cfg['w']), _pcls(cfg['p']),
                                               cfg['dtype'])
    if k == 'empty':
        return 'ProductSpace[empty,%s]' % cfg['how']
    raise KeyError(k)


def T(shape, dtype='float64', w='none', p=2, lay='C'):
    return {'kind': 'tensor', 'shape': list(shape), 'dtype': dtype, 'w': w, 'p': p, 'lay': lay}


def DS(shape, bdry, ext='wide', dtype='float64', w='default', p=2, lay='C'):
    return {'kind': 'discr', 'shape': list(shape), 'bdry': [list(b) for b in bdry], 'ext': ext,
            'dtype': dtype, 'w': w, 'p': p, 'lay': lay}


def PR(name, parts, w='none', p=2, power=None):
    d = {'kind': 'prod', 'name': name, 'parts': parts, 'w': w, 'p': p}
    if power:
        d['power'] = power
    return d


BD = [(0, 0), (1, 0), (0, 1), (1, 1)]
PS_Q = [1, 2, 'inf', 1.5]
PS_T = [1, 2, 'inf', 1.5, 3]


def _tensor_configs(thorough):
    out = []
    ps = PS_T if thorough else PS_Q
    shapes = [[1], [2], [3], [4], [2, 2], [2, 3]]
    if thorough:
        shapes += [[5], [6], [3, 2], [1, 3], [2, 1, 3]]
    for sh in shapes:
        lays = ['C', 'S'] if len(sh) == 1 else ['C', 'F', 'FC', 'S']
        ws = ['none', 'c0.5', 'c2.0', 'arr'] + (['arrF'] if len(sh) > 1 else [])
        if sh == [3]:
            ws.append('c1.0')                   # an explicit constant equal to the default
        for dt in ('float64', 'complex128', 'float32', 'complex64'):
            for lay in lays:
                for w in ws:
                    if w == 'arrF' and lay == 'S':
                        continue
                    for p in ps:
                        out.append(T(sh, dt, w, p, lay))
    # integer spaces (field: real numbers; inner, norm and dist are defined).  Sizes >= 100 are
    # left to C01: there x - y itself raises for integer dtypes (fallback axpy divides in place),
    # which every dist() inherits
    for sh, lays in (([3], ['C']), ([2, 2], ['C', 'F'])) + (
            (([6], ['C']), ([2, 3], ['FC', 'S'])) if thorough else ()):
        for lay in lays:
            for w in ['none', 'c0.5', 'c2.0', 'arr']:
                for p in ps:
                    out.append(T(sh, 'int64', w, p, lay))
    # size regimes: < 100 (np.dot), 100 ... 50 000, > 50 000 (np.tensordot), BLAS nrm2
    big = [([100], 'C'), ([50001], 'C'), ([3, 16667], 'F')]
    if thorough:
        big += [([99], 'C'), ([50000], 'C'), ([50001], 'S'), ([3, 16667], 'C'),
                ([3, 16667], 'FC'), ([16667, 3], 'F'), ([10, 10], 'F'), ([3, 16667], 'S')]
    # operands stored in different memory orders (C, F, wrapped transposed view T, strided S),
    # all pairs, below and above the 50 000-entry switch of the real inner product
    pairs = ['CF', 'FC', 'TC', 'CT', 'F'] + (['C', 'T', 'FT', 'TF', 'SF', 'CS', 'S']
                                              if thorough else [])
    for sh in ([10, 10], [250, 201]):
        for lay in pairs:
            for dt in (('float64', 'float32', 'complex128') if thorough else ('float64',)):
                for w in ['none', 'c0.5', 'arr'] + (['arrF'] if thorough and 'S' not in lay
                                                    else []):
                    for p in (ps if thorough else ([2, 1.5] if w == 'arr' else [2])):
                        out.append(T(sh, dt, w, p, lay))
    for sh, lay in big:
        for dt in (('float64', 'complex128', 'float32', 'complex64') if thorough
                   else ('float64', 'complex128', 'float32')):
            for w in ['none', 'c0.5', 'arr'] + (['arrF'] if len(sh) > 1 and lay != 'S' else []):
                for p in ps:
                    out.append(T(sh, dt, w, p, lay))
    return out


def _discr_configs(thorough):
    out = []
    ps = PS_T if thorough else PS_Q
    # ---- 1-d: every shape x every boundary choice x every extent class x every exponent
    for n in (1, 2, 3, 5):
        for b in BD:
            for ext in ('wide', 'cell1', 'unit'):
                for p in ps:
                    out.append(DS([n], [b], ext, 'float64', 'default', p))
                for dt in ('complex128', 'float32', 'complex64'):
                    for p in ([2, 1.5] if not thorough else [2, 1.5, 'inf']):
                        if ext == 'unit' and not thorough:
                            continue
                        out.append(DS([n], [b], ext, dt, 'default', p))
            for w in ('c2.0', 'c1.0', 'arr'):
                for p in ([2] if not thorough else [2, 1.5, 'inf']):
                    out.append(DS([n], [b], 'wide', 'float64', w, p))
    # ---- 2-d
    sizes = (1, 2, 3, 5) if thorough else (1, 2, 3)
    for sh in itertools.product(sizes, repeat=2):
        for bd in itertools.product(BD, repeat=2):
            for ext in (('wide', 'cell1', 'cellinv', 'unit') if thorough
                        else ('wide', 'cell1', 'cellinv')):
                for p in ps:
                    if ext != 'wide' and p not in ((2, 1.5, 1) if thorough else (2, 1.5)):
                        continue
                    out.append(DS(sh, bd, ext, 'float64', 'default', p))
            if thorough or max(sh) <= 2:
                for dt in ('complex128', 'float32') + (('complex64',) if thorough else ()):
                    for p in (2, 1.5):
                        out.append(DS(sh, bd, 'wide', dt, 'default', p))
            if sh == (2, 3):
                for lay in ('F', 'FC', 'S'):
                    for p in (2, 1.5):
                        out.append(DS(sh, bd, 'wide', 'float64', 'default', p, lay))
                for w in ('c2.0', 'arr'):
                    out.append(DS(sh, bd, 'wide', 'float64', w, 2))
    # ---- 3-d (thorough): all 64 boundary combinations
    if thorough:
        for sh in itertools.product((1, 2, 3), repeat=3):
            for bd in itertools.product(BD, repeat=3):
                for ext, pl in (('wide', ps), ('cellinv', [2, 1.5])):
                    for p in pl:
                        out.append(DS(sh, bd, ext, 'float64', 'default', p))
                if sh in ((2, 2, 2), (1, 2, 3), (3, 2, 1)):
                    for dt in ('complex128', 'float32'):
                        out.append(DS(sh, bd, 'wide', dt, 'default', 2))
    else:
        for bd in ([(1, 0), (0, 0), (1, 1)], [(0, 1), (1, 1), (0, 0)], [(1, 1), (1, 1), (1, 1)],
                   [(0, 0), (0, 0), (0, 0)]):
            for ext in ('wide', 'cellinv'):
                out.append(DS([2, 3, 2], bd, ext, 'float64', 'default', 2))
            # a one-cell axis (extent != 1) in every axis position
            for sh in ([1, 3, 2], [2, 1, 3], [3, 2, 1], [1, 1, 2]):
                for p in (2, 1.5):
                    out.append(DS(sh, bd, 'wide', 'float64', 'default', p))
    # ---- magnitude regimes of the geometry: far from the origin, tiny and huge cells
    for n in (1, 2, 3, 5):
        for b in BD:
            for ext in GEO_REGIMES:
                for p in ps:
                    out.append(DS([n], [b], ext, 'float64', 'default', p))
                if thorough or (n == 3 and ext in ('far', 'tiny')):
                    for dt in ('complex128', 'float32'):
                        for p in (2, 1.5):
                            out.append(DS([n], [b], ext, dt, 'default', p))
            if n == 3:
                for ext in ('far', 'tiny'):
                    for w in ('c2.0', 'c1.0', 'arr'):
                        out.append(DS([n], [b], ext, 'float64', w, 2))
    for sh in (((2, 3), (3, 1), (1, 2)) if not thorough else
               list(itertools.product((1, 2, 3), repeat=2))):
        for bd in itertools.product(BD, repeat=2):
            for ext in (GEO_REGIMES if thorough else ('far', 'farwide', 'tiny')):
                for p in (2, 1.5):
                    out.append(DS(sh, bd, ext, 'float64', 'default', p))
    for bd in ([(1, 0), (0, 0), (1, 1)], [(0, 0), (0, 0), (0, 0)]):
        for ext in ('far', 'tiny'):
            out.append(DS([2, 3, 2], bd, ext, 'float64', 'default', 2))
    # ---- large grids (size regimes behind the boundary scaling)
    out.append(DS([1000], [(0, 0)], 'farwide', 'float64', 'default', 2))
    out.append(DS([1000], [(0, 1)], 'tinywide', 'float64', 'default', 2))
    for sh, bd in (([50001], [(1, 0)]), ([100], [(1, 1)]), ([3, 16667], [(0, 1), (1, 1)])):
        for dt in ('float64', 'float32') + (('complex128',) if thorough else ()):
            for p in ([2, 1.5] if not thorough else ps):
                out.append(DS(sh, bd, 'wide', dt, 'default', p))
    return out


def GD(shape, s, off, dtype='float64', p=2, lay='C', reg=None):
    d = {'kind': 'gdiscr', 'shape': list(shape), 's': list(s), 'off': [list(o) for o in off],
         'dtype': dtype, 'p': p, 'lay': lay}
    if reg:
        d['reg'] = reg
    return d


def _gdiscr_configs(thorough):
    """Grids not aligned with their domain: boundary-cell fractions 1/2 (node on the boundary),
    3/4 (cropped), 1, 3/2 and 7/4 (extended), independently per axis side."""
    out = []
    ps = PS_T if thorough else PS_Q
    offs = [0.0, 0.25, 0.5, 1.0, 1.25] if thorough else [0.0, 0.25, 0.5, 1.25]
    # ---- 1-d: every (left, right) offset pair
    for n in (1, 2, 3, 5):
        for ol in offs:
            for oh in offs:
                if n == 1 and ol + oh == 0:
                    continue                    # empty domain
                for p in ps:
                    out.append(GD([n], [0.5], [(ol, oh)], 'float64', p))
                # cell side exactly 1 (weighting constant 1.0), other dtypes
                for p in ((2, 1.5, 1) if thorough else (2,)):
                    out.append(GD([n], [1.0], [(ol, oh)], 'float64', p))
                if thorough or (ol, oh) in ((0.25, 1.25), (0.5, 0.5), (1.25, 0.0)):
                    for dt in ('complex128', 'float32') + (('complex64',) if thorough else ()):
                        for p in (2, 1.5):
                            out.append(GD([n], [0.5], [(ol, oh)], dt, p))
    # ---- 2-d: pairs of axis configurations
    ax = [(0.25, 1.25), (0.5, 0.5), (0.0, 0.5), (1.0, 0.25), (0.5, 1.25)]
    if thorough:
        ax += [(0.0, 0.0), (1.25, 0.0), (0.25, 0.25)]
    shapes = [(2, 3), (3, 1), (1, 2), (3, 3)] if not thorough else \
        list(itertools.product((1, 2, 3), repeat=2)) + [(5, 2), (3, 5)]
    for sh in shapes:
        for a0 in ax:
            for a1 in ax:
                for st, pl in (([0.5, 0.25], (2, 1.5) + ((1, 'inf') if thorough else ())),
                               ([0.5, 2.0], (2,))):        # second: cell volume exactly 1
                    for p in pl:
                        out.append(GD(sh, st, [a0, a1], 'float64', p))
                if sh == (2, 3):
                    out.append(GD(sh, [0.5, 0.25], [a0, a1], 'float64', 2, 'F'))
                    if thorough:
                        for dt in ('complex128', 'float32'):
                            out.append(GD(sh, [0.5, 0.25], [a0, a1], dt, 2))
    # ---- magnitude regimes: the same misaligned grids far from the origin / with tiny / huge
    # cells (an outermost node closer to the boundary than a tolerance, but not on it)
    for reg in ('far', 'tiny', 'huge'):
        for n in (1, 2, 3, 5):
            for ol in offs:
                for oh in offs:
                    for p in (ps if reg != 'huge' else (2,)):
                        out.append(GD([n], [0.5], [(ol, oh)], 'float64', p, reg=reg))
                    if (ol, oh) in ((0.25, 1.25), (0.5, 0.5)) and reg != 'huge':
                        for dt in ('complex128', 'float32'):
                            out.append(GD([n], [0.5], [(ol, oh)], dt, 2, reg=reg))
        if reg != 'huge':
            for sh in ((2, 3), (3, 1)):
                for a0 in ax[:3]:
                    for a1 in ax[:3]:
                        for p in (2, 1.5):
                            out.append(GD(sh, [0.5, 0.25], [a0, a1], 'float64', p, reg=reg))
    # ---- boundary-cell fractions next to, but not equal to, 1 and 1/2 (1 +- 2^-20, 1/2 + 2^-20:
    # "any value larger than 1/2 is possible"), alone and combined with ordinary ones
    d = 2.0 ** -20
    near = [(0.5 + d, 0.5), (0.5, 0.5 - d), (0.5 - d, 0.5 + d), (0.25, 0.5 + d), (d, 1.25),
            (0.5, d), (d, d)]
    for n in (2, 3, 5):
        for o in near:
            for p in ps:
                out.append(GD([n], [0.5], [o], 'float64', p))
            out.append(GD([n], [1.0], [o], 'float64', 2))
            for dt in ('complex128', 'float32'):
                out.append(GD([n], [0.5], [o], dt, 2))
    for o in near[:5]:
        out.append(GD([2, 3], [0.5, 0.25], [o, (0.5, 0.5)], 'float64', 2))
        out.append(GD([2, 3], [0.5, 0.25], [(0.25, 1.25), o], 'float64', 2))
    # ---- 3-d and a large grid
    for a in ([(0.25, 1.25), (0.5, 0.5), (1.0, 0.25)], [(0.5, 1.0), (0.25, 0.25), (0.0, 1.25)],
              [(0.25, 0.5), (0.5, 0.5), (0.5, 0.5)]):
        for p in (2, 1.5):
            out.append(GD([2, 3, 2], [0.5, 0.25, 2.0], a, 'float64', p))
            out.append(GD([3, 1, 2], [0.5, 0.25, 2.0], a, 'float64', p))
    for dt in ('float64', 'float32'):
        for p in (2, 1.5):
            out.append(GD([50001], [0.5], [(0.25, 1.25)], dt, p))
    # a single node with zero offsets on both sides is a domain of zero volume: no positive
    # cell-volume weighting exists (ConstWeighting: "expected positive constant"), not admissible
    return [c for c in out
            if not any(n == 1 and ol + oh == 0 for n, (ol, oh) in zip(c['shape'], c['off']))]


HISTS = ['E', 'O', 'EE', 'EO', 'OE', 'OO', 'EEE', 'EEO', 'EOE', 'EOO', 'OEE', 'OEO', 'OOE', 'OOO']
HISTS_Q = ['O', 'EO', 'OE', 'OO', 'EOE', 'OEO']


def _whist_configs(thorough):
    """Every array weighting kind x exponent x every order of (evaluate, overwrite in place) up
    to length 3 (quick: a subset), the final state always evaluated."""
    L = _leaves()
    ps = PS_T if thorough else PS_Q
    sp = []     # (name, exponents, space configuration as a function of p, path of the target)
    sp.append(('tensor[3]', ps, lambda p: T([3], w='arr', p=p), []))
    sp.append(('tensor[2,3],F-ordered', ps, lambda p: T([2, 3], w='arrF', p=p, lay='F'), []))
    sp.append(('uniform_discr[3]', ps, lambda p: DS([3], [(0, 0)], 'wide', w='arr', p=p), []))
    sp.append(('uniform_discr[3],bdry', ps,
               lambda p: DS([3], [(1, 0)], 'wide', w='arr', p=p), []))
    sp.append(('ProductSpace:pow2(rn2)', ps, lambda p: PR('pow2(rn2)', [L['rn2']], 'arr', p, 2),
               []))
    sp.append(('ProductSpace:rn1&rn2&rn3wa', ps,
               lambda p: PR('rn1&rn2&rn3wa', [L['rn1'], L['rn2'], L['rn3wa']], 'arr', p), []))
    sp.append(('ProductSpace:inner-node', ps,
               lambda p: PR('(rn2&rn1 w=arr)&rn3wa', [PR('in', [L['rn2'], L['rn1']], 'arr', p),
                                                      T([3], w='arr', p=p)], 'c2.0', p), [0]))
    sp.append(('ProductSpace:leaf', ps,
               lambda p: PR('pow2(rn3wa)', [T([3], w='arr', p=p)], 'none', p, 2), [0]))
    if thorough:
        sp.append(('tensor[3],complex', ps, lambda p: T([3], 'complex128', w='arr', p=p), []))
        sp.append(('tensor[2,2],float32', ps, lambda p: T([2, 2], 'float32', w='arr', p=p), []))
        sp.append(('tensor[100]', ps, lambda p: T([100], w='arr', p=p), []))
        sp.append(('uniform_discr[2,2],complex', ps,
                   lambda p: DS([2, 2], [(0, 0), (0, 0)], 'wide', 'complex128', w='arr', p=p), []))
        sp.append(('ProductSpace:cn2&cn1w', ps,
                   lambda p: PR('cn2&cn1w', [L['cn2'], L['cn1w']], 'arr', p), []))
        sp.append(('ProductSpace:ud3b&rn2', ps,
                   lambda p: PR('ud3b&rn2', [L['ud3b'], L['rn2']], 'arr', p), []))
        # parts without inner product: only exponents != 2 (p = 2 is the known norm defect)
        sp.append(('ProductSpace:rn2p1&rn2pinf', [q for q in ps if q != 2],
                   lambda p: PR('rn2p1&rn2pinf', [L['rn2p1'], L['rn2pinf']], 'arr', p), []))
        sp.append(('ProductSpace:pow3(rn1),float32-leaf', ps,
                   lambda p: PR('pow3(rn1f32)', [T([1], 'float32')], 'arr', p, 3), []))
    out = []
    for name, pl, mk, path in sp:
        for p in pl:
            for h in (HISTS if thorough else HISTS_Q):
                out.append({'kind': 'whist', 'name': name, 'space': mk(p), 'target': path,
                            'hist': h})
    return out


def _leaves():
    return {
        'rn1': T([1]),
        'rn2': T([2]),
        'rn2w2': T([2], w='c2.0'),
        'rn3wa': T([3], w='arr'),
        'rn2x2F': T([2, 2], lay='F'),
        'rn2f32': T([2], 'float32'),
        'cn2': T([2], 'complex128'),
        'cn1w': T([1], 'complex128', w='c0.5'),
        'rn2p1': T([2], p=1),
        'rn2pinf': T([2], p='inf', w='c2.0'),
        'rn2p1.5': T([2], p=1.5, w='arr'),
        'ud3b': DS([3], [(1, 0)], 'wide'),
        'ud2x2b': DS([2, 2], [(1, 1), (0, 1)], 'wide'),
        'ud3p1': DS([3], [(0, 1)], 'wide', p=1),
    }


def _prod_structs(thorough):
    L = _leaves()
    st = []
    # (name, parts, power, exponents of inner nodes fixed in the structure)
    for nm in ('rn2', 'rn2w2', 'rn3wa', 'cn2', 'ud3b', 'rn2f32', 'rn2x2F'):
        st.append(('pow2(%s)' % nm, [L[nm]], 2))
    st.append(('pow3(rn1)', [L['rn1']], 3))
    st.append(('pow1(rn2)', [L['rn2']], 1))
    st.append(('rn2*rn1', [L['rn2'], L['rn1']], None))
    st.append(('rn2w2*rn3wa', [L['rn2w2'], L['rn3wa']], None))
    st.append(('ud3b*rn2', [L['ud3b'], L['rn2']], None))
    st.append(('cn2*cn1w', [L['cn2'], L['cn1w']], None))
    st.append(('rn2f32*rn2', [L['rn2f32'], L['rn2']], None))
    st.append(('rn1*rn2*rn3wa', [L['rn1'], L['rn2'], L['rn3wa']], None))
    # components without inner product (exponent != 2): norm and dist stay defined by the
    # documented component formulas
    st.append(('pow2(rn2p1)', [L['rn2p1']], 2))
    st.append(('rn2p1*rn2pinf', [L['rn2p1'], L['rn2pinf']], None))
    st.append(('rn2*rn2p1.5', [L['rn2'], L['rn2p1.5']], None))
    st.append(('ud3p1*rn2p1', [L['ud3p1'], L['rn2p1']], None))
    # nested, depth 2
    st.append(('pow2(pow2(rn1))', [PR('in', [L['rn1']], power=2)], 2))
    st.append(('pow2(pow2(rn2)w=c2)', [PR('in', [L['rn2']], w='c2.0', power=2)], 2))
    st.append(('(rn2*rn1 w=arr)*rn3wa', [PR('in', [L['rn2'], L['rn1']], w='arr'), L['rn3wa']],
               None))
    st.append(('rn2*(rn1*ud3b w=c0.5)', [L['rn2'], PR('in', [L['rn1'], L['ud3b']], w='c0.5')],
               None))
    st.append(('rn1*(rn2*rn2 p=1)', [L['rn1'], PR('in', [L['rn2'], L['rn2']], p=1)], None))
    st.append(('(rn2*rn1 p=inf,w=arr)*rn2', [PR('in', [L['rn2'], L['rn1']], w='arr', p='inf'),
                                             L['rn2']], None))
    st.append(('(cn2*cn1w w=arr)*cn2', [PR('in', [L['cn2'], L['cn1w']], w='arr'), L['cn2']],
               None))
    st.append(('(rn2f32*rn2)*rn2', [PR('in', [L['rn2f32'], L['rn2']]), L['rn2']], None))
    if thorough:
        st.append(('pow2(ud2x2b)', [L['ud2x2b']], 2))
        st.append(('ud2x2b*ud3b*rn2w2', [L['ud2x2b'], L['ud3b'], L['rn2w2']], None))
        st.append(('pow3(rn2p1.5)', [L['rn2p1.5']], 3))
        # depth 3
        d2 = PR('in2', [L['rn1']], power=2, w='c2.0')
        st.append(('pow2(pow2(pow2(rn1)w=c2)w=arr)', [PR('in', [d2], power=2, w='arr')], 2))
        st.append(('rn1*(rn2*(rn1*rn3wa w=arr) w=c0.5)',
                   [L['rn1'], PR('in', [L['rn2'], PR('in2', [L['rn1'], L['rn3wa']], w='arr')],
                                 w='c0.5')], None))
        st.append(('(rn1*(ud3b*rn2 p=1.5) p=inf)*rn2',
                   [PR('in', [L['rn1'], PR('in2', [L['ud3b'], L['rn2']], p=1.5)], p='inf'),
                    L['rn2']], None))
        st.append(('((cn2*cn1w)*cn2 w=arr)*cn1w',
                   [PR('in', [PR('in2', [L['cn2'], L['cn1w']]), L['cn2']], w='arr'), L['cn1w']],
                   None))
        st.append(('pow2(pow2(pow2(ud3b)))',
                   [PR('in', [PR('in2', [L['ud3b']], power=2)], power=2)], 2))
    return [(nm.replace('*', '&'), parts, power) for nm, parts, power in st]


def _prod_configs(thorough):
    out = []
    ps = PS_T if thorough else PS_Q
    for name, parts, power in _prod_structs(thorough):
        for w in ('none', 'c0.5', 'c2.0', 'arr'):
            for p in ps:
                out.append(PR(name, parts, w, p, power))
    return out


def _custom_configs(thorough):
    out = []
    bases = ['rn3', 'cn2', 'rn2x2', 'pw_rn2_2'] + (['pw_cn1_2', 'rn4f32'] if thorough else [])
    for b in bases:
        for which in ('inner', 'norm', 'dist'):
            out.append({'kind': 'custom', 'base': b, 'which': which})
    for sh, dt in (([3], 'float64'), ([2], 'complex128'), ([2, 2], 'float32')):
        for w in ('c2.0', 'arr'):
            out.append({'kind': 'npyfree', 'which': 'inner', 'shape': sh, 'dtype': dt, 'w': w,
                        'p': 2})
            for which in ('norm', 'dist'):
                for p in (PS_T if thorough else PS_Q):
                    out.append({'kind': 'npyfree', 'which': which, 'shape': sh, 'dtype': dt,
                                'w': w, 'p': p})
    return out


def _derived_configs(thorough):
    """Every route to a derived space / element x every weighting kind (none, constants
    including exactly 1.0, per-entry array, default cell volume including exactly 1.0) x every
    exponent x every floating-point data type."""
    ps = PS_T if thorough else PS_Q
    bases = []
    for dt in FLOAT_DTYPES:
        for p in ps:
            for w in ('none', 'c1.0', 'c2.0', 'c0.5', 'arr'):
                bases.append(T([3], dt, w, p))
            for w, lay in (('none', 'F'), ('c2.0', 'FC'), ('arrF', 'C')):
                if thorough or dt in ('complex128', 'float32'):
                    bases.append(T([2, 2], dt, w, p, lay))
            # discretized: default weighting (cell volume != 1 / == 1, with and without cut
            # boundary cells), explicit constants and arrays
            for b in BD:
                for ext in ('wide', 'cell1'):
                    if thorough or b in ((0, 0), (1, 1)) or dt == 'complex128':
                        bases.append(DS([3], [b], ext, dt, 'default', p))
            for w in ('c1.0', 'c2.0', 'arr'):
                bases.append(DS([3], [(0, 0)], 'wide', dt, w, p))
            if dt in ('float64', 'complex128'):
                bases.append(DS([2, 3], [(1, 0), (0, 0)], 'cellinv', dt, 'default', p))
                bases.append(DS([2, 3], [(0, 1), (1, 1)], 'wide', dt, 'default', p, 'F'))
                bases.append(GD([3], [0.5], [(0.25, 1.25)], dt, p))
                bases.append(GD([3], [1.0], [(0.5, 0.5)], dt, p))
    out = []
    for base in bases:
        for via in VIAS_SPACE + VIAS_ELEM:
            if derived_admissible(base, via):
                out.append({'kind': 'derived', 'via': via, 'base': base})
    return out


def _extreme_configs(thorough):
    """Magnitudes at the edge of the floating-point range: entries whose SQUARES under- or overflow
    although the entries, the norms and the distances are representable."""
    out = []
    for dt in ('float64', 'float32', 'complex128', 'complex64'):
        for n in (1, 3, 99, 100, 101) + ((50001,) if thorough else ()):
            # per-entry weights are left out: their documented formula (the weighted sum of
            # squares, evaluated as such) over- and underflows itself at these magnitudes
            for w in ('none', 'c2.0'):
                for p in (2, 1, 'inf', 1.5):
                    out.append({'kind': 'extreme', 'dtype': dt, 'n': n, 'w': w, 'p': p})
    return out


def run_extreme(cfg, site):
    """Absolute homogeneity for scalars 2^k (exact scalings): norm(s x) = s norm(x),
    dist(s x, s y) = s dist(x, y) - no reference formula needed."""
    dt = np.dtype(cfg['dtype'])
    n = cfg['n']
    single = dt in (np.dtype('float32'), np.dtype('complex64'))
    ks = (-70, 60) if single else (-520, 500)
    kw = {}
    if cfg['w'] == 'c2.0':
        kw['weighting'] = 2.0
    elif cfg['w'] == 'arr':
        kw['weighting'] = np.resize(np.array([1.0, 2.0, 0.5], dtype=_real_dtype(dt)), n)
    p = float('inf') if cfg['p'] == 'inf' else float(cfg['p'])
    viol, evals, skipped = [], 0, 0
    try:
        sp = odl.tensor_space(n, dtype=dt, exponent=p, **kw)
    except Exception as e:       # noqa
        return {'evals': 1, 'sig': site + '|unbuildable',
                'viol': [{'site': site, 'symptom': 'raises:' + type(e).__name__, 'detail': repr(e)}]}
    base = np.resize(np.array([1.0, -2.0, 0.5, 3.0, -1.0]), n).astype(dt)
    other = np.resize(np.array([0.5, 1.0, -1.0]), n).astype(dt)
    if dt.kind == 'c':
        base = base + 1j * np.resize(np.array([2.0, 0.0, -1.0]), n)
    first = {}
    try:
        x1, y1 = sp.element(base), sp.element(other)
        n1, d1 = float(x1.norm()), float(x1.dist(y1))
    except Exception as e:       # noqa  (array-weighted integer-like corners are judged elsewhere)
        return {'evals': 1, 'skipped': 1, 'sig': site + '|base-raises', 'viol': []}
    tol = (1e-5 if single else 1e-12)
    for k in ks:
        sc = 2.0 ** k
        xs, ys = sp.element(base * dt.type(sc)), sp.element(other * dt.type(sc))
        for name, got, want in (('norm', lambda: float(xs.norm()), sc * n1),
                                ('dist', lambda: float(xs.dist(ys)), sc * d1)):
            try:
                g = got()
            except Exception as e:       # noqa
                first.setdefault(name + '_raises:' + type(e).__name__, '2^%d: %r' % (k, e))
                continue
            evals += 1
            lim = np.finfo(_real_dtype(dt))
            if not (lim.tiny * 4 < want < lim.max / 4):
                skipped += 1
                continue
            if not np.isfinite(g) or abs(g - want) > tol * want:
                first.setdefault(name + '_not_absolutely_homogeneous',
                                 '%s(2^%d x) = %r but 2^%d %s(x) = %r (entries of x are O(1), all '
                                 'quantities representable in %s)' % (name, k, g, k, name, want, dt))
    viol = [{'site': site, 'symptom': sy, 'detail': d} for sy, d in first.items()]
    return {'evals': evals, 'viol': viol, 'skipped': skipped,
            'sig': '%s|extreme|%s' % (site, ','.join(sorted(first)) or 'ok'), 'trivial': evals == 0}


def configs(tier):
    thorough = tier == 'thorough'
    cfgs = []
    cfgs += _tensor_configs(thorough)
    cfgs += _derived_configs(thorough)
    cfgs += _custom_configs(thorough)
    cfgs += _discr_configs(thorough)
    cfgs += _gdiscr_configs(thorough)
    cfgs += _whist_configs(thorough)
    cfgs += _prod_configs(thorough)
    cfgs += [{'kind': 'empty', 'how': 'power0'}, {'kind': 'empty', 'how': 'field'}]
    cfgs += _extreme_configs(thorough)
    # simplest first: by number of entries, then as generated
    seen, uniq = set(), []
    for c in cfgs:
        # scope of the all-of-V^n visit: full in the thorough tier, except for degenerate
        # multi-dimensional grids (shape (1, 1, 3) ...) whose 1-d twins already get it
        sc = 't' if thorough else 'q'
        if c['kind'] in ('discr', 'gdiscr') and len(c['shape']) > 1:
            sc = 'q' if (thorough and len(c['shape']) == 2) else 'p'
        if c['kind'] == 'derived':
            sc = 'p'
        c = dict(c, sc=sc)
        k = repr(sorted(c.items(), key=lambda kv: kv[0]))
        if k not in seen:
            seen.add(k)
            uniq.append(c)
    return uniq


# ------------------------------------------------------------------------------------------

def _describe(cfg):
    k = cfg['kind']
    if k == 'tensor':
        return 'tensor shape=%s dtype=%s weighting=%s exponent=%s layout=%s' % (
            tuple(cfg['shape']), cfg['dtype'], cfg['w'], cfg['p'], cfg.get('lay', 'C'))
    if k == 'discr':
        shape, bdry, lo, hi = discr_geometry(cfg)
        return ('uniform_discr(%s, %s, %s, nodes_on_bdry=%s, dtype=%s, exponent=%s, weighting=%s)'
                ' layout=%s' % (lo, hi, shape, bdry, cfg['dtype'], cfg['p'], cfg['w'],
                                cfg.get('lay', 'C')))
    if k == 'gdiscr':
        shape, x0, st, gmin, gmax, lo, hi = gdiscr_geometry(cfg)
        return ('uniform_discr_frompartition(uniform_partition_fromgrid(uniform_grid(%s, %s, %s), '
                'min_pt=%s, max_pt=%s), dtype=%s, exponent=%s) layout=%s'
                % (gmin, gmax, shape, lo, hi, cfg['dtype'], cfg['p'], cfg.get('lay', 'C')))
    if k == 'prod':
        return 'ProductSpace %s weighting=%s exponent=%s' % (cfg['name'], cfg['w'], cfg['p'])
    if k == 'derived':
        via = cfg['via']
        how = ('elements x.%s of elements x of' % via[3:].replace('astype:', 'astype(') +
               (')' if 'astype' in via else '') if via.startswith('el.') else
               'space.%s%s of' % (via.replace('astype:', 'astype('), ')' if 'astype' in via else ''))
        return '%s [%s]' % (how, _describe(cfg['base']))
    if k == 'custom':
        return 'custom %s= on %s' % (cfg['which'], cfg['base'])
    if k == 'npyfree':
        return '%s=npy_weighted_%s(%s%s) shape=%s dtype=%s' % (
            cfg['which'], cfg['which'], cfg['w'],
            '' if cfg['which'] == 'inner' else ', exponent=%s' % cfg['p'],
            tuple(cfg['shape']), cfg['dtype'])
    return k


class Empty(Node):
    """The product of no spaces: a single element, norm 0, inner 0, dist 0."""
    n = 0
    exact = True

    def __init__(self, how):
        if how == 'power0':
            self.space = odl.ProductSpace(odl.rn(3), 0)
        else:
            self.space = odl.ProductSpace(field=odl.RealNumbers())

    def make(self, flat, role='x'):
        return self.space.zero()

    def inner(self, x, y):
        return 0.0

    def iscale(self, x, y):
        return 0.0

    def norm(self, x):
        return 0.0


def run(cfg):
    site = site_of(cfg)
    if cfg['kind'] == 'extreme':
        return run_extreme(cfg, site)
    ctx = Ctx(site)
    if cfg['kind'] == 'whist':
        try:
            node, modes = run_history(cfg, ctx)
        except Exception as e:       # noqa
            return {'evals': max(ctx.evals, 1), 'sig': site + '|raises', 'skipped': ctx.skipped,
                    'viol': ctx.viol() + [{'site': site, 'symptom': 'raises:' + type(e).__name__,
                                           'detail': '%s history %s: %r'
                                           % (_describe(cfg['space']), cfg['hist'], e)}]}
        return {'evals': ctx.evals, 'viol': ctx.viol(), 'skipped': ctx.skipped,
                'trivial': ctx.evals == 0,
                'sig': '%s|hist=%s|judge=%d|%s' % (site, cfg['hist'], node.judge,
                                                   ','.join(ctx.order) or 'ok')}
    try:
        if cfg['kind'] == 'custom':
            node = Custom(cfg)
        elif cfg['kind'] == 'empty':
            node = Empty(cfg['how'])
        else:
            node = build(cfg)
    except Exception as e:       # noqa
        # every enumerated configuration is documented as constructible
        return {'evals': 1, 'sig': site + '|unbuildable',
                'viol': [{'site': site, 'symptom': 'raises:' + type(e).__name__,
                          'detail': 'constructing %s: %r' % (_describe(cfg), e)}]}
    mode, gram, sample = check_node(node, ctx, _describe(cfg), cfg.get('sc', 't'))
    if cfg['kind'] == 'derived':
        check_derived(node, ctx, _describe(cfg))
    sig = '%s|%s|gram=%s|inner=%d|norm=%d|judge=%d|%s' % (
        site, mode.split('^')[0], gram, node.has_inner, node.has_norm, node.judge,
        ','.join(ctx.order) or 'ok')
    res = {'evals': ctx.evals, 'viol': ctx.viol(), 'sig': sig, 'skipped': ctx.skipped,
           'trivial': ctx.evals == 0}
    if sample is not None and cfg.get('shape') in ([3], [2, 3]):
        res['sample'] = sample
    return res


def trace_functions():
    from odl.space import npy_tensors as NT
    from odl.space import pspace as PS
    from odl.space import weighting as WG
    from odl.discr import discr_space as DSP
    from odl.discr import partition as PT
    from odl.util import numerics as NU
    return [NT._inner_default, NT._norm_default, NT._pnorm_default, NT._pnorm_diagweight,
            NT.NumpyTensorSpaceArrayWeighting.inner, NT.NumpyTensorSpaceArrayWeighting.norm,
            NT.NumpyTensorSpaceConstWeighting.inner, NT.NumpyTensorSpaceConstWeighting.norm,
            NT.NumpyTensorSpaceConstWeighting.dist,
            WG.Weighting.norm, WG.Weighting.dist,
            PS.ProductSpaceArrayWeighting.inner, PS.ProductSpaceArrayWeighting.norm,
            PS.ProductSpaceConstWeighting.inner, PS.ProductSpaceConstWeighting.norm,
            PS.ProductSpaceConstWeighting.dist,
            DSP.DiscretizedSpace._inner, DSP.DiscretizedSpace._norm, DSP.DiscretizedSpace._dist,
            DSP.DiscretizedSpace.is_uniformly_weighted, DSP._scaling_func_list,
            DSP.uniform_discr_frompartition, PT.RectPartition.boundary_cell_fractions,
            NU.apply_on_boundary]


def meta(tier):
    thorough = tier == 'thorough'
    return {
        'rule': 'one state = one space configuration (tensor | uniform_discr | ProductSpace tree '
                '| custom callables | npy_weighted_* free functions). Inside a state: ALL ordered '
                'pairs of V^n when the space has %s entries (small scope), else all ordered pairs '
                'of 6 (4 for n > 12) packed dyadic vectors plus basis vectors and zero (integer '
                'spaces: the same alphabets doubled); the Gram matrix over '
                % ('<= 3 real / <= 2 complex' if thorough else '<= 2 real / 1 complex') +
                'the complete real basis (e_k, i e_k) is compared entry by entry with the '
                'reference weights when it has <= 16 rows (diagonal + first off-diagonals '
                'otherwise), which decides the inner product for all inputs by sesquilinearity; '
                'linearity itself is executed on <s x + z, y> for every scalar of S. '
                'evaluations = library calls of inner / norm / dist compared with the model. '
                'distinct = distinct (site, mode, outcome, executed-line signature of the '
                'anchored functions)',
        'bounds': {
            'V': ({'n<=2': V5, 'n=3': V3} if thorough else {'n<=2': V3}),
            'V complex': [str(v) for v in VC],
            'packed alphabet': AL, 'scalars': S_REAL + [str(s) for s in S_CPLX],
            'exponents': PS_T if thorough else PS_Q,
            'dtypes': ['float64', 'complex128', 'float32', 'complex64', 'int64 (tensor spaces)'],
            'tensor layouts': ['C', 'F', 'strided view S', 'wrapped transposed view T',
                               'operand pairs CF FC TC CT FT TF SF CS on (10,10) and (250,201)'],
            'weight-array histories': (HISTS if thorough else HISTS_Q),
            'tensor sizes': 'all shapes with <= 6 entries listed in _tensor_configs; 99, 100, '
                            '50000, 50001, 3x16667' if thorough else
                            '<= 6 entries; 100, 50001, 3x16667',
            'discr shapes': '{1,2,3,5}^1, {1,2,3,5}^2, {1,2,3}^3 x all 4 / 16 / 64 nodes_on_bdry '
                            'combinations' if thorough else
                            '{1,2,3,5}^1 x 4, {1,2,3}^2 x 16 nodes_on_bdry combinations, 8 3-d',
            'discr extents': ['unit box', 'uneven box (sides 1.75, 3.25, 0.75)',
                              'every cell side 1', 'cell sides 1/2 x 2 (x 1): cell volume 1'],
            'misaligned grids': 'uniform_partition_fromgrid: shapes {1,2,3,5}^1 x all (left, '
                                'right) offset pairs of %s cell sides; 2-d: %d axis-offset pairs^2 '
                                'x %s; 6 3-d; 50001'
                                % (([0, .25, .5, 1, 1.25], 8, '{1,2,3}^2, (5,2), (3,5)') if thorough
                                   else ([0, .25, .5, 1.25], 5, '(2,3), (3,1), (1,2), (3,3)')),
            'geometry regimes': 'uniform_discr and misaligned grids: domain 2^17 ... 2^24 from '
                                'the origin (cell sides 1, 2^-10, non-dyadic), cell side 2^-30 / '
                                '1e-9 units / 2^20; boundary-cell fractions 1 +- 2^-20, 1/2 + 2^-20',
            'derived objects': VIAS_SPACE + VIAS_ELEM,
            'derived from': 'tensor (3,), (2,2) and uniform_discr / frompartition (3,), (2,3) x '
                            'weighting {none, 1.0, 2.0, 0.5, array, default cell volume (also '
                            'exactly 1)} x every exponent x every floating dtype',
            'product spaces': [s[0] for s in _prod_structs(thorough)],
            'product weightings': ['none', 0.5, 2.0, 'per-component array %s' % PWA],
        },
        'assumptions': [
            'tolerances: sums of dyadic values 4*eps*n relative to the sum of the moduli of the '
            'terms (exact in practice); wherever roots, powers or non-dyadic quadrature weights '
            'enter max(1e-12, 4*eps*n) in double and max(1e-5, 4*eps*n) in single precision',
            'formula NOT judged (counted in unspecified_skipped; axioms and the norm/inner/dist '
            'relations are still judged): default-weighted uniform_discr with exponent inf '
            '(docstring: cell volume, code: 1.0) and explicit weighting= on a grid with cut '
            'boundary cells (nowhere documented whether the fractions multiply user weights)',
            'a product space with exponent 2 over components that have no inner product is judged '
            'on norm and dist only (the ProductSpace notes define both through component norms)',
            'the weighted p-norm is the documented one, (sum w |x|^p)^(1/p) and max w |x|; the '
            'limit p -> inf is documented not to hold and is not demanded',
            'discretized spaces: the tolerance is at least 16 * 2^-52 * max|coordinate| / cell side '
            '(rounding of the grid coordinates themselves); it exceeds 1e-12 only for the '
            'non-dyadic far-from-origin boxes',
            'derived objects: astype is documented as "a copy of this space with new dtype", so '
            'weighting and exponent of the parent are demanded; left out: product spaces '
            '(ProductSpace.astype / real_space / complex_space drop weighting and exponent: known '
            'finding of C20) and array-weighted spaces converted to another precision (astype '
            'raises: known finding of C20); complex -> real element astype is not enumerated',
        ],
    }


def summarize(results):
    by = {}
    for cfg, r in results:
        by[cfg['kind']] = by.get(cfg['kind'], 0) + 1
    return {'states_by_kind': by}
