"""Registry of the library's functionals with *independent* reference values.

An entry never contains an expected number; ``ref`` is a NumPy closure implementing the
documented formula of the functional on flat arrays with the explicit weight vector ``w``
measured from the space's inner product (diag of the Gram matrix).  Shared by C07-C10.
"""
import numpy as np
import odl

from mc import spaces as S

INF = float('inf')

# Indicator thresholds in odl are deliberately shrunk by ~10*eps, so a point within `band` of
# the boundary of a constraint set is *undecided*.  The oracle resolves it conservatively in
# both directions: for the point returned by the library the band counts as feasible, for a
# competitor point it counts as infeasible (so it can never serve as a witness).
BAND_FEASIBLE = [False]


def _band():
    return 0.0 if BAND_FEASIBLE[0] else INF


class Info(object):
    """Flat description of a space: size, weights, grouping for power spaces."""

    def __init__(self, name):
        self.name = name
        self.space = S.build(name)
        self.n = S.flat_size(self.space)
        self.w = S.weights(self.space)
        sp = self.space
        self.ncomp = None
        self.nested = None
        if S.is_pspace(sp) and sp.is_power_space:
            if S.is_pspace(sp[0]) and sp[0].is_power_space:
                self.nested = (len(sp), len(sp[0]), S.flat_size(sp[0][0]))
            else:
                self.ncomp = len(sp)
                self.m = S.flat_size(sp[0])
                self.wb = S.weights(sp[0])
                # per-component weights of the product space (1 for an unweighted product)
                self.wc = self.w.reshape(self.ncomp, self.m)[:, 0] / self.wb[0]

    def elem(self, a):
        return S.from_flat(self.space, a)

    def inner(self, a, b):
        return float(np.sum(self.w * np.asarray(a) * np.asarray(b)))

    def norm2(self, a):
        return float(np.sum(self.w * np.asarray(a) ** 2))

    def groups(self, z):
        """(ncomp, m) view for power spaces."""
        return np.asarray(z).reshape(self.ncomp, self.m)

    def matrices(self, z):
        """(m, nrow, ncol) array of the matrices of a nested power space element."""
        nr, nc, m = self.nested
        return np.moveaxis(np.asarray(z).reshape(nr, nc, m), 2, 0)


# ------------------------------------------------------------------------------------------
# reference formulas

def _pnorm(v, p, axis=None):
    v = np.abs(v)
    if p == INF:
        return np.max(v, axis=axis)
    if p == 1:
        return np.sum(v, axis=axis)
    return np.sum(v ** p, axis=axis) ** (1.0 / p)


def ref_lpnorm(info, p):
    w = info.w

    def f(z):
        z = np.abs(z)
        if p == INF:
            return float(np.max(z))
        if p == 1:
            return float(np.sum(w * z))
        return float(np.sum(w * z ** p) ** (1.0 / p))
    return f


def ref_ind_ball(info, p, band=1e-9):
    nrm = ref_lpnorm(info, p)

    def f(z):
        v = nrm(z)
        if abs(v - 1) <= band:
            return _band()
        return INF if v > 1 else 0.0
    return f


def _wpnorm(info, g, p):
    """Pointwise p-norm over the components with the product-space weights (PointwiseNorm)."""
    wc = getattr(info, 'wc', None)
    if wc is None or np.all(wc == 1) or p == INF:
        return _pnorm(g, p, axis=0)
    if p == 1:
        return np.sum(wc[:, None] * np.abs(g), axis=0)
    return np.sum(wc[:, None] * np.abs(g) ** p, axis=0) ** (1.0 / p)


def ref_group_l1(info, p):
    def f(z):
        g = info.groups(z)
        return float(np.sum(info.wb * _wpnorm(info, g, p)))
    return f


def ref_ind_group_ball(info, p, band=1e-9):
    def f(z):
        g = info.groups(z)
        v = float(np.max(_wpnorm(info, g, p)))
        if abs(v - 1) <= band:
            return _band()
        return INF if v > 1 else 0.0
    return f


def ref_kl(info, prior):
    w = info.w
    g = np.ones(info.n) if prior is None else np.asarray(prior, float)

    def f(z):
        z = np.asarray(z, float)
        if np.any(z < 0) or np.any((z == 0) & (g > 0)):
            return INF
        if np.any(z == 0):
            # x_i = 0 where g_i = 0: the docstring says +inf unless x > 0, the lower
            # semicontinuous hull (which conjugate and proximal realise) gives 0: undecided
            return _band()
        with np.errstate(divide='ignore', invalid='ignore'):
            t = np.where(g > 0, g * np.log(np.where(g > 0, g, 1.0) / z), 0.0)
        return float(np.sum(w * (z - g + t)))
    return f


def ref_kl_cc(info, prior):
    w = info.w
    g = np.ones(info.n) if prior is None else np.asarray(prior, float)

    def f(z):
        z = np.asarray(z, float)
        # g_i > 0: finite iff z_i < 1;  g_i = 0: the term is 0 for z_i <= 1 (sup_x x z - x)
        if np.any((z >= 1) & (g > 0)) or np.any(z > 1):
            return INF
        with np.errstate(divide='ignore', invalid='ignore'):
            t = np.where(g > 0, g * np.log(np.where(z < 1, 1 - z, 1.0)), 0.0)
        return float(-np.sum(w * t))
    return f


def ref_kl_ce(info, prior):
    w = info.w
    g = np.ones(info.n) if prior is None else np.asarray(prior, float)

    def f(z):
        z = np.asarray(z, float)
        if np.any(z < 0):
            return INF
        with np.errstate(divide='ignore', invalid='ignore'):
            t = np.where(z > 0, z * np.log(np.where(z > 0, z, 1) / g), 0.0)
        return float(np.sum(w * (g - z + t)))
    return f


def ref_kl_ce_cc(info, prior):
    w = info.w
    g = np.ones(info.n) if prior is None else np.asarray(prior, float)

    def f(z):
        return float(np.sum(w * g * (np.exp(z) - 1)))
    return f


def ref_box(info, lower, upper, band=0.0):
    lo = -INF if lower is None else np.asarray(lower, float)
    hi = INF if upper is None else np.asarray(upper, float)

    def f(z):
        z = np.asarray(z, float)
        return 0.0 if (np.all(z >= lo) and np.all(z <= hi)) else INF
    return f


def ref_huber(info, gamma):
    def f(z):
        if info.ncomp is not None:
            # pointwise 2-norm over the components WITH the product-space weights (the library
            # uses PointwiseNorm(domain, 2)); equal to the plain norm for unweighted products
            nrm = _wpnorm(info, info.groups(z), 2)
            w = info.wb
        else:
            nrm = np.abs(z)
            w = info.w
        if gamma > 0:
            v = np.where(nrm >= gamma, nrm - gamma / 2.0, nrm ** 2 / (2.0 * gamma))
        else:
            v = nrm
        return float(np.sum(w * v))
    return f


def ref_nuclear(info, outer, sv):
    nr, nc, m = info.nested
    # base-space weights of the innermost space
    wb = S.weights(info.space[0][0])

    def f(z):
        M = info.matrices(z)
        s = np.linalg.svd(M, compute_uv=False)          # (m, k)
        pw = _pnorm(s, sv, axis=1)                       # (m,)
        if outer == 1:
            return float(np.sum(wb * pw))
        if outer == INF:
            return float(np.max(pw))
        return float(np.sum(wb * pw ** outer) ** (1.0 / outer))
    return f


def ref_ind_nuclear(info, outer, sv, band=1e-9):
    nrm = ref_nuclear(info, outer, sv)

    def f(z):
        v = nrm(z)
        if abs(v - 1) <= band:
            return _band()
        return INF if v > 1 else 0.0
    return f


def ref_simplex(info, diameter, band=1e-9):
    def f(z):
        z = np.asarray(z, float)
        s = abs(np.sum(z) - diameter)
        if np.any(z < -band) or s > band * 10:
            return INF
        if np.all(z >= 0) and s <= 1e-13:
            return 0.0
        return _band()
    return f


def ref_sum_constraint(info, value, band=1e-9):
    def f(z):
        s = abs(np.sum(z) - value)
        if s > band * 10:
            return INF
        if s <= 1e-13:
            return 0.0
        return _band()
    return f


# ------------------------------------------------------------------------------------------
# registry

TENS = ['rn3', 'rn3w2', 'rn3wa', 'ud3', 'ud3b']
TENS2 = ['rn2', 'rn2w2', 'rn2wa', 'ud2']
POW = ['pw_rn2_2', 'pw_ud2_2', 'pw_rn2w2_2']
V5 = [-2.0, -0.5, 0.0, 1.0, 3.0]
V5P = [0.25, 0.5, 1.0, 2.0, 3.0]
V7 = [-3.0, -1.5, -0.5, 0.0, 0.5, 1.0, 2.5]


class FSpec(object):
    def __init__(self, name, spaces, opts, build, ref, V=None, dom=None, convex=True,
                 prox_tol=1e-9, diff=None, band=False, posdom=False):
        self.name = name
        self.spaces = spaces
        self.opts = opts
        self.build = build
        self.ref = ref
        self.V = V or V5
        self.dom = dom          # (info, opt) -> predicate on flat array: differentiable there
        self.convex = convex
        self.prox_tol = prox_tol
        self.posdom = posdom


def _el(space, lst):
    return S.from_flat(space, np.asarray(lst, float)[:S.flat_size(space)])


_PRIOR = [0.5, 2.0, 1.0, 3.0]
_PRIOR0 = [0.5, 0.0, 1.0, 0.0]      # the prior is only assumed non-negative
_LOW = [-1.0, -0.5, 0.0, -2.0]
_UPP = [0.5, 1.0, 2.0, 0.0]


def _box_build(sp, o):
    lo, hi = o['lower'], o['upper']
    if lo == 'elem':
        lo = _el(sp, _LOW)
    if hi == 'elem':
        hi = _el(sp, _UPP)
    return odl.solvers.IndicatorBox(sp, lo, hi)


def _box_ref(info, o):
    lo, hi = o['lower'], o['upper']
    if lo == 'elem':
        lo = np.asarray(_LOW)[:info.n]
    if hi == 'elem':
        hi = np.asarray(_UPP)[:info.n]
    return ref_box(info, lo, hi)


def _prior(info_or_space, o):
    if o.get('prior') is None:
        return None
    n = info_or_space.n if isinstance(info_or_space, Info) else S.flat_size(info_or_space)
    return np.asarray(_PRIOR0 if o['prior'] == 'elem0' else _PRIOR)[:n]


def _prior_el(sp, o):
    if o.get('prior') is None:
        return None
    return _el(sp, _PRIOR0 if o['prior'] == 'elem0' else _PRIOR)


def _nonzero(info, o):
    return lambda z: bool(np.all(np.abs(z) > 1e-3))


def _normnonzero(info, o):
    return lambda z: bool(np.linalg.norm(z) > 1e-3)


def _groupnonzero(p):
    def d(info, o):
        def pred(z):
            g = info.groups(z)
            if p == 1:
                return bool(np.all(np.abs(g) > 1e-3))
            return bool(np.all(_pnorm(g, 2, axis=0) > 1e-3))
        return pred
    return d


def _pos(info, o):
    return lambda z: bool(np.all(z > 1e-3))


def _lt1(info, o):
    return lambda z: bool(np.all(z < 1 - 1e-3))


def _huberdom(info, o):
    gam = o['gamma']

    def pred(z):
        if info.ncomp is not None:
            nrm = _wpnorm(info, info.groups(z), 2)
        else:
            nrm = np.abs(z)
        return bool(np.all(np.abs(nrm - gam) > 1e-3))
    return pred


SPECS = [
    FSpec('L1Norm', TENS + ['rn2x2'] + ['pw_rn2_2'], [{}],
          lambda sp, o: odl.solvers.L1Norm(sp), lambda i, o: ref_lpnorm(i, 1), dom=_nonzero),
    FSpec('L2Norm', TENS + ['rn2x2'] + ['pw_rn2_2', 'pr_rn2_rn2_w'], [{}],
          lambda sp, o: odl.solvers.L2Norm(sp), lambda i, o: ref_lpnorm(i, 2),
          dom=_normnonzero, prox_tol=1e-6),
    FSpec('L2NormSquared', TENS + ['rn2x2'] + ['pw_rn2_2', 'pr_rn2_rn2_w'], [{}],
          lambda sp, o: odl.solvers.L2NormSquared(sp),
          lambda i, o: (lambda z: i.norm2(z))),
    FSpec('LpNorm', TENS + ['rn2x2'], [{'p': 'inf'}, {'p': 1}, {'p': 2}, {'p': 1.5}, {'p': 3}],
          lambda sp, o: odl.solvers.LpNorm(sp, float(o['p'])),
          lambda i, o: ref_lpnorm(i, float(o['p'])), dom=_nonzero, prox_tol=1e-6),
    FSpec('IndicatorLpUnitBall', TENS + ['rn2x2'], [{'p': 'inf'}, {'p': 2}, {'p': 1}, {'p': 3}],
          lambda sp, o: odl.solvers.IndicatorLpUnitBall(sp, float(o['p'])),
          lambda i, o: ref_ind_ball(i, float(o['p'])), V=V7, prox_tol=1e-6),
    FSpec('GroupL1Norm', POW, [{'p': 2}, {'p': 1}],
          lambda sp, o: odl.solvers.GroupL1Norm(sp, o['p']),
          lambda i, o: ref_group_l1(i, o['p']), dom=lambda i, o: _groupnonzero(o['p'])(i, o)),
    FSpec('GroupL1Norm[weighted product]', ['pw_rn2_2_c', 'pr_rn2_rn2_w', 'pw_rn2_1_c'], [{'p': 2}],
          lambda sp, o: odl.solvers.GroupL1Norm(sp, o['p']),
          lambda i, o: ref_group_l1(i, o['p']), dom=lambda i, o: _groupnonzero(o['p'])(i, o)),
    FSpec('IndicatorGroupL1UnitBall[weighted product]', ['pw_rn2_2_c', 'pr_rn2_rn2_w', 'pw_rn2_1_c'], [{'p': 2}],
          lambda sp, o: odl.solvers.IndicatorGroupL1UnitBall(sp, float(o['p'])),
          lambda i, o: ref_ind_group_ball(i, float(o['p'])), prox_tol=1e-6),
    FSpec('IndicatorGroupL1UnitBall', POW, [{'p': 2}, {'p': 'inf'}],
          lambda sp, o: odl.solvers.IndicatorGroupL1UnitBall(sp, float(o['p'])),
          lambda i, o: ref_ind_group_ball(i, float(o['p'])), prox_tol=1e-6),
    FSpec('ConstantFunctional', ['rn3', 'ud3'], [{'c': 1.5}],
          lambda sp, o: odl.solvers.ConstantFunctional(sp, o['c']),
          lambda i, o: (lambda z: float(o['c']))),
    FSpec('ZeroFunctional', ['rn3', 'ud3'], [{}],
          lambda sp, o: odl.solvers.ZeroFunctional(sp), lambda i, o: (lambda z: 0.0)),
    FSpec('IndicatorBox', TENS + ['rn2x2'],
          [{'lower': -1.0, 'upper': 1.0}, {'lower': 0.0, 'upper': None},
           {'lower': None, 'upper': 0.5}, {'lower': 'elem', 'upper': 'elem'},
           {'lower': 'elem', 'upper': 2.0}, {'lower': None, 'upper': None}],
          _box_build, _box_ref),
    FSpec('IndicatorNonnegativity', TENS, [{}],
          lambda sp, o: odl.solvers.IndicatorNonnegativity(sp),
          lambda i, o: ref_box(i, 0.0, None)),
    FSpec('IndicatorZero', ['rn3', 'ud3'], [{}, {'c': 2.0}],
          lambda sp, o: odl.solvers.IndicatorZero(sp, o.get('c', 0)),
          lambda i, o: (lambda z: float(o.get('c', 0)) if not np.any(z) else INF)),
    FSpec('KullbackLeibler', TENS + ['rn2x2'], [{'prior': None}, {'prior': 'elem'}, {'prior': 'elem0'}],
          lambda sp, o: odl.solvers.KullbackLeibler(sp, _prior_el(sp, o)),
          lambda i, o: ref_kl(i, _prior(i, o)), V=V5, dom=_pos, posdom=True),
    FSpec('KullbackLeiblerConvexConj', TENS, [{'prior': None}, {'prior': 'elem'}, {'prior': 'elem0'}],
          lambda sp, o: odl.solvers.KullbackLeibler(sp, _prior_el(sp, o)).convex_conj,
          lambda i, o: ref_kl_cc(i, _prior(i, o)), V=[-2.0, -0.5, 0.0, 0.5, 1.0, 3.0], dom=_lt1),
    FSpec('KullbackLeiblerCrossEntropy', TENS, [{'prior': None}, {'prior': 'elem'}],
          lambda sp, o: odl.solvers.KullbackLeiblerCrossEntropy(
              sp, None if o['prior'] is None else _el(sp, _PRIOR)),
          lambda i, o: ref_kl_ce(i, _prior(i, o)), dom=_pos, posdom=True),
    FSpec('KullbackLeiblerCrossEntropyConvexConj', TENS, [{'prior': None}, {'prior': 'elem'}],
          lambda sp, o: odl.solvers.KullbackLeiblerCrossEntropy(
              sp, None if o['prior'] is None else _el(sp, _PRIOR)).convex_conj,
          lambda i, o: ref_kl_ce_cc(i, _prior(i, o)), V=[-2.0, -0.5, 0.0, 1.0, 2.0],
          dom=lambda i, o: (lambda z: True)),
    FSpec('Huber', TENS + ['rn2x2'] + POW, [{'gamma': 0.5}, {'gamma': 1.0}],
          lambda sp, o: odl.solvers.Huber(sp, o['gamma']),
          lambda i, o: ref_huber(i, o['gamma']), dom=_huberdom),
    FSpec('NuclearNorm', ['nest_rn1_2x2', 'nest_rn2_2x2'],
          [{'outer': 1, 'sv': 2}, {'outer': 1, 'sv': 1}, {'outer': 1, 'sv': 'inf'}],
          lambda sp, o: odl.solvers.NuclearNorm(sp, o['outer'], float(o['sv'])),
          lambda i, o: ref_nuclear(i, o['outer'], float(o['sv'])),
          V=[-1.0, 0.0, 0.5, 2.0], prox_tol=1e-6),
    FSpec('IndicatorNuclearNormUnitBall', ['nest_rn1_2x2'],
          [{'outer': 'inf', 'sv': 2}, {'outer': 'inf', 'sv': 'inf'}, {'outer': 'inf', 'sv': 1}],
          lambda sp, o: odl.solvers.IndicatorNuclearNormUnitBall(
              sp, float(o['outer']), float(o['sv'])),
          lambda i, o: ref_ind_nuclear(i, float(o['outer']), float(o['sv'])),
          V=[-1.0, 0.0, 0.5, 2.0], prox_tol=1e-6),
    FSpec('IndicatorSimplex', ['rn3', 'ud3', 'rn2', 'rn2x2'], [{'d': 1.0}, {'d': 2.0}],
          lambda sp, o: odl.solvers.IndicatorSimplex(sp, o['d']),
          lambda i, o: ref_simplex(i, o['d'])),
    FSpec('IndicatorSumConstraint', ['rn3', 'ud3', 'rn2'], [{'s': 1.0}, {'s': 2.0}],
          lambda sp, o: odl.solvers.IndicatorSumConstraint(sp, o['s']),
          lambda i, o: ref_sum_constraint(i, o['s'])),
]

BY_NAME = dict((s.name, s) for s in SPECS)

_INFO = {}


def info(name):
    if name not in _INFO:
        _INFO[name] = Info(name)
    return _INFO[name]


# ------------------------------------------------------------------------------------------
# reference convex conjugates (documented closed forms, pairing <x, y>_w = sum w x y)

def _q(p):
    p = float(p)
    if p == 1:
        return INF
    if p == INF:
        return 1.0
    return p / (p - 1.0)


def conj_ref(info, name, o):
    """Reference for ``spec.build(...).convex_conj``; None if the library documents none."""
    w = info.w
    if name == 'L1Norm':
        return ref_ind_ball(info, INF)
    if name == 'L2Norm':
        return ref_ind_ball(info, 2.0)
    if name == 'L2NormSquared':
        return lambda y: info.norm2(y) / 4.0
    if name == 'LpNorm':
        return ref_ind_ball(info, _q(o['p']))
    if name == 'IndicatorLpUnitBall':
        return ref_lpnorm(info, _q(o['p']))
    if name in ('GroupL1Norm', 'GroupL1Norm[weighted product]'):
        return ref_ind_group_ball(info, _q(o['p']))
    if name in ('IndicatorGroupL1UnitBall', 'IndicatorGroupL1UnitBall[weighted product]'):
        return ref_group_l1(info, _q(o['p']))
    if name == 'ConstantFunctional':
        c = float(o['c'])
        return lambda y: (-c if not np.any(y) else INF)
    if name == 'ZeroFunctional':
        return lambda y: (0.0 if not np.any(y) else INF)
    if name == 'IndicatorZero':
        c = float(o.get('c', 0))
        return lambda y: -c
    if name in ('IndicatorBox', 'IndicatorNonnegativity'):
        if name == 'IndicatorNonnegativity':
            lo, hi = 0.0, None
        else:
            lo, hi = o['lower'], o['upper']
            if lo == 'elem':
                lo = np.asarray(_LOW)[:info.n]
            if hi == 'elem':
                hi = np.asarray(_UPP)[:info.n]
        lo = np.full(info.n, -INF) if lo is None else np.broadcast_to(np.asarray(lo, float),
                                                                      (info.n,))
        hi = np.full(info.n, INF) if hi is None else np.broadcast_to(np.asarray(hi, float),
                                                                     (info.n,))

        def f(y):
            y = np.asarray(y, float)
            with np.errstate(invalid='ignore'):
                a = np.where(y == 0, 0.0, lo * y)
                b = np.where(y == 0, 0.0, hi * y)
            return float(np.sum(w * np.maximum(a, b)))
        return f
    if name == 'KullbackLeibler':
        return ref_kl_cc(info, _prior(info, o))
    if name == 'KullbackLeiblerConvexConj':
        return ref_kl(info, _prior(info, o))
    if name == 'KullbackLeiblerCrossEntropy':
        return ref_kl_ce_cc(info, _prior(info, o))
    if name == 'KullbackLeiblerCrossEntropyConvexConj':
        return ref_kl_ce(info, _prior(info, o))
    if name == 'Huber':
        gam = o['gamma']
        ball = (ref_ind_group_ball(info, 2.0) if info.ncomp is not None
                else ref_ind_ball(info, INF))

        def f(y):
            return ball(y) + gam / 2.0 * info.norm2(y)
        return f
    if name == 'NuclearNorm':
        return ref_ind_nuclear(info, _q(o['outer']), _q(o['sv']))
    if name == 'IndicatorNuclearNormUnitBall':
        return ref_nuclear(info, _q(o['outer']), _q(o['sv']))
    return None
