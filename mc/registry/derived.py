"""Derived functionals (the library's combinators) with reference values built by the same
rule applied to the reference closures - the 'reference interpreter' for functionals."""
import numpy as np
import odl

from mc import spaces as S

INF = float('inf')

_Y = [0.5, -1.0, 2.0, 1.0, -0.5, 0.25, 1.5, -2.0]
_PT = [0.5, 2.0, 1.0, 3.0, 0.25, 1.5, 1.0, 0.5]
_SG = [0.5, -0.25, 1.0, 0.5, -1.0, 0.25, 0.5, 1.0]
_VEC = [2.0, -0.5, 1.0, 4.0, -1.0, 0.5, 2.0, 1.0]


def vec(info, lst):
    return np.asarray((lst * 4)[:info.n], float)


# elements handed to the combinators during the current derivation (translation vectors, linear
# terms, Bregman points and subgradients, multiplicands): caller-owned objects which the history
# clauses of C07 modify in place afterwards
DATA = []


def _rec(e):
    if len(DATA) > 64:
        del DATA[:32]
    DATA.append(e)
    return e


def _add(a, b):
    """Extended-real addition for reference values."""
    return a + b


KINDS = ['translated', 'leftscal', 'leftscal_half', 'rightscal', 'rightscal_neg', 'rightscal0', 'quadpert',
         'quadpert_a0', 'quadpert_nou', 'quadpert_c', 'scalarsum', 'bregman', 'rightvec']


def derive(kind, f, ref, cref, info):
    """Return dict(func=, ref=, cref=, shift=callable mapping z to the argument of the base
    functional - used to transport differentiability domains)."""
    sp = info.space
    w = info.w
    ident = lambda z: z
    if kind == 'translated':
        y = vec(info, _Y)
        g = f.translated(_rec(info.elem(y)))
        r = lambda z: ref(np.asarray(z) - y)
        c = None if cref is None else (lambda v: _add(cref(v), info.inner(v, y)))
        return dict(func=g, ref=r, cref=c, arg=lambda z: np.asarray(z) - y)
    if kind in ('leftscal', 'leftscal_half'):
        a = 2.0 if kind == 'leftscal' else 0.5
        g = a * f
        r = lambda z: a * ref(z)
        c = None if cref is None else (lambda v: a * cref(np.asarray(v) / a))
        return dict(func=g, ref=r, cref=c, arg=ident)
    if kind in ('rightscal', 'rightscal_neg'):
        a = 2.0 if kind == 'rightscal' else -0.5
        g = f * a
        r = lambda z: ref(a * np.asarray(z))
        c = None if cref is None else (lambda v: cref(np.asarray(v) / a))
        return dict(func=g, ref=r, cref=c, arg=lambda z: a * np.asarray(z))
    if kind == 'rightscal0':
        g = f * 0.0
        f0 = ref(np.zeros(info.n))
        if not np.isfinite(f0):
            raise NotImplementedError('0 is outside the domain of the base functional')
        r = lambda z: f0
        return dict(func=g, ref=r, cref=None, arg=ident)
    if kind in ('quadpert', 'quadpert_a0', 'quadpert_nou', 'quadpert_c'):
        # quadpert_c: ONLY the constant is given (default coefficient 0, no linear term)
        a = 0.0 if kind in ('quadpert_a0', 'quadpert_c') else 1.5
        u = None if kind in ('quadpert_nou', 'quadpert_c') else vec(info, _Y)
        cst = 0.5
        g = odl.solvers.FunctionalQuadraticPerturb(
            f, quadratic_coeff=a, linear_term=None if u is None else _rec(info.elem(u)), constant=cst)
        uu = np.zeros(info.n) if u is None else u
        r = lambda z: _add(ref(z), a * info.norm2(z) + info.inner(z, uu) + cst)
        c = None
        if cref is not None and a == 0.0:
            c = lambda v: _add(cref(np.asarray(v) - uu), -cst)
        return dict(func=g, ref=r, cref=c, arg=ident, quad=a)
    if kind == 'scalarsum':
        cst = 3.0
        g = f + cst
        r = lambda z: _add(ref(z), cst)
        c = None if cref is None else (lambda v: _add(cref(v), -cst))
        return dict(func=g, ref=r, cref=c, arg=ident)
    if kind == 'bregman':
        pt = vec(info, _PT)
        sg = vec(info, _SG)
        g = odl.solvers.BregmanDistance(f, _rec(info.elem(pt)), _rec(info.elem(sg)))
        fpt = ref(pt)
        if not np.isfinite(fpt):
            raise NotImplementedError('base point outside the domain')
        r = lambda z: _add(ref(z), -fpt - info.inner(sg, np.asarray(z) - pt))
        return dict(func=g, ref=r, cref=None, arg=ident)
    if kind == 'rightvec':
        v = vec(info, _VEC)
        g = f * _rec(info.elem(v))
        r = lambda z: ref(v * np.asarray(z))
        c = None if cref is None else (lambda y: cref(np.asarray(y) / v))
        return dict(func=g, ref=r, cref=c, arg=lambda z: v * np.asarray(z))
    raise KeyError(kind)
