"""Registry of operator instances over small spaces, shared by C03, C05 and C06.

An entry gives, per class, a list of option dictionaries (first = default configuration, the
others deviate from it) and a builder.  No expected value is stored anywhere: C03 uses
differential oracles, C05 the matrix identity in the spaces' own inner products, C06 central
differences.

``dk`` (domain kind) selects the admissible input points:
  any | pos (entries > 0) | unit (|x| < 1) | gt1 (> 1) | nonzero | int | bool
"""
import numpy as np
import odl

from mc import spaces as S

PAT = [
    [0.5, -1.0, 2.0, 1.0, -0.5, 0.25, 1.5, -2.0, 3.0, -0.25, 0.75, -1.5],
    [1.0, 2.0, -0.5, 3.0, 0.25, -1.0, -2.0, 0.5, -1.5, 2.5, -0.75, 1.25],
    [-2.0, 0.5, 1.0, -0.25, 1.5, 2.0, -1.0, 3.0, 0.75, -0.5, 1.25, -3.0],
    [0.25, 0.25, 0.25, 0.25, 0.25, 0.25, 0.25, 0.25, 0.25, 0.25, 0.25, 0.25],
    [3.0, -3.0, 0.5, -0.5, 2.0, -2.0, 1.0, -1.0, 1.5, -1.5, 0.25, -0.25],
]
POS = [
    [0.5, 1.0, 2.0, 1.5, 0.25, 3.0, 0.75, 1.25, 2.5, 0.5, 1.0, 2.0],
    [2.0, 0.25, 1.0, 3.0, 0.5, 1.5, 1.25, 0.75, 0.5, 2.5, 2.0, 1.0],
    [1.0, 3.0, 0.5, 0.25, 2.0, 0.75, 2.5, 1.5, 1.0, 0.25, 0.5, 3.0],
    [0.25, 0.5, 0.25, 0.5, 0.25, 0.5, 0.25, 0.5, 0.25, 0.5, 0.25, 0.5],
    [3.0, 2.0, 1.5, 1.0, 0.75, 0.5, 0.25, 1.25, 2.5, 3.0, 2.0, 1.5],
]
UNIT = [
    [0.5, -0.25, 0.75, 0.125, -0.5, 0.25, -0.75, 0.0, 0.5, -0.125, 0.25, -0.5],
    [-0.75, 0.5, 0.25, -0.5, 0.125, 0.75, 0.0, -0.25, 0.5, 0.25, -0.125, 0.75],
    [0.25, 0.75, -0.5, 0.5, -0.25, -0.125, 0.5, 0.75, -0.75, 0.0, 0.125, 0.25],
]
GT1 = [[1.5, 2.0, 3.0, 1.25, 2.5, 4.0, 1.75, 2.25, 3.5, 1.5, 2.0, 3.0],
       [3.0, 1.25, 2.0, 2.5, 1.5, 1.75, 4.0, 3.5, 2.25, 3.0, 1.25, 2.0],
       [2.0, 4.0, 1.5, 3.0, 1.25, 2.5, 2.25, 1.75, 1.5, 2.0, 4.0, 1.5]]
INT = [[1, -2, 3, 0, 5, -1, 2, 4, -3, 1, 2, 3], [2, 1, -1, 3, 0, 4, -2, 5, 1, -3, 2, 1],
       [-1, 3, 2, 1, -2, 0, 4, -3, 5, 2, 1, -1]]


def points(space, dk='any', count=3):
    """Admissible input points of an operator domain as flat arrays (deterministic)."""
    n = S.flat_size(space)
    dt = S.dtype_of(space)
    table = {'any': PAT, 'pos': POS, 'unit': UNIT, 'gt1': GT1, 'nonzero': PAT,
             'int': INT, 'bool': INT}[dk]
    out = []
    for k in range(min(count, len(table))):
        row = (table[k] * (n // len(table[k]) + 1))[:n]
        a = np.asarray(row, dtype=float)
        if dt.kind == 'c':
            row2 = (table[(k + 1) % len(table)] * (n // 12 + 1))[:n]
            a = a + 1j * np.asarray(row2, dtype=float)
        if dt.kind in 'iu':
            a = np.asarray((INT[k % 3] * (n // 12 + 1))[:n])
        if dt.kind == 'b':
            a = np.asarray((INT[k % 3] * (n // 12 + 1))[:n]) > 0
        out.append(a.astype(dt))
    return out


# data elements handed to constructors since the last `start_recording()`: the caller-owned
# objects an operator may keep by reference (history clauses of C05 / C06 modify them later)
CREATED = []


def start_recording():
    del CREATED[:]


def el(space, k=0, dk='any'):
    e = S.from_flat(space, points(space, dk, 5)[k])
    if len(CREATED) > 256:
        del CREATED[:128]
    CREATED.append(e)
    return e


def build_recording(spec, o):
    """(operator, [data elements created by `el` while it was built])."""
    start_recording()
    op = spec.build(o)
    return op, [e for e in CREATED if hasattr(e, 'space')]


class OSpec(object):
    def __init__(self, name, opts, build, dk='any', approx_adjoint=False, exempt_deriv=False,
                 note='', cls=None, adjoint_exempt_reason=None):
        self.name = name
        self.opts = opts
        self.build = build
        self.dk = dk
        self.approx_adjoint = approx_adjoint
        self.exempt_deriv = exempt_deriv
        self.note = note
        self.cls = cls or name.split('[')[0]


R = odl.RealNumbers()
C = odl.ComplexNumbers()


_SPC = {}


def _sp(name):
    """Space by name; cached, because array-weighted spaces compare by identity of the array."""
    if name not in _SPC:
        _SPC[name] = _sp_new(name)
    return _SPC[name]


def _sp_new(name):
    if name == 'R':
        return R
    if name == 'C':
        return C
    if name == 'rn23':
        return odl.rn((2, 3))
    if name == 'rn23w':
        return odl.rn((2, 3), weighting=0.5)
    if name == 'rn332':
        return odl.rn((3, 3, 2))
    if name == 'rn233':
        return odl.rn((2, 3, 3))
    if name == 'cn23':
        return odl.cn((2, 3))
    if name == 'ud23':
        return odl.uniform_discr([0, 0], [1, 3], (2, 3))
    if name == 'ud23b':
        return odl.uniform_discr([0, 0], [1, 3], (2, 3), nodes_on_bdry=True)
    if name == 'ud4':
        return odl.uniform_discr(0, 2, 4)
    if name == 'ud5':
        return odl.uniform_discr(0, 1, 5)
    if name == 'udc4':
        return odl.uniform_discr(0, 2, 4, dtype=complex)
    if name == 'ud4b':
        return odl.uniform_discr(0, 2, 4, nodes_on_bdry=True)
    if name == 'ud34':
        return odl.uniform_discr([0, 0], [3, 2], (3, 4))
    if name == 'ud3':
        return odl.uniform_discr(0, 1.5, 3)
    if name == 'ud8':
        return odl.uniform_discr(0, 1, 8)
    if name == 'rn2f32':
        return odl.rn(2, dtype='float32')
    if name == 'pw_rn3_2':
        return odl.rn(3) ** 2
    if name == 'pw_ud4_2':
        return odl.uniform_discr(0, 2, 4) ** 2
    if name == 'pw_ud23_2':
        return odl.uniform_discr([0, 0], [1, 3], (2, 3)) ** 2
    if name == 'pw_cn2_2w':
        return odl.ProductSpace(odl.cn(2), 2, weighting=[1.0, 2.0])
    if name == 'pw_rn2_3w':
        return odl.ProductSpace(odl.rn(2), 3, weighting=[1.0, 2.0, 0.5])
    if name == 'pr3':
        return odl.ProductSpace(odl.rn(2), odl.rn(1), odl.rn(2))
    if name == 'pr3w':
        return odl.ProductSpace(odl.rn(2), odl.rn(1), odl.rn(2), weighting=[1.0, 2.0, 0.5])
    if name == 'pw3':
        return odl.rn(2) ** 3
    if name == 'pw5':
        return odl.rn(2) ** 5
    if name == 'pw_rn3_1w':
        # a vector field with exactly ONE component and a weight != 1
        return odl.ProductSpace(odl.rn(3), 1, weighting=[3.0])
    if name == 'pw_rn3_1c':
        return odl.ProductSpace(odl.rn(3), 1, weighting=0.5)
    if name == 'pw_rn3_1':
        return odl.ProductSpace(odl.rn(3), 1)
    if name == 'int3':
        return odl.tensor_space(3, dtype=int)
    return S.build(name)


def _mat(o, dom, ran):
    m, n = S.flat_size(ran), S.flat_size(dom)
    base = np.array([[1.0, -0.5, 2.0, 0.0], [0.0, 1.0, 0.5, -1.0], [2.0, 0.0, -1.0, 0.5],
                     [0.5, 2.0, 0.0, 1.0]])
    A = base[:m, :n].copy()
    if o.get('complex'):
        A = A + 1j * base.T[:m, :n]
    if o.get('sparse'):
        import scipy.sparse
        A = scipy.sparse.csr_matrix(A)
    return A


def _matrixop(o):
    dom, ran = _sp(o['dom']), _sp(o['ran'])
    if 'axis' in o:
        # acts along one axis of a 2-d domain
        k = dom.shape[o['axis']]
        m = o.get('rows', 2)
        A = np.array([[1.0, -0.5, 2.0], [0.5, 1.0, 0.25], [2.0, 0.0, -1.0]])[:m, :k]
        return odl.MatrixOperator(A, domain=dom, axis=o['axis'])
    return odl.MatrixOperator(_mat(o, dom, ran), domain=dom, range=ran)


def _leaf(name, sp):
    """Small operators used as blocks of product-space operators and expression leaves."""
    if name == 'I':
        return odl.IdentityOperator(sp)
    if name == 'S2':
        return odl.ScalingOperator(sp, 2.0)
    if name == 'M':
        return odl.MultiplyOperator(el(sp, 1), domain=sp, range=sp)
    if name == 'A':
        return odl.MatrixOperator(_mat({}, sp, sp), domain=sp, range=sp)
    if name == 'Ac':
        return odl.MatrixOperator(_mat({'complex': 1}, sp, sp), domain=sp, range=sp)
    if name == 'P2':
        return odl.PowerOperator(sp, 2)
    if name == 'P3':
        return odl.PowerOperator(sp, 3)
    if name == 'sin':
        return odl.ufunc_ops.sin(sp)
    if name == 'exp':
        return odl.ufunc_ops.exp(sp)
    if name == 'Aff':
        return odl.ScalingOperator(sp, 2.0) + el(sp, 2)
    if name == 'C':
        return odl.ConstantOperator(el(sp, 1), sp)
    if name == 'Z':
        return odl.ZeroOperator(sp)
    if name == 'V':
        # returns (a view of) its input when called out-of-place
        return odl.RealPart(sp)
    if name == 'Lap':
        # a stencil: correct for distinct x / out, not safe for out aliased with x
        return odl.Laplacian(sp, pad_mode='symmetric')
    if name == 'CMS':
        # complex -> real; its derivative keeps the base point by reference
        return odl.ComplexModulusSquared(sp)
    if name == 'PD':
        return odl.PartialDerivative(sp, axis=0, method='central', pad_mode='order1')
    raise KeyError(name)


def _cp_index(i):
    return {'slice': slice(0, 2), 'step2': slice(None, None, 2), 'step2from1': slice(1, None, 2),
            'neg': slice(None, None, -2)}.get(i, i) if isinstance(i, str) else i


def _psop(o):
    sp = _sp(o.get('space', 'rn2'))
    L = lambda n: None if n is None else _leaf(n, sp)
    grid = [[L(n) for n in row] for row in o['grid']]
    kw = {}
    if o.get('explicit'):
        kw = dict(domain=sp ** len(grid[0]), range=sp ** len(grid))
    return odl.ProductSpaceOperator(grid, **kw)


def _expr(o):
    sp = _sp(o.get('space', 'rn3'))
    A, B = _leaf(o['A'], sp), _leaf(o.get('B', 'M'), sp)
    k = o['k']
    v = el(sp, 2)
    a = o.get('a', 2.0)
    if k == 'sum':
        return odl.OperatorSum(A, B)
    if k == 'sum_tmp':
        return odl.OperatorSum(A, B, sp.element(), sp.element())
    if k == 'vecsum':
        return odl.OperatorVectorSum(A, v)
    if k == 'comp':
        return odl.OperatorComp(A, B)
    if k == 'comp_tmp':
        return odl.OperatorComp(A, B, sp.element())
    if k == 'pwprod':
        return odl.OperatorPointwiseProduct(A, B)
    if k == 'lscal':
        return odl.OperatorLeftScalarMult(A, a)
    if k == 'rscal':
        return odl.OperatorRightScalarMult(A, a)
    if k == 'rscal_tmp':
        return odl.OperatorRightScalarMult(A, a, sp.element())
    if k == 'lvec':
        return odl.OperatorLeftVectorMult(A, v)
    if k == 'rvec':
        return odl.OperatorRightVectorMult(A, v)
    if k == 'flvec':
        f = odl.InnerProductOperator(el(sp, 1)) if o.get('lin', 1) else odl.NormOperator(sp)
        return odl.FunctionalLeftVectorMult(f, v)
    if k == 'lvec_ce':
        # complex vector times an operator from a real into a complex space
        CE = odl.ComplexEmbedding(sp, complex(*o.get('a', [1.0, 0.0])))
        return odl.OperatorLeftVectorMult(CE * A, el(CE.range, 1))
    if k == 'rvec_ce':
        CE = odl.ComplexEmbedding(sp, complex(*o.get('a', [1.0, 0.0])))
        return odl.OperatorRightVectorMult(CE * A, v)
    raise KeyError(k)


def _fourier(o):
    import pyfftw
    pyfftw.forget_wisdom()
    dt = o.get('dtype', 'complex128')
    shp = o.get('shape', [4])
    dom = odl.uniform_discr([0.0] * len(shp), [float(s) for s in shp], shp, dtype=dt)
    kw = dict(impl=o.get('impl', 'numpy'))
    if 'halfcomplex' in o:
        kw['halfcomplex'] = o['halfcomplex']
    if 'axes' in o:
        kw['axes'] = o['axes']
    if 'shift' in o:
        kw['shift'] = o['shift']
    kind = o['kind']
    if kind == 'dft':
        return odl.trafos.DiscreteFourierTransform(dom, **kw)
    if kind == 'idft':
        return odl.trafos.DiscreteFourierTransform(dom, **kw).inverse
    if kind == 'ft':
        return odl.trafos.FourierTransform(dom, **kw)
    if kind == 'ift':
        return odl.trafos.FourierTransform(dom, **kw).inverse
    raise KeyError(kind)


def _wavelet(o):
    shp = o.get('shape', [8])
    dom = odl.uniform_discr([0.0] * len(shp), [1.0] * len(shp), shp)
    W = odl.trafos.WaveletTransform(dom, o.get('wavelet', 'haar'), nlevels=o.get('nlevels', 1),
                                    pad_mode=o.get('pad_mode', 'periodic'), axes=o.get('axes'))
    return W.inverse if o.get('inv') else W


def _ray(o):
    sp = odl.uniform_discr([-1, -1], [1, 1], (4, 4))
    g = odl.tomo.parallel_beam_geometry(sp, num_angles=3, det_shape=5)
    return odl.tomo.RayTransform(sp, g, impl='skimage')


def _sampling(o):
    dom = _sp(o.get('dom', 'ud23'))
    pts = o.get('pts', [[0, 1, 1], [0, 2, 2]])
    cls = odl.SamplingOperator if o['k'] == 's' else odl.WeightedSumSamplingOperator
    return cls(dom, pts, variant=o['variant'])


def _ufunc_op(name):
    def b(o):
        sp = _sp(o.get('space', 'rn3'))
        return getattr(odl.ufunc_ops, name)(sp)
    return b


def _ufunc_dk(name):
    if name in ('log', 'log2', 'log10', 'sqrt', 'reciprocal'):
        return 'pos'
    if name in ('arcsin', 'arccos', 'arctanh'):
        return 'unit'
    if name in ('arccosh',):
        return 'gt1'
    if name in ('log1p',):
        return 'pos'
    return 'any'


def _functional(o):
    from mc.registry import functionals as FR
    spec = FR.BY_NAME[o['name']]
    opt = spec.opts[o.get('i', 0)]
    return spec.build(S.build(o['space']), opt)


def _derived_functional(o):
    from mc.registry import functionals as FR
    from mc.registry import derived as DV
    spec = FR.BY_NAME[o['name']]
    info = FR.info(o['space'])
    f = spec.build(info.space, spec.opts[0])
    k = o['k']
    if k in DV.KINDS:
        return DV.derive(k, f, spec.ref(info, spec.opts[0]), None, info)['func']
    g = odl.solvers.L2NormSquared(info.space)
    if k == 'sum':
        return f + g
    if k == 'comp':
        return f * odl.ScalingOperator(info.space, 2.0)
    if k == 'product':
        return odl.solvers.FunctionalProduct(f, g)
    if k == 'quotient':
        return odl.solvers.FunctionalQuotient(f, g + 1.0)
    if k == 'defaultconj':
        from odl.solvers.functional.functional import FunctionalDefaultConvexConjugate
        return FunctionalDefaultConvexConjugate(f)
    if k == 'infconv':
        return odl.solvers.InfimalConvolution(f, g)
    if k == 'moreau':
        return odl.solvers.MoreauEnvelope(f)
    if k == 'sepsum':
        return odl.solvers.SeparableSum(f, g)
    if k == 'quadform':
        return odl.solvers.QuadraticForm(_leaf('A', info.space), el(info.space, 1), 0.5)
    if k == 'rightscal2':
        return (f * 2.0) * 0.25
    if k == 'rightscal_div':
        return (f * 2.0) / 4.0
    if k == 'leftright':
        return 3.0 * (f * 0.5)
    if k == 'translated2':
        return f.translated(el(info.space, 1)).translated(el(info.space, 2))
    raise KeyError(k)


def _prox(o):
    from mc.props import c10
    sp = S.build(o['space'])
    name = o['name']
    fac = c10.RAW[name][2](sp, c10.RAW[name][1][o.get('i', 0)])
    return fac(c10._sigma(sp, o.get('sk', 'scalar'), 0.5))


def _gradop(o, cls):
    dom = _sp(o.get('dom', 'ud23'))
    kw = dict((k, o[k]) for k in ('method', 'pad_mode', 'pad_const') if k in o)
    if cls is odl.PartialDerivative:
        return cls(dom, axis=o.get('axis', 0), **kw)
    if cls is odl.Divergence:
        return cls(range=dom, **kw)
    if cls is odl.Laplacian:
        kw.pop('method', None)
        return cls(dom, **kw)
    return cls(dom, **kw)


def _resize(o):
    dom = _sp(o.get('dom', 'ud4'))
    kw = dict((k, o[k]) for k in ('pad_mode', 'pad_const', 'offset') if k in o)
    return odl.ResizingOperator(dom, ran_shp=o.get('ran_shp', (6,)), **kw)


def _resample(o):
    if o.get('d2'):
        dom = odl.uniform_discr([0, 0], [1, 1], o['n'])
        ran = odl.uniform_discr([0, 0], [1, 1], o['m'])
        return odl.Resampling(dom, ran, interp=o['interp'])
    dom = odl.uniform_discr(0, 1, o.get('n', 4))
    ran = odl.uniform_discr(0, 1, o.get('m', 6))
    return odl.Resampling(dom, ran, interp=o.get('interp', 'nearest'))


def _deform(o):
    sp = odl.uniform_discr(0, 1, 5)
    templ = sp.element([0.0, 1.0, 3.0, 2.0, 0.5])
    disp = (sp ** 1).element([[0.0, 0.1, -0.05, 0.2, 0.0]])
    if o['k'] == 'templ':
        return odl.deform.LinDeformFixedTempl(templ, interp=o.get('interp', 'linear'))
    return odl.deform.LinDeformFixedDisp(disp, templ_space=sp, interp=o.get('interp', 'linear'))


_GD = [dict(), dict(method='backward'), dict(method='central'), dict(pad_mode='symmetric'),
       dict(pad_mode='periodic'), dict(pad_mode='order1'), dict(pad_mode='constant', pad_const=1.5),
       dict(pad_mode='order0'), dict(dom='udc4'), dict(dom='ud23b'), dict(dom='ud4')] + \
    [dict(dom='ud34', pad_mode=pm, method=m) for pm in ('order1', 'order2')
     for m in ('forward', 'backward', 'central')] + \
    [dict(dom='ud3', pad_mode=pm, method='central') for pm in ('order1', 'order2', 'symmetric')]

UFUNCS_1 = ['absolute', 'sign', 'negative', 'square', 'sqrt', 'reciprocal', 'exp', 'expm1', 'exp2',
            'log', 'log2', 'log10', 'log1p', 'sin', 'cos', 'tan', 'arcsin', 'arccos', 'arctan',
            'sinh', 'cosh', 'tanh', 'arcsinh', 'arccosh', 'arctanh', 'deg2rad', 'rad2deg',
            'floor', 'ceil', 'trunc', 'rint', 'isnan', 'isinf', 'isfinite', 'signbit', 'conj',
            'logical_not']
UFUNCS_2 = ['add', 'subtract', 'multiply', 'divide', 'true_divide', 'floor_divide', 'power',
            'maximum', 'minimum', 'fmax', 'fmin', 'fmod', 'mod', 'remainder', 'hypot', 'arctan2',
            'copysign', 'logaddexp', 'logaddexp2', 'equal', 'not_equal', 'less', 'less_equal',
            'greater', 'greater_equal', 'logical_and', 'logical_or', 'logical_xor']
UFUNCS_INT = ['bitwise_and', 'bitwise_or', 'bitwise_xor', 'left_shift', 'right_shift', 'invert']

SPECS = [
    OSpec('ScalingOperator', [dict(dom='rn3', a=2.0), dict(dom='rn3', a=-0.5), dict(dom='rn3', a=0.0),
                              dict(dom='cn2', a=[1.0, 1.0]), dict(dom='ud3', a=2.0),
                              dict(dom='pw_rn2_2', a=3.0), dict(dom='R', a=2.0),
                              dict(dom='C', a=[0.0, 1.0]), dict(dom='rn3wa', a=2.0),
                              dict(dom='pw_cn2_2w', a=[1.0, -1.0]),
                              # magnitude regimes: a tiny (but non-zero) imaginary part, a tiny and a
                              # huge factor - exact comparisons in the class must not become
                              # tolerance-based ones
                              dict(dom='cn2', a=[2.0, 2.0 ** -30]), dict(dom='cn2', a=[0.0, 2.0 ** -30]),
                              dict(dom='rn3', a=2.0 ** -30), dict(dom='cn2', a=[2.0 ** 30, 1.0])],
          lambda o: odl.ScalingOperator(_sp(o['dom']), complex(*o['a']) if isinstance(o['a'], list)
                                        else o['a'])),
    OSpec('IdentityOperator', [dict(dom='rn3'), dict(dom='cn2'), dict(dom='pw_rn2_2'),
                               dict(dom='R'), dict(dom='ud23')],
          lambda o: odl.IdentityOperator(_sp(o['dom']))),
    OSpec('LinCombOperator', [dict(dom='rn3', a=1.0, b=1.0), dict(dom='rn3', a=2.0, b=-0.5),
                              dict(dom='ud3', a=0.0, b=1.0), dict(dom='cn2', a=1.0, b=2.0),
                              dict(dom='rn3wa', a=2.0, b=3.0)],
          lambda o: odl.LinCombOperator(_sp(o['dom']), o['a'], o['b'])),
    OSpec('MultiplyOperator',
          [dict(dom='rn3', m='elem'), dict(dom='rn3', m='scalar'), dict(dom='cn2', m='elem'),
           dict(dom='cn2', m='scalar'), dict(dom='ud3', m='elem'), dict(dom='rn3wa', m='elem'),
           dict(dom='R', ran='rn3', m='elem'), dict(dom='C', ran='cn2', m='elem'),
           dict(dom='R', ran='rn3wa', m='elem'), dict(dom='pw_rn2_2', m='elem'),
           dict(dom='R', ran='ud3', m='elem'), dict(dom='cn2w2', m='elem')],
          lambda o: odl.MultiplyOperator(
              el(_sp(o.get('ran', o['dom'])), 1) if o['m'] == 'elem' else
              (2.0 if not S.is_complex(_sp(o['dom'])) else 1.0 + 2.0j),
              domain=_sp(o['dom']), range=_sp(o.get('ran', o['dom'])))),
    OSpec('PowerOperator', [dict(dom='rn3', p=2), dict(dom='rn3', p=3), dict(dom='rn3', p=1),
                            dict(dom='ud3', p=2), dict(dom='R', p=2), dict(dom='R', p=3),
                            dict(dom='rn3', p=0.5, dk='pos'), dict(dom='rn3', p=-1, dk='pos'),
                            dict(dom='pw_rn2_2', p=2)],
          lambda o: odl.PowerOperator(_sp(o['dom']), o['p'])),
    OSpec('InnerProductOperator', [dict(dom='rn3'), dict(dom='cn2'), dict(dom='rn3wa'),
                                   dict(dom='ud3'), dict(dom='pw_rn2_2'), dict(dom='cn2w2'),
                                   dict(dom='pr_rn2_rn2_w')],
          lambda o: odl.InnerProductOperator(el(_sp(o['dom']), 1))),
    OSpec('NormOperator', [dict(dom='rn3'), dict(dom='cn2'), dict(dom='rn3wa'), dict(dom='ud3'),
                           dict(dom='pw_rn2_2')],
          lambda o: odl.NormOperator(_sp(o['dom']))),
    OSpec('DistOperator', [dict(dom='rn3'), dict(dom='rn3wa'), dict(dom='ud3'), dict(dom='cn2')],
          lambda o: odl.DistOperator(el(_sp(o['dom']), 4))),
    OSpec('ConstantOperator', [dict(dom='rn3'), dict(dom='rn3', ran='rn2'), dict(dom='rn3', zero=1),
                               dict(dom='ud3'), dict(dom='cn2')],
          lambda o: odl.ConstantOperator(
              (el(_sp(o.get('ran', o['dom'])), 1) if not o.get('zero') else
               _sp(o.get('ran', o['dom'])).zero()) if o.get('ran') != 'R' else 1.5,
              domain=_sp(o['dom']), range=_sp(o.get('ran', o['dom'])))),
    OSpec('ZeroOperator', [dict(dom='rn3'), dict(dom='rn3', ran='rn2'), dict(dom='cn2'),
                           dict(dom='ud3', ran='rn2'), dict(dom='pw_rn2_2')],
          lambda o: odl.ZeroOperator(_sp(o['dom']), _sp(o['ran']) if 'ran' in o else None)),
    OSpec('RealPart', [dict(dom='cn2'), dict(dom='rn3'), dict(dom='udc2'), dict(dom='cn2w2')],
          lambda o: odl.RealPart(_sp(o['dom']))),
    OSpec('ImagPart', [dict(dom='cn2'), dict(dom='rn3'), dict(dom='udc2'), dict(dom='cn2w2')],
          lambda o: odl.ImagPart(_sp(o['dom']))),
    OSpec('ComplexEmbedding', [dict(dom='rn2', a=[1.0, 0.0]), dict(dom='rn2', a=[0.0, 2.0]),
                               dict(dom='rn2', a=[1.0, -2.0]), dict(dom='cn2', a=[1.0, 1.0]),
                               dict(dom='ud2', a=[2.0, 0.0]), dict(dom='rn2w2', a=[1.0, 1.0])],
          lambda o: odl.ComplexEmbedding(_sp(o['dom']), complex(*o['a']))),
    OSpec('ComplexModulus', [dict(dom='cn2'), dict(dom='udc2')],
          lambda o: odl.ComplexModulus(_sp(o['dom'])), dk='nonzero'),
    OSpec('ComplexModulusSquared', [dict(dom='cn2'), dict(dom='udc2'), dict(dom='cn2w2')],
          lambda o: odl.ComplexModulusSquared(_sp(o['dom']))),
    # ---- tensor_ops
    OSpec('PointwiseNorm', [dict(dom='pw_rn3_2'), dict(dom='pw_rn3_2', p=1), dict(dom='pw_rn3_2', p=1.5),
                            dict(dom='pw_rn3_2', p=3), dict(dom='pw_rn3_2', p='inf'),
                            dict(dom='pw_rn3_2', w=[1.0, 2.0]), dict(dom='pw_ud4_2'),
                            dict(dom='pw_rn3_2', p=3, w=[1.0, 2.0]), dict(dom='pw_cn2_2w'),
                            dict(dom='pw_rn2_3w'), dict(dom='pw_rn2_3w', w=[1.0, 1.0, 1.0]),
                            dict(dom='pw_rn2_3w', p=1.5, w=1.0), dict(dom='pw_rn2_2_c', w=1.0),
                            dict(dom='pw_rn2_3w', p=3), dict(dom='pw_rn3_1w'), dict(dom='pw_rn3_1w', p=1),
                            dict(dom='pw_rn3_1w', p=3), dict(dom='pw_rn3_1w', p='inf'),
                            dict(dom='pw_rn3_1c'), dict(dom='pw_rn3_1', w=[2.0]),
                            dict(dom='pw_rn3_1', p=1.5, w=[2.0]), dict(dom='pw_rn3_1')],
          lambda o: odl.PointwiseNorm(_sp(o['dom']), exponent=None if 'p' not in o else float(o['p']),
                                      weighting=o.get('w')), dk='nonzero'),
    OSpec('PointwiseInner', [dict(dom='pw_rn3_2'), dict(dom='pw_rn3_2', w=[1.0, 2.0]),
                             dict(dom='pw_ud4_2'), dict(dom='pw_cn2_2w'), dict(dom='pw_rn2_3w'),
                             dict(dom='pw_rn2_3w', w=[1.0, 1.0, 1.0]), dict(dom='pw_rn2_3w', w=1.0),
                             dict(dom='pw_cn2_2w', w=[1.0, 1.0]), dict(dom='pw_rn2_3w', w=[2.0, 1.0, 0.5]),
                             dict(dom='pw_rn2_2_c', w=1.0), dict(dom='pw_rn2_2_c'),
                             dict(dom='pw_rn3_1w'), dict(dom='pw_rn3_1c'), dict(dom='pw_rn3_1', w=[2.0]),
                             dict(dom='pw_rn3_1'), dict(dom='pw_rn3_1w', w=[1.0])],
          lambda o: odl.PointwiseInner(_sp(o['dom']), el(_sp(o['dom']), 1), weighting=o.get('w'))),
    OSpec('PointwiseInnerAdjoint', [dict(dom='pw_rn3_2'), dict(dom='pw_rn3_2', w=[1.0, 2.0]),
                                    dict(dom='pw_cn2_2w'), dict(dom='pw_ud4_2'),
                                    dict(dom='pw_rn2_3w', w=[1.0, 1.0, 1.0]), dict(dom='pw_rn2_3w'),
                                    dict(dom='pw_rn2_2_c', w=1.0), dict(dom='pw_rn3_1w'),
                                    dict(dom='pw_rn3_1', w=[2.0]), dict(dom='pw_rn3_1c')],
          lambda o: odl.PointwiseInner(_sp(o['dom']), el(_sp(o['dom']), 1),
                                       weighting=o.get('w')).adjoint),
    OSpec('PointwiseSum', [dict(dom='pw_rn3_2'), dict(dom='pw_rn3_2', w=[1.0, 2.0]),
                           dict(dom='pw_ud4_2'), dict(dom='pw_rn2_3w'),
                           dict(dom='pw_rn2_3w', w=[1.0, 1.0, 1.0]), dict(dom='pw_rn2_2_c', w=1.0)],
          lambda o: odl.PointwiseSum(_sp(o['dom']), weighting=o.get('w'))),
    OSpec('MatrixOperator', [dict(dom='rn3', ran='rn2'), dict(dom='rn2', ran='rn3'),
                             dict(dom='rn3', ran='rn3'), dict(dom='cn2', ran='cn2', complex=1),
                             dict(dom='rn3', ran='rn2', sparse=1), dict(dom='rn23', ran='rn23', axis=0),
                             dict(dom='rn23', ran='rn23', axis=1), dict(dom='rn3w2', ran='rn2w2'),
                             dict(dom='rn3w2', ran='rn2'), dict(dom='rn3wa', ran='rn2wa'),
                             dict(dom='rn3', ran='cn2' if False else 'rn2', rows=2),
                             dict(dom='rn23w', ran='rn23w', axis=1, rows=3),
                             dict(dom='rn332', ran='rn332', axis=0, rows=3),
                             dict(dom='rn332', ran='rn332', axis=1, rows=2),
                             dict(dom='rn332', ran='rn332', axis=2, rows=3),
                             dict(dom='rn233', ran='rn233', axis=0, rows=3),
                             dict(dom='rn233', ran='rn233', axis=1, rows=3)],
          _matrixop),
    OSpec('SamplingOperator', [dict(k='s', variant='point_eval'), dict(k='s', variant='integrate'),
                               dict(k='s', variant='point_eval', dom='ud23b'),
                               dict(k='s', variant='point_eval', dom='rn23'),
                               dict(k='s', variant='integrate', pts=[[0, 0], [1, 1]]),
                               # runs of consecutive flat indices (part of a row, a whole row, one
                               # point, a decreasing run): where a gather could become a view
                               dict(k='s', variant='integrate', pts=[[0, 0], [0, 1]]),
                               dict(k='s', variant='integrate', pts=[[1, 1, 1], [0, 1, 2]]),
                               dict(k='s', variant='integrate', pts=[[1], [2]]),
                               dict(k='s', variant='integrate', pts=[[0, 0, 1, 1], [1, 2, 0, 1]]),
                               dict(k='s', variant='integrate', pts=[[1, 1], [1, 0]]),
                               dict(k='s', variant='point_eval', pts=[[0, 0], [0, 1]]),
                               dict(k='s', variant='point_eval', pts=[[1], [2]]),
                               dict(k='s', variant='integrate', dom='ud23b', pts=[[0, 0], [1, 2]])],
          _sampling),
    OSpec('WeightedSumSamplingOperator', [dict(k='w', variant='char_fun'), dict(k='w', variant='dirac'),
                                          dict(k='w', variant='dirac', dom='ud23b'),
                                          dict(k='w', variant='char_fun', pts=[[0, 0], [1, 1]]),
                                          dict(k='w', variant='char_fun', pts=[[0, 0], [0, 1]]),
                                          dict(k='w', variant='dirac', pts=[[1, 1, 1], [0, 1, 2]]),
                                          dict(k='w', variant='dirac', pts=[[1], [2]])],
          _sampling),
    OSpec('FlatteningOperator', [dict(dom='rn23'), dict(dom='rn23', order='F'), dict(dom='ud23'),
                                 dict(dom='ud23', order='F'), dict(dom='cn23'), dict(dom='rn23w')],
          lambda o: odl.FlatteningOperator(_sp(o['dom']), order=o.get('order', 'C'))),
    # ---- pspace_ops
    OSpec('ProductSpaceOperator',
          [dict(grid=[['I', 'M'], ['A', 'S2']]), dict(grid=[['I', None], [None, 'M']]),
           dict(grid=[['A', None, 'M'], [None, 'I', None]]), dict(grid=[['P2', 'M'], [None, 'sin']]),
           dict(grid=[['I', None], [None, None]], explicit=1),
           dict(grid=[['Ac', 'M'], [None, 'I']], space='cn2'), dict(grid=[['A'], ['M'], ['I']]),
           dict(grid=[['A', 'M', 'I']]), dict(grid=[['Aff', 'P2'], ['M', None]]),
           dict(grid=[['I', 'M'], ['M', 'S2']], space='ud2'),
           # rows whose FIRST operator hands back (a view of) its argument
           dict(grid=[['V', 'M'], ['I', 'V']]), dict(grid=[['V', 'V', 'S2']]),
           dict(grid=[['V', 'M'], [None, 'V']], space='ud2')],
          _psop),
    OSpec('ComponentProjection', [dict(dom='pr3', i=0), dict(dom='pr3', i=1), dict(dom='pr3', i=[0, 2]),
                                  dict(dom='pw3', i='slice'), dict(dom='pr3w', i=0),
                                  dict(dom='pr3w', i=[0, 2]), dict(dom='pw_rn2_3w', i='slice'),
                                  dict(dom='pw_rn2_3w', i=2), dict(dom='pw5', i='step2'),
                                  dict(dom='pw5', i='step2from1'), dict(dom='pw5', i='neg'),
                                  dict(dom='pw5', i=[3, 0]), dict(dom='pw5', i=-1)],
          lambda o: odl.ComponentProjection(_sp(o['dom']), _cp_index(o['i']))),
    OSpec('ComponentProjectionAdjoint', [dict(dom='pr3', i=0), dict(dom='pr3', i=[0, 2]),
                                         dict(dom='pw3', i='slice'), dict(dom='pr3w', i=1),
                                         dict(dom='pw5', i='step2'), dict(dom='pw5', i='step2from1'),
                                         dict(dom='pw5', i='neg'), dict(dom='pw5', i=[3, 0]),
                                         dict(dom='pw5', i=-1)],
          lambda o: odl.ComponentProjectionAdjoint(_sp(o['dom']), _cp_index(o['i']))),
    OSpec('BroadcastOperator', [dict(ops=['V', 'M']), dict(ops=['V', 2]),
                                dict(ops=['I', 'M']), dict(ops=['A', 'S2', 'M']), dict(ops=['P2', 'sin']),
                                dict(ops=['Ac', 'M'], space='cn2'), dict(ops=['I', 'M'], space='ud2'),
                                dict(ops=['Aff', 'M']), dict(ops=['P2', 2]), dict(ops=['sin', 3])],
          lambda o: (odl.BroadcastOperator(_leaf(o['ops'][0], _sp(o.get('space', 'rn2'))), o['ops'][1])
                     if isinstance(o['ops'][1], int) else
                     odl.BroadcastOperator(*[_leaf(n, _sp(o.get('space', 'rn2'))) for n in o['ops']]))),
    OSpec('ReductionOperator', [dict(ops=['I', 'M']), dict(ops=['A', 'S2', 'M']), dict(ops=['P2', 'sin']),
                                dict(ops=['Ac', 'M'], space='cn2'), dict(ops=['I', 'M'], space='ud2'),
                                dict(ops=['Aff', 'M']), dict(ops=['P2', 2]), dict(ops=['sin', 3]),
                                dict(ops=['P3', 2], space='ud2'), dict(ops=['V', 'M']),
                                dict(ops=['V', 'V', 'I']), dict(ops=['V', 2]),
                                dict(ops=['V', 'S2'], space='ud2')],
          lambda o: (odl.ReductionOperator(_leaf(o['ops'][0], _sp(o.get('space', 'rn2'))), o['ops'][1])
                     if isinstance(o['ops'][1], int) else
                     odl.ReductionOperator(*[_leaf(n, _sp(o.get('space', 'rn2'))) for n in o['ops']]))),
    OSpec('DiagonalOperator', [dict(ops=['V', 'M']), dict(ops=['V', 2]),
                               dict(ops=['I', 'M']), dict(ops=['A', 'S2', 'M']), dict(ops=['P2', 'sin']),
                               dict(ops=['Ac', 'M'], space='cn2'), dict(ops=['A', 2]),
                               dict(ops=['I', 'M'], space='ud2'), dict(ops=['Aff', 'exp']),
                               dict(ops=['P2', 2]), dict(ops=['sin', 3])],
          lambda o: (odl.DiagonalOperator(_leaf(o['ops'][0], _sp(o.get('space', 'rn2'))), o['ops'][1])
                     if isinstance(o['ops'][1], int) else
                     odl.DiagonalOperator(*[_leaf(n, _sp(o.get('space', 'rn2'))) for n in o['ops']]))),
    # ---- discretised operators
    OSpec('PartialDerivative', _GD + [dict(axis=1), dict(axis=1, method='central', pad_mode='order2',
                                                         dom='ud34')],
          lambda o: _gradop(o, odl.PartialDerivative)),
    OSpec('Gradient', _GD, lambda o: _gradop(o, odl.Gradient)),
    OSpec('Divergence', _GD, lambda o: _gradop(o, odl.Divergence)),
    OSpec('Laplacian', [dict(), dict(pad_mode='symmetric'), dict(pad_mode='periodic'),
                        dict(pad_mode='order0'), dict(pad_mode='constant', pad_const=1.5),
                        dict(dom='ud4'), dict(dom='ud23b'),
                        # rejected by the constructor on the pinned tree (unbuildable = skipped)
                        dict(pad_mode='order1', rejected=1), dict(pad_mode='order2', rejected=1),
                        dict(dom='ud4', pad_mode='order1', rejected=1)],
          lambda o: _gradop(o, odl.Laplacian)),
    OSpec('ResizingOperator', [dict(), dict(pad_mode='symmetric'), dict(pad_mode='periodic'),
                               dict(pad_mode='order0'), dict(pad_mode='order1'),
                               dict(pad_mode='constant', pad_const=1.5), dict(ran_shp=(2,)),
                               dict(ran_shp=(2,), pad_mode='periodic'), dict(ran_shp=(2,), pad_mode='symmetric'),
                               dict(ran_shp=(3,), pad_mode='order0'), dict(ran_shp=(3,), pad_mode='order1'),
                               dict(dom='ud23', ran_shp=(3, 2), pad_mode='order0'),
                               dict(dom='ud23', ran_shp=(1, 4), pad_mode='symmetric'),
                               dict(offset=(2,)), dict(dom='ud23', ran_shp=(3, 2)),
                               dict(dom='ud4b', ran_shp=(6,)), dict(dom='udc4', ran_shp=(6,))],
          _resize),
    OSpec('Resampling', [dict(), dict(interp='linear'), dict(n=6, m=4), dict(n=6, m=4, interp='linear'),
                         dict(n=4, m=8, interp='linear'),
                         # every target node half-way between two source nodes (ties), odd ratios,
                         # one node, mixed schemes per axis
                         dict(n=8, m=4), dict(n=4, m=2), dict(n=8, m=2), dict(n=6, m=2), dict(n=3, m=1),
                         dict(n=4, m=2, interp='linear'), dict(n=2, m=8),
                         dict(d2=1, n=[4, 4], m=[2, 2], interp=['linear', 'nearest']),
                         dict(d2=1, n=[4, 2], m=[2, 4], interp=['nearest', 'linear']),
                         dict(d2=1, n=[2, 4], m=[4, 2], interp='nearest')],
          _resample, approx_adjoint=True,
          note='docstring: "Return an (approximate) adjoint"'),
    OSpec('LinDeformFixedTempl', [dict(k='templ'), dict(k='templ', interp='nearest')], _deform,
          exempt_deriv=True, approx_adjoint=True,
          note='derivative is the discretised continuum formula (exempt by the property text)'),
    OSpec('LinDeformFixedDisp', [dict(k='disp'), dict(k='disp', interp='nearest')], _deform,
          approx_adjoint=True, note='adjoint documented as an approximation'),
    OSpec('DiscreteFourierTransform',
          [dict(kind='dft'), dict(kind='dft', shape=[5]), dict(kind='dft', dtype='float64', halfcomplex=True),
           dict(kind='dft', dtype='float64', halfcomplex=False), dict(kind='dft', impl='pyfftw'),
           dict(kind='dft', shape=[2, 3]), dict(kind='dft', shape=[2, 3], axes=[1]),
           dict(kind='dft', dtype='float64', halfcomplex=True, impl='pyfftw'),
           dict(kind='dft', dtype='float64', halfcomplex=False, impl='pyfftw'),
           dict(kind='dft', dtype='complex64')], _fourier),
    OSpec('DiscreteFourierTransformInverse',
          [dict(kind='idft'), dict(kind='idft', shape=[5]), dict(kind='idft', dtype='float64', halfcomplex=True),
           dict(kind='idft', impl='pyfftw'), dict(kind='idft', shape=[2, 3], axes=[1]),
           dict(kind='idft', dtype='float64', halfcomplex=True, impl='pyfftw')], _fourier),
    OSpec('FourierTransform',
          [dict(kind='ft'), dict(kind='ft', shape=[5]), dict(kind='ft', dtype='float64', halfcomplex=True),
           dict(kind='ft', shift=False), dict(kind='ft', impl='pyfftw'), dict(kind='ft', shape=[2, 3]),
           dict(kind='ft', dtype='float64', halfcomplex=False)], _fourier),
    OSpec('FourierTransformInverse',
          [dict(kind='ift'), dict(kind='ift', shape=[5]), dict(kind='ift', dtype='float64', halfcomplex=True),
           dict(kind='ift', shift=False), dict(kind='ift', impl='pyfftw')], _fourier),
    OSpec('WaveletTransform', [dict(), dict(pad_mode='pywt_periodic'), dict(wavelet='db2'),
                               dict(nlevels=2), dict(shape=[4, 4]), dict(pad_mode='symmetric'),
                               dict(wavelet='bior2.2'),
                               dict(shape=[4, 4], axes=[0], pad_mode='pywt_periodic'),
                               dict(shape=[4, 2], axes=[1], pad_mode='pywt_periodic'),
                               dict(shape=[2, 4], axes=[1], pad_mode='pywt_periodic', wavelet='db2')], _wavelet),
    OSpec('WaveletTransformInverse', [dict(inv=1), dict(inv=1, pad_mode='pywt_periodic'),
                                      dict(inv=1, wavelet='db2'), dict(inv=1, shape=[4, 4]),
                                      dict(inv=1, shape=[4, 4], axes=[0], pad_mode='pywt_periodic')],
          _wavelet),
    OSpec('RayTransform', [dict()], _ray, approx_adjoint=True,
          note='skimage back-end, 2-d parallel beam only (astra not installed)'),
    OSpec('RayBackProjection', [dict()], lambda o: _ray(o).adjoint, approx_adjoint=True),
    # ---- expression classes of operator.py
    OSpec('OperatorSum', [dict(k='sum', A='Lap', B='M', space='ud4'), dict(k='sum', A='M', B='Lap', space='ud4'), dict(k='sum', A='PD', B='M', space='ud4'), dict(k='sum', A='A', B='M'), dict(k='sum', A='P2', B='M'),
                          dict(k='sum', A='V', B='M'), dict(k='sum', A='M', B='V'),
                          dict(k='sum_tmp', A='A', B='M'), dict(k='sum_tmp', A='P2', B='sin'),
                          dict(k='sum', A='Ac', B='M', space='cn2')], _expr),
    OSpec('OperatorVectorSum', [dict(k='vecsum', A='Lap', B='M', space='ud4'), dict(k='vecsum', A='M', B='Lap', space='ud4'), dict(k='vecsum', A='PD', B='M', space='ud4'), dict(k='vecsum', A='A'), dict(k='vecsum', A='P2'),
                                dict(k='vecsum', A='V')], _expr),
    OSpec('OperatorComp', [dict(k='comp', A='Lap', B='M', space='ud4'), dict(k='comp', A='M', B='Lap', space='ud4'), dict(k='comp', A='PD', B='M', space='ud4'), dict(k='comp', A='A', B='M'), dict(k='comp', A='P2', B='A'),
                           dict(k='comp', A='A', B='P2'), dict(k='comp_tmp', A='sin', B='P2'),
                           dict(k='comp_tmp', A='CMS', B='M', space='cn2'),
                           dict(k='comp', A='CMS', B='Ac', space='cn2'),
                           dict(k='comp', A='Ac', B='M', space='cn2'), dict(k='comp', A='P3', B='Aff'),
                           dict(k='comp', A='V', B='V'), dict(k='comp', A='M', B='V'),
                           dict(k='comp', A='V', B='M')],
          _expr),
    OSpec('OperatorPointwiseProduct', [dict(k='pwprod', A='Lap', B='M', space='ud4'), dict(k='pwprod', A='M', B='Lap', space='ud4'), dict(k='pwprod', A='PD', B='M', space='ud4'), dict(k='pwprod', A='A', B='M'), dict(k='pwprod', A='P2', B='sin'),
                                       dict(k='pwprod', A='Aff', B='exp'), dict(k='pwprod', A='V', B='M'),
                                       dict(k='pwprod', A='M', B='V'), dict(k='pwprod', A='V', B='V')], _expr),
    OSpec('OperatorLeftScalarMult', [dict(k='lscal', A='Lap', B='M', space='ud4'), dict(k='lscal', A='M', B='Lap', space='ud4'), dict(k='lscal', A='PD', B='M', space='ud4'), dict(k='lscal', A='A'), dict(k='lscal', A='P2'),
                                     dict(k='lscal', A='A', a=0.0), dict(k='lscal', A='Ac', space='cn2'),
                                     dict(k='lscal', A='V')],
          _expr),
    OSpec('OperatorRightScalarMult', [dict(k='rscal', A='Lap', B='M', space='ud4'), dict(k='rscal', A='M', B='Lap', space='ud4'), dict(k='rscal', A='PD', B='M', space='ud4'), dict(k='rscal', A='A'), dict(k='rscal', A='P2'),
                                      dict(k='rscal_tmp', A='sin'), dict(k='rscal', A='P3', a=-0.5),
                                      dict(k='rscal_tmp', A='CMS', space='cn2'),
                                      dict(k='rscal', A='CMS', space='cn2', a=-0.5),
                                      dict(k='rscal', A='Ac', space='cn2'), dict(k='rscal', A='V')], _expr),
    OSpec('OperatorLeftVectorMult', [dict(k='lvec_ce', A='A', space='rn2'), dict(k='lvec_ce', A='M', space='rn2', a=[1.0, -2.0]),
                                     dict(k='rvec_ce', A='A', space='rn2'), dict(k='lvec', A='Lap', B='M', space='ud4'), dict(k='lvec', A='M', B='Lap', space='ud4'), dict(k='lvec', A='PD', B='M', space='ud4'), dict(k='lvec', A='A'), dict(k='lvec', A='P2'), dict(k='lvec', A='V'),
                                     dict(k='lvec', A='Ac', space='cn2')], _expr),
    OSpec('OperatorRightVectorMult', [dict(k='rvec', A='Lap', B='M', space='ud4'), dict(k='rvec', A='M', B='Lap', space='ud4'), dict(k='rvec', A='PD', B='M', space='ud4'), dict(k='rvec', A='A'), dict(k='rvec', A='P2'), dict(k='rvec', A='V'),
                                      dict(k='rvec', A='Ac', space='cn2')], _expr),
    OSpec('FunctionalLeftVectorMult', [dict(k='flvec', A='I'), dict(k='flvec', A='I', lin=0),
                                       dict(k='flvec', A='I', space='cn2'),
                                       dict(k='flvec', A='I', space='rn3wa')], _expr, dk='nonzero'),
    OSpec('NumericalDerivative', [dict(m='forward'), dict(m='central'), dict(m='backward')],
          lambda o: odl.solvers.NumericalDerivative(odl.PowerOperator(odl.rn(3), 2),
                                                    el(odl.rn(3), 0), method=o['m']),
          exempt_deriv=True, note='finite-difference approximation by design (not exactly linear)'),
    OSpec('NumericalGradient', [dict(m='forward'), dict(m='central'), dict(m='backward')],
          lambda o: odl.solvers.NumericalGradient(odl.solvers.L2NormSquared(odl.rn(3)), method=o['m']),
          exempt_deriv=True, note='finite-difference approximation by design'),
    OSpec('RosenbrockFunctional', [dict(dom='rn2'), dict(dom='rn3'), dict(dom='rn2', scale=2.0)],
          lambda o: odl.solvers.RosenbrockFunctional(_sp(o['dom']), scale=o.get('scale', 100.0))),
]

def _complex_ok(name):
    uf = getattr(np, name)
    return any(t.split('->')[0] == 'D' * uf.nin for t in uf.types)


for _n in UFUNCS_1:
    SPECS.append(OSpec('ufunc_ops.' + _n, [dict(), dict(space='ud3')] +
                       ([dict(space='cn2')] if _complex_ok(_n) else []),
                       _ufunc_op(_n), dk=_ufunc_dk(_n), cls=_n + '_op'))
for _n in UFUNCS_2:
    SPECS.append(OSpec('ufunc_ops.' + _n, [dict(), dict(space='ud3')], _ufunc_op(_n),
                       dk='pos' if _n in ('power', 'logaddexp', 'logaddexp2', 'divide',
                                          'true_divide', 'floor_divide', 'fmod', 'mod',
                                          'remainder') else 'any', cls=_n + '_op'))
for _n in UFUNCS_INT:
    SPECS.append(OSpec('ufunc_ops.' + _n, [dict(space='int3')], _ufunc_op(_n), dk='int',
                       cls=_n + '_op'))
SPECS.append(OSpec('ufunc_ops.modf', [dict()], _ufunc_op('modf'), cls='modf_op'))

# functionals (as operators into the field)
from mc.registry import functionals as _FR   # noqa: E402
for _s in _FR.SPECS:
    _opts = []
    for _sp_name in _s.spaces[:3]:
        for _i in range(len(_s.opts)):
            _opts.append(dict(name=_s.name, space=_sp_name, i=_i))
    SPECS.append(OSpec('functional.' + _s.name, _opts, _functional,
                       dk='pos' if _s.posdom else 'any', cls=_s.name))
for _k in ['translated', 'leftscal', 'rightscal', 'quadpert', 'scalarsum', 'bregman', 'rightvec',
           'sum', 'comp', 'product', 'quotient', 'defaultconj', 'infconv', 'moreau', 'sepsum',
           'quadform', 'rightscal2', 'rightscal_div', 'leftright', 'translated2']:
    SPECS.append(OSpec('functional-derived.' + _k,
                       [dict(name=b, space=s, k=_k) for b in ('L2NormSquared', 'L1Norm', 'Huber')
                        for s in ('rn3', 'ud3')], _derived_functional,
                       cls={'translated': 'FunctionalTranslation', 'leftscal': 'FunctionalLeftScalarMult',
                            'rightscal': 'FunctionalRightScalarMult',
                            'quadpert': 'FunctionalQuadraticPerturb',
                            'scalarsum': 'FunctionalScalarSum', 'bregman': 'BregmanDistance',
                            'rightvec': 'FunctionalRightVectorMult', 'sum': 'FunctionalSum',
                            'comp': 'FunctionalComp', 'product': 'FunctionalProduct',
                            'quotient': 'FunctionalQuotient',
                            'defaultconj': 'FunctionalDefaultConvexConjugate',
                            'infconv': 'InfimalConvolution', 'moreau': 'MoreauEnvelope',
                            'sepsum': 'SeparableSum', 'quadform': 'QuadraticForm',
                            'rightscal2': 'FunctionalRightScalarMult',
                            'rightscal_div': 'FunctionalRightScalarMult',
                            'leftright': 'FunctionalLeftScalarMult',
                            'translated2': 'FunctionalTranslation'}[_k]))


def _simple_functional(o):
    # every ingredient of f = |x|^2 and of f* = |y|^2 / 4 given; `hops` conjugations
    sp = S.build(o['space'])
    f = odl.solvers.simple_functional(
        sp, fcall=lambda x: x.inner(x), grad=lambda x: 2.0 * x,
        prox=lambda sig: odl.ScalingOperator(sp, 1.0 / (1.0 + 2.0 * sig)), grad_lip=2.0,
        convex_conj_fcall=lambda y: y.inner(y) / 4.0, convex_conj_grad=lambda y: 0.5 * y,
        convex_conj_prox=lambda sig: odl.ScalingOperator(sp, 1.0 / (1.0 + 0.5 * sig)),
        convex_conj_grad_lip=0.5)
    for _ in range(o['hops']):
        f = f.convex_conj
    return f


SPECS.append(OSpec('simple_functional', [dict(space=s, hops=h) for h in (0, 1, 2, 3)
                                         for s in ('rn3', 'ud3')], _simple_functional,
                   cls='SimpleFunctional'))
SPECS.append(OSpec('ScalingFunctional', [dict(a=2.0), dict(a=-0.5)],
                   lambda o: odl.solvers.ScalingFunctional(R, o['a'])))
SPECS.append(OSpec('IdentityFunctional', [dict()], lambda o: odl.solvers.IdentityFunctional(R)))
for _n in UFUNCS_1:
    SPECS.append(OSpec('ufunc_functional.' + _n, [dict()],
                       (lambda n: (lambda o: getattr(odl.ufunc_ops, n)(R)))(_n),
                       dk=_ufunc_dk(_n), cls=_n + '_func'))

# proximal operators (classes defined inside the factories)
from mc.props import c10 as _c10   # noqa: E402
for _n in _c10.RAW:
    _kinds = _c10.RAW[_n][0]
    _sps = (['rn3', 'ud3'] if 'T' in _kinds else []) + (['pw_rn2_2'] if 'P' in _kinds else [])
    SPECS.append(OSpec('proximal.' + _n,
                       [dict(name=_n, space=s, i=i, sk=sk) for s in _sps
                        for i in range(len(_c10.RAW[_n][1])) for sk in _c10.RAW[_n][3]],
                       _prox, cls=_n))

# QuadraticForm over operators of every return convention (fresh element, the input itself, a view
# of the input), with and without vector
SPECS.append(OSpec('QuadraticForm',
                   [dict(A=a, space=s, vec=v) for a in ('A', 'I', 'V', 'S2', 'M')
                    for s in ('rn3', 'ud3') for v in (1, 0)] + [dict(A=None, space='rn3', vec=1)],
                   lambda o: odl.solvers.QuadraticForm(
                       None if o['A'] is None else _leaf(o['A'], _sp(o['space'])),
                       el(_sp(o['space']), 1) if o['vec'] else None, 0.5)))

# gradient operators of functionals as operators X -> X: C03 checks their call protocol, C06 their
# derivative (the Hessian) where one is implemented
def _gradient_of(o):
    sp = _sp(o.get('space', 'rn3'))
    S_ = odl.solvers
    k = o['f']
    if k == 'l2sq':
        f = S_.L2NormSquared(sp)
    elif k == 'l2sq_tr':
        f = S_.L2NormSquared(sp).translated(el(sp, 1))
    elif k == 'quad':
        f = S_.QuadraticForm(_leaf('A', sp), el(sp, 1), 0.5)
    elif k == 'kl':
        f = S_.KullbackLeibler(sp, prior=el(sp, 0, 'pos'))
    elif k == 'huber':
        f = S_.Huber(sp, 0.7)
    elif k == 'l2':
        f = S_.L2Norm(sp)
    elif k == 'comp_lin':
        f = S_.L2NormSquared(sp) * _leaf('A', sp)
    elif k == 'comp_aff':
        f = S_.L2NormSquared(sp) * _leaf('Aff', sp)
    elif k == 'comp_nl':
        f = S_.L2NormSquared(sp) * _leaf('P2', sp)
    elif k == 'comp_nl2':
        f = S_.L2NormSquared(sp).translated(el(sp, 1)) * _leaf('sin', sp)
    elif k == 'sum':
        f = S_.L2NormSquared(sp) + S_.QuadraticForm(_leaf('A', sp), el(sp, 1), 0.5)
    elif k == 'leftscal':
        f = 3.0 * S_.L2NormSquared(sp)
    elif k == 'rightscal':
        f = S_.L2NormSquared(sp) * 2.0
    elif k == 'quadpert':
        f = S_.FunctionalQuadraticPerturb(S_.L2NormSquared(sp), 1.5, el(sp, 2), 0.5)
    elif k == 'rosen':
        f = S_.RosenbrockFunctional(sp, scale=2.0)
    else:
        raise KeyError(k)
    return f.gradient


SPECS.append(OSpec('gradient-operator',
                   [dict(f=k, space=s) for k in ('l2sq', 'l2sq_tr', 'quad', 'kl', 'huber', 'l2',
                                                 'comp_lin', 'comp_aff', 'comp_nl', 'comp_nl2', 'sum',
                                                 'leftscal', 'rightscal', 'quadpert', 'rosen')
                    for s in ('rn3', 'ud3')],
                   _gradient_of, dk='pos', cls='gradient'))

BY_NAME = dict((s.name, s) for s in SPECS)

# classes that cannot be instantiated here, with the reason (reported by C03, never a violation)
UNBUILDABLE = {
    'Operator': 'abstract base class',
    'Functional': 'abstract base class',
    'PointwiseTensorFieldOperator': 'abstract base class of the pointwise operators',
    'PointwiseInnerBase': 'abstract base class',
    'DiscreteFourierTransformBase': 'abstract base class',
    'FourierTransformBase': 'abstract base class',
    'WaveletTransformBase': 'abstract base class',
}
