"""Bounded exhaustive explorer used by every check.

A property module (``mc.props.cXX``) provides

    PROPERTY : str                      e.g. "C10"
    configs(tier) -> list[dict]         the bounded space, JSON-serialisable, simplest first
    run(cfg) -> dict                    one exploration step: executes the real code in that
                                        configuration and compares with the reference model
    meta(tier) -> dict                  rule / bounds / assumptions text for the evidence
    TRACE (optional) -> list            functions whose executed lines form the path signature
    finalize(results, tier) (optional)  global oracle over all results (e.g. transitivity)

``run`` returns ``{"evals": int, "viol": [..], "sig": str | [str], "skipped": int,
"trivial": bool}``; a violation is ``{"site", "symptom", "detail"}``.

The explorer visits *every* configuration (a time cap, if hit, is reported as a cap and the
run is then not called exhaustive).  ``VERIF_SEED`` only permutes the order of the visit.
"""
from __future__ import annotations

import fnmatch
import hashlib
import importlib
import json
import multiprocessing as mp
import os
import random
import subprocess
import sys
import time
import traceback

VERIF_DIR = os.path.dirname(os.path.dirname(os.path.abspath(__file__)))
REPO = os.environ.get('VERIF_REPO', '/repo')
KNOWN_FILE = os.path.join(VERIF_DIR, 'known_findings.json')
# runs against a scratch copy (mutants) must not clobber the evidence and replays of /repo
_SCRATCH = os.path.abspath(REPO) != '/repo'
REPLAY_DIR = os.environ.get('VERIF_REPLAY_DIR') or (
    '/var/tmp/verif-scratch/replays' if _SCRATCH else os.path.join(VERIF_DIR, 'replays'))
EVIDENCE_DIR = os.environ.get('VERIF_EVIDENCE_DIR') or (
    '/var/tmp/verif-scratch/evidence' if _SCRATCH else os.path.join(VERIF_DIR, 'evidence'))


def canon(obj):
    """Canonical JSON text of a configuration (the state key)."""
    return json.dumps(obj, sort_keys=True, separators=(',', ':'), default=str)


def key_hash(obj):
    return hashlib.sha1(canon(obj).encode()).hexdigest()[:16]


# --------------------------------------------------------------------------------------
# path-signature tracer (PEP 669).  No source hooks in odl are needed.

def _codes(funcs):
    codes = []
    for f in funcs:
        if isinstance(f, property):
            f = f.fget
        f = getattr(f, '__func__', f)
        f = getattr(f, '__wrapped__', f)
        code = getattr(f, '__code__', None)
        if code is not None and code not in codes:
            codes.append(code)
    return codes


class Tracer(object):
    TOOL = 3

    def __init__(self, funcs):
        self.codes = _codes(funcs)
        self.hits = set()
        self.all_hits = set()
        self.active = False
        if not self.codes:
            return
        mon = sys.monitoring
        try:
            mon.use_tool_id(self.TOOL, 'verif-mc')
        except ValueError:
            pass
        mon.register_callback(self.TOOL, mon.events.LINE, self._line)
        for c in self.codes:
            mon.set_local_events(self.TOOL, c, mon.events.LINE)
        self.active = True

    def _line(self, code, line):
        self.hits.add((code.co_name, line))
        return sys.monitoring.DISABLE

    def start(self):
        if self.active:
            self.hits = set()
            sys.monitoring.restart_events()

    def stop(self):
        if not self.active:
            return ''
        self.all_hits |= self.hits
        h = hashlib.sha1(repr(sorted(self.hits)).encode()).hexdigest()[:12]
        return h

    def anchor_lines(self):
        """All traceable lines of the anchored functions (for the unreached report)."""
        lines = set()
        for c in self.codes:
            for _, _, ln in c.co_lines():
                if ln is not None and ln != c.co_firstlineno:
                    lines.add((c.co_name, ln))
        return lines


class FuncCov(object):
    """Diagnostic only (VERIF_FUNCCOV=<dir>): which functions of the repository a check executes.

    Used by tools/funccov.py to list the functions of a property's anchored files that no state
    reaches - the driver holes.  Not part of any verdict."""
    TOOL = 4

    def __init__(self, outdir):
        self.outdir = outdir
        self.seen = set()
        self.root = os.path.join(os.path.realpath(REPO), 'odl') + os.sep
        mon = sys.monitoring
        try:
            mon.use_tool_id(self.TOOL, 'verif-funccov')
        except ValueError:
            pass
        mon.register_callback(self.TOOL, mon.events.PY_START, self._start)
        mon.set_events(self.TOOL, mon.events.PY_START)

    def _start(self, code, offset):
        fn = code.co_filename
        if fn.startswith(self.root):
            self.seen.add('%s:%s:%d' % (fn[len(self.root):], code.co_qualname, code.co_firstlineno))
        return sys.monitoring.DISABLE

    def dump(self):
        os.makedirs(self.outdir, exist_ok=True)
        with open(os.path.join(self.outdir, '%d.txt' % os.getpid()), 'w') as f:
            f.write('\n'.join(sorted(self.seen)) + '\n')


_FUNCCOV = None


def _funccov_init():
    global _FUNCCOV
    d = os.environ.get('VERIF_FUNCCOV')
    if d and _FUNCCOV is None:
        _FUNCCOV = FuncCov(d)


# --------------------------------------------------------------------------------------
# worker side

_MOD = None
_TRACER = None


def _load(prop):
    return importlib.import_module('mc.props.' + prop.lower())


def _init_worker(prop):
    global _MOD, _TRACER
    _MOD = _load(prop)
    funcs = []
    if hasattr(_MOD, 'trace_functions'):
        try:
            funcs = list(_MOD.trace_functions())
        except Exception:
            funcs = []
    _TRACER = Tracer(funcs) if funcs else None
    _funccov_init()


def run_one(mod, cfg, tracer=None):
    """Execute one configuration; uncaught exceptions are harness errors."""
    import numpy as np
    old_err = np.geterr()
    if tracer is not None:
        tracer.start()
    try:
        res = mod.run(cfg)
        err = None
    except Exception:
        res = {'evals': 0, 'viol': [], 'sig': 'HARNESS-ERROR'}
        err = traceback.format_exc()
    finally:
        np.seterr(**old_err)
    psig = tracer.stop() if tracer is not None else ''
    res.setdefault('evals', 1)
    res.setdefault('viol', [])
    res.setdefault('skipped', 0)
    res.setdefault('trivial', False)
    sig = res.get('sig', '')
    if isinstance(sig, (list, tuple, set)):
        sigs = sorted(set(str(s) for s in sig))
    else:
        sigs = [str(sig)]
    if psig:
        sigs = [s + '|' + psig for s in sigs]
    res['sig'] = sigs
    res['error'] = err
    return res


_SEQ = [0]


def _work(chunk):
    out = []
    for idx, cfg in chunk:
        res = run_one(_MOD, cfg, _TRACER)
        # which process executed this state, and as its how-manyth: lets the driver rebuild the
        # exact history of a worker when a violation does not reproduce from a fresh process
        _SEQ[0] += 1
        res['_worker'] = (os.getpid(), _SEQ[0])
        out.append((idx, res))
    hits = sorted(_TRACER.all_hits) if _TRACER is not None else []
    if _FUNCCOV is not None:
        _FUNCCOV.dump()
    return out, hits


# --------------------------------------------------------------------------------------
# known findings

def load_known():
    if not os.path.exists(KNOWN_FILE):
        return []
    with open(KNOWN_FILE) as f:
        return json.load(f).get('findings', [])


def _glob(pat, text):
    """Glob where only '*' is special (sites contain brackets)."""
    import re
    rx = '.*'.join(re.escape(part) for part in pat.split('*'))
    return re.fullmatch(rx, text) is not None


def match_known(known, prop, v):
    for k in known:
        if k.get('status') != 'known' or k.get('property') != prop:
            continue
        if _glob(k['site'], v['site']) and _glob(k['symptom'], v['symptom']):
            return k
    return None


# --------------------------------------------------------------------------------------
# replay

def write_replay(prop, cfg, viol, history=None):
    d = os.path.join(REPLAY_DIR, prop)
    os.makedirs(d, exist_ok=True)
    name = key_hash({'cfg': cfg, 'site': viol['site'], 'symptom': viol['symptom']})
    path = os.path.join(d, name + ('-hist' if history else '') + '.json')
    rec = {'property': prop, 'cfg': cfg, 'violation': viol,
           'how': './check %s --replay %s' % (prop, path)}
    if history:
        rec['history'] = history
        rec['note'] = ('the violation does not occur when this state is executed first in a fresh '
                       'process; it needs the states listed under history to be executed before it '
                       'in the same process (hidden process-global state)')
    with open(path, 'w') as f:
        json.dump(rec, f, indent=1, sort_keys=True, default=str)
    return path


def replay_file(path, as_json=False):
    with open(path) as f:
        rec = json.load(f)
    prop = rec['property']
    mod = _load(prop)
    for h in rec.get('history', []):
        run_one(mod, h)          # re-create the hidden state the violation depends on
    res = run_one(mod, rec['cfg'])
    if res['error']:
        print(res['error'])
        print('HARNESS-ERROR property=%s' % prop)
        return 2
    want = rec.get('violation', {})
    hit = [v for v in res['viol']
           if v['site'] == want.get('site') and v['symptom'] == want.get('symptom')]
    if as_json:
        print('REPLAY-JSON ' + canon([{'site': v['site'], 'symptom': v['symptom'],
                                       'detail': v.get('detail', '')} for v in hit]))
    else:
        for v in res['viol']:
            print('  violation site=%s symptom=%s\n    %s' % (v['site'], v['symptom'],
                                                             v.get('detail', '')))
    if hit:
        print('VIOLATION property=%s replay=%s' % (prop, path))
        return 1
    print('replay: violation not reproduced (property holds on this configuration)')
    return 0


def _confirm(prop, path):
    """Re-run a replay file twice in fresh processes; identical observations required."""
    outs = []
    for _ in range(2):
        p = subprocess.run([sys.executable, '-m', 'mc.run', prop, '--replay', path, '--json'],
                           cwd=VERIF_DIR, capture_output=True, text=True)
        lines = [l for l in p.stdout.splitlines() if l.startswith('REPLAY-JSON ')]
        outs.append((p.returncode, lines[0] if lines else None))
    return outs[0] == outs[1] and outs[0][0] == 1, outs


# --------------------------------------------------------------------------------------
# driver

def explore(prop, tier='quick', seed=0, jobs=None, budget=None, only_site=None):
    t0 = time.time()
    mod = _load(prop)
    assert mod.PROPERTY == prop
    cfgs = list(mod.configs(tier))
    keys = [canon(c) for c in cfgs]
    assert len(set(keys)) == len(keys), 'duplicate configurations in %s' % prop
    order = list(range(len(cfgs)))
    if seed:
        random.Random(seed).shuffle(order)
    jobs = jobs or int(os.environ.get('VERIF_JOBS', '0')) or min(16, os.cpu_count() or 1)
    if budget is None:
        budget = getattr(mod, 'BUDGET', {}).get(tier, 900 if tier == 'quick' else 7200)
    nchunk = max(1, min(64, len(cfgs) // (jobs * 8) or 1))
    chunks = [[(i, cfgs[i]) for i in order[j:j + nchunk]]
              for j in range(0, len(order), nchunk)]
    results = {}
    hits = set()
    capped = False
    if jobs > 1 and len(chunks) > 1:
        ctx = mp.get_context('fork')
        with ctx.Pool(jobs, initializer=_init_worker, initargs=(prop,)) as pool:
            it = pool.imap_unordered(_work, chunks)
            for out, h in it:
                for idx, res in out:
                    results[idx] = res
                hits.update(map(tuple, h))
                if time.time() - t0 > budget:
                    capped = True
                    pool.terminate()
                    break
    else:
        _init_worker(prop)
        for ch in chunks:
            out, h = _work(ch)
            for idx, res in out:
                results[idx] = res
            hits.update(map(tuple, h))
            if time.time() - t0 > budget:
                capped = True
                break

    extra_viol = []
    if hasattr(mod, 'finalize') and not capped:
        extra_viol = list(mod.finalize([(cfgs[i], results[i]) for i in sorted(results)], tier)
                          or [])

    # ------------------------------------------------------------------ collect
    known = load_known()
    errors = [(i, r['error']) for i, r in sorted(results.items()) if r['error']]
    evals = sum(r['evals'] for r in results.values())
    skipped = sum(r['skipped'] for r in results.values())
    sigs = set()
    for r in results.values():
        if not r['trivial']:
            sigs.update(r['sig'])
    all_viol = []
    for i in sorted(results):
        for v in results[i]['viol']:
            all_viol.append((cfgs[i], v))
    for v in extra_viol:
        all_viol.append((v.get('cfg', {'finalize': True}), v))

    known_seen = {}
    new_by_site = {}
    for cfg, v in all_viol:
        k = match_known(known, prop, v)
        if k is not None:
            known_seen.setdefault((k['site'], k['symptom']), [k, 0])[1] += 1
        else:
            new_by_site.setdefault((v['site'], v['symptom']), []).append((cfg, v))

    rc = 0
    out_lines = []
    for (site, sym), (k, n) in sorted(known_seen.items()):
        out_lines.append('KNOWN-FINDING: property=%s %s %s -- %s (%d configurations)'
                         % (prop, site, sym, k.get('what', ''), n))
    stale = [k for k in known if k.get('status') == 'known' and k.get('property') == prop
             and (k['site'], k['symptom']) not in known_seen]
    # a known finding may live in the thorough tier only
    for k in stale:
        if tier == 'thorough' or k.get('tier', 'quick') == 'quick':
            sys.stderr.write('STALE-FINDING property=%s %s %s\n' % (prop, k['site'], k['symptom']))

    replays = []
    nondet = False
    todo = []
    for (site, sym), lst in sorted(new_by_site.items()):
        cfg, v = lst[0]     # simplest first: configs() enumerates simplest-first
        path = write_replay(prop, cfg, v)
        todo.append((site, sym, lst, cfg, v, path))
    # every new violation is re-executed twice from its replay file in a fresh process
    confirm = [t for t in todo if 'finalize' not in t[3]]
    MAXC = int(os.environ.get('VERIF_MAX_CONFIRM', '24'))
    conf_res = {}
    if confirm:
        from concurrent.futures import ThreadPoolExecutor
        with ThreadPoolExecutor(max_workers=min(jobs, 8)) as ex:
            for t, r in zip(confirm[:MAXC], ex.map(lambda t: _confirm(prop, t[5]),
                                                   confirm[:MAXC])):
                conf_res[t[5]] = r
    # per-worker execution order (index lists), for history replays
    by_worker = {}
    for i, r in results.items():
        w = r.get('_worker')
        if w:
            by_worker.setdefault(w[0], []).append((w[1], i))
    for w in by_worker:
        by_worker[w].sort()
    for site, sym, lst, cfg, v, path in todo:
        ok, outs = conf_res.get(path, (True, 'not re-executed (more than %d sites)' % MAXC))
        if not ok and outs and outs[0] == outs[1] and outs[0][0] == 0 and 'finalize' not in cfg:
            # identical fresh-process runs, both WITHOUT the violation: the result depends on what
            # the worker executed before.  Replay the worker's history in a fresh process.
            idx = None
            for i in sorted(results):
                if cfgs[i] is cfg:
                    idx = i
            w = results[idx].get('_worker') if idx is not None else None
            if w:
                hist = [cfgs[j] for (q, j) in by_worker.get(w[0], []) if q < w[1]]
                hpath = write_replay(prop, cfg, v, history=hist)
                ok2, outs2 = _confirm(prop, hpath)
                if ok2:
                    v = dict(v, symptom=v['symptom'])
                    path = hpath
                    ok = True
                    out_lines.append('  (history-dependent: reproduces only after the %d states the '
                                     'worker executed before it; replay file contains them)' % len(hist))
        if not ok:
            nondet = True
            out_lines.append('NONDETERMINISM property=%s site=%s symptom=%s replay=%s %r'
                             % (prop, site, sym, path, outs))
            continue
        replays.append(path)
        out_lines.append('  site=%s symptom=%s count=%d\n    %s'
                         % (site, sym, len(lst), str(v.get('detail', ''))[:600]))
        out_lines.append('VIOLATION property=%s replay=%s' % (prop, path))
        rc = 1
    if errors:
        rc = 2
        for i, e in errors[:3]:
            out_lines.append('HARNESS-ERROR property=%s cfg=%s\n%s' % (prop, canon(cfgs[i]), e))
    if nondet:
        rc = 2

    # ------------------------------------------------------------------ evidence
    m = mod.meta(tier) if hasattr(mod, 'meta') else {}
    unreached = []
    if hasattr(mod, 'trace_functions'):
        try:
            funcs = list(mod.trace_functions())
        except Exception:
            funcs = []
        tr2 = Tracer.__new__(Tracer)
        tr2.codes = _codes(funcs)
        unreached = sorted(tr2.anchor_lines() - hits)
    samples = []
    for i in order[:3]:
        if i in results:
            samples.append({'config': cfgs[i], 'evals': results[i]['evals'],
                            'signature': results[i]['sig'][:2],
                            'violations': len(results[i]['viol'])})
    for i in sorted(results):
        if results[i].get('sample') is not None and len(samples) < 6:
            samples.append({'config': cfgs[i], 'trace': results[i]['sample']})
    validated = sum(1 for r in results.values() if r['evals'] > 0 and not r['error'])
    ev = {
        'property_id': prop,
        'tier': tier,
        'seed': int(seed),
        'level': 'model_checking',
        'coverage': {
            'states': len(results),
            'transitions': int(evals),
            'traces_validated_against_impl': int(validated),
            'samples': samples or [{'note': 'no configurations'}],
            'evaluations': int(evals),
            'distinct_nontrivial': len(sigs),
            'rule': m.get('rule', ''),
            'bounds': m.get('bounds', {}),
            'exhaustive': (not capped) and len(results) == len(cfgs),
            'configurations_enumerated': len(cfgs),
            'configurations_completed': len(results),
            'caps_hit': (['time budget %ss' % budget] if capped else []),
            'unspecified_skipped': int(skipped),
            'unreached_anchor_lines': ['%s:%d' % u for u in unreached][:200],
            'anchor_lines_reached': len(hits),
            'known_findings_seen': ['%s %s (%d)' % (s, y, n)
                                    for (s, y), (k, n) in sorted(known_seen.items())],
            'new_violation_sites': ['%s %s (%d)' % (s, y, len(l))
                                    for (s, y), l in sorted(new_by_site.items())],
            'jobs': jobs,
        },
        'assumptions': m.get('assumptions', []),
        'wall_s': round(time.time() - t0, 2),
        'violations': sum(len(l) for l in new_by_site.values()),
    }
    for k, v in m.get('extra', {}).items():
        ev['coverage'][k] = v
    if hasattr(mod, 'summarize'):
        try:
            ev['coverage'].update(mod.summarize([(cfgs[i], results[i]) for i in sorted(results)]))
        except Exception:
            out_lines.append('HARNESS-ERROR summarize\n' + traceback.format_exc())
            rc = 2
    os.makedirs(EVIDENCE_DIR, exist_ok=True)
    evpath = os.path.join(EVIDENCE_DIR, prop + '.json')
    with open(evpath, 'w') as f:
        json.dump(ev, f, indent=1, sort_keys=True, default=str)
    problems = validate_evidence(ev)
    if problems:
        out_lines.append('HARNESS-ERROR evidence invalid: %s' % problems)
        rc = 2
    # vacuity self-test
    if ev['coverage']['distinct_nontrivial'] < 2 and rc == 0:
        out_lines.append('HARNESS-ERROR vacuous exploration: %d distinct outcomes'
                         % ev['coverage']['distinct_nontrivial'])
        rc = 2
    print('\n'.join(out_lines)) if out_lines else None
    print('%s tier=%s seed=%s states=%d transitions=%d distinct=%d skipped=%d known=%d '
          'new_violations=%d exhaustive=%s wall=%.1fs'
          % (prop, tier, seed, len(results), evals, len(sigs), skipped,
             sum(n for _, n in known_seen.values()), ev['violations'],
             ev['coverage']['exhaustive'], time.time() - t0))
    return rc


def validate_evidence(ev):
    """Minimal structural validation (the full JSON schema is applied by tests/validate.py)."""
    probs = []
    for k in ('property_id', 'tier', 'seed', 'level', 'coverage', 'wall_s'):
        if k not in ev:
            probs.append('missing ' + k)
    cov = ev.get('coverage', {})
    if cov.get('states', 0) < 1 or cov.get('transitions', 0) < 1:
        probs.append('states/transitions < 1')
    if not cov.get('samples'):
        probs.append('no samples')
    return probs
