"""Self-test of the C13 reference model (mc/ref/fd.py) against hand-computed literals.

Run:  cd /verif && /venv/bin/python tests/test_c13_ref.py     (needs numpy only, not odl)
"""
import os
import sys

import numpy as np

sys.path.insert(0, os.path.dirname(os.path.dirname(os.path.abspath(__file__))))
from mc.ref import fd  # noqa: E402


def eq(a, b):
    a = np.asarray(a, dtype=complex)
    b = np.asarray(b, dtype=complex)
    assert a.shape == b.shape and np.array_equal(a, b), '\n%s\n!=\n%s' % (a, b)


def main():
    f = [1.0, 4.0, 9.0, 16.0]
    # padded modes, computed by hand on the extended array
    eq(fd.extend(f, 'constant', 2.0), [2, 1, 4, 9, 16, 2])
    eq(fd.extend(f, 'periodic'), [16, 1, 4, 9, 16, 1])
    eq(fd.extend(f, 'symmetric'), np.pad(f, 1, 'symmetric'))
    eq(fd.extend(f, 'order0'), np.pad(f, 1, 'edge'))
    eq(fd.diff_1d(f, 'forward', 'constant', 2.0), [3, 5, 7, -14])
    eq(fd.diff_1d(f, 'backward', 'constant', 2.0), [-1, 3, 5, 7])
    eq(fd.diff_1d(f, 'central', 'constant', 2.0), [1, 4, 6, -3.5])
    eq(fd.diff_1d(f, 'forward', 'periodic'), [3, 5, 7, -15])
    eq(fd.diff_1d(f, 'backward', 'periodic'), [-15, 3, 5, 7])
    eq(fd.diff_1d(f, 'central', 'periodic'), [-6, 4, 6, -4])
    for m in ('symmetric', 'order0'):
        eq(fd.diff_1d(f, 'forward', m), [3, 5, 7, 0])
        eq(fd.diff_1d(f, 'backward', m), [0, 3, 5, 7])
        eq(fd.diff_1d(f, 'central', m), [1.5, 4, 6, 3.5])
    # unpadded modes: edge rows one-sided of order 1 / 2 whatever the method
    eq(fd.diff_1d(f, 'forward', 'order1'), [3, 5, 7, 7])
    eq(fd.diff_1d(f, 'backward', 'order1'), [3, 3, 5, 7])
    eq(fd.diff_1d(f, 'central', 'order1'), [3, 4, 6, 7])
    # f = (i+1)^2: second-order one-sided differences are exact: f'(1)=2, f'(4)=8
    eq(fd.diff_1d(f, 'central', 'order2'), [2, 4, 6, 8])
    eq(fd.diff_1d(f, 'forward', 'order2'), [2, 5, 7, 8])
    eq(fd.diff_1d(f, 'backward', 'order2'), [2, 3, 5, 8])
    # the docstring examples of finite_diff
    g = [float(i) for i in range(10)]
    eq(fd.diff_1d(g, 'forward', 'constant'), [1] * 9 + [-9])
    eq(fd.diff_1d(g, 'forward', 'order1'), [1] * 10)
    h = [0.5 * x * x for x in g]
    eq(fd.diff_1d(h, 'central', 'order1'), [0.5, 1, 2, 3, 4, 5, 6, 7, 8, 8.5])
    eq(fd.diff_1d(h, 'central', 'order2'), [0, 1, 2, 3, 4, 5, 6, 7, 8, 9])
    # order1 edge rows == any method's stencil on the linearly extrapolated array, and
    # order2/central == central stencil on the quadratically extrapolated array
    lin = [2 * f[0] - f[1]] + f + [2 * f[-1] - f[-2]]
    quad = [3 * f[0] - 3 * f[1] + f[2]] + f + [3 * f[-1] - 3 * f[-2] + f[-3]]
    for m in fd.METHODS:
        r = fd.diff_1d(f, m, 'order1')
        assert r[0] == fd._stencil(lin, 1, m) and r[-1] == fd._stencil(lin, 4, m)
    r = fd.diff_1d(f, 'central', 'order2')
    assert r[0] == fd._stencil(quad, 1, 'central') and r[-1] == fd._stencil(quad, 4, 'central')

    # matrices, by hand
    D, b = fd.matrix_1d(3, 'forward', 'constant', 1.5)
    eq(D, [[-1, 1, 0], [0, -1, 1], [0, 0, -1]])
    eq(b, [0, 0, 1.5])
    D, b = fd.matrix_1d(3, 'central', 'constant', 1.5)
    eq(D, [[0, .5, 0], [-.5, 0, .5], [0, -.5, 0]])
    eq(b, [-0.75, 0, 0.75])
    D, b = fd.matrix_1d(2, 'central', 'periodic')
    eq(D, [[0, 0], [0, 0]])          # (f[1]-f[1])/2, (f[0]-f[0])/2
    D, b = fd.matrix_1d(3, 'backward', 'order2')
    eq(D, [[-1.5, 2, -.5], [-1, 1, 0], [.5, -2, 1.5]])
    # adjoint modes: -(dual method, primal mode)^T
    D, b = fd.matrix_1d(3, 'forward', 'symmetric_adjoint')
    # backward/symmetric = [[0,0,0],[-1,1,0],[0,-1,1]] ; minus transpose:
    eq(D, [[0, 1, 0], [0, -1, 1], [0, 0, -1]])
    D, b = fd.matrix_1d(4, 'forward', 'order1_adjoint')
    # backward/order1 = [[-1,1,0,0],[-1,1,0,0],[0,-1,1,0],[0,0,-1,1]]
    eq(D, [[1, 1, 0, 0], [-1, -1, 1, 0], [0, 0, -1, 1], [0, 0, 0, -1]])
    D, b = fd.matrix_1d(2, 'central', 'order1_adjoint')
    # central/order1, n=2 = [[-1,1],[-1,1]]
    eq(D, [[1, 1], [-1, -1]])
    D, b = fd.matrix_1d(3, 'central', 'order2_adjoint')
    # central/order2, n=3 = [[-1.5,2,-.5],[-.5,0,.5],[.5,-2,1.5]]
    eq(D, [[1.5, .5, -.5], [-2, 0, 2], [.5, -.5, -1.5]])
    for m in fd.METHODS:
        for mode in ('constant', 'periodic'):
            for n in (2, 3, 5):
                A, _ = fd.matrix_1d(n, m, mode)
                B, _ = fd.matrix_1d(n, fd.METHOD_DUAL[m], mode)
                eq(A, -B.T)          # these two modes are their own adjoint modes

    # Laplacian
    L, b = fd.laplacian_1d(3, 'constant', 1.5)
    eq(L, [[-2, 1, 0], [1, -2, 1], [0, 1, -2]])
    eq(b, [1.5, 0, 1.5])
    L, b = fd.laplacian_1d(3, 'symmetric')
    eq(L, [[-1, 1, 0], [1, -2, 1], [0, 1, -1]])
    L, b = fd.laplacian_1d(3, 'periodic')
    eq(L, [[-2, 1, 1], [1, -2, 1], [1, 1, -2]])
    L, b = fd.laplacian_1d(2, 'periodic')
    eq(L, [[-2, 2], [2, -2]])
    for mode in fd.LAPLACIAN_MODES:
        for n in (2, 3, 4):
            L, b = fd.laplacian_1d(n, mode, 1.5)
            F, bf = fd.matrix_1d(n, 'forward', mode, 1.5)
            B, bb = fd.matrix_1d(n, 'backward', mode, 1.5)
            eq(L, F - B)
            eq(b, bf - bb)

    # N-d assembly: shape (2, 3), axis 1, forward/constant c=1.5, dx = 1/2
    M, off = fd.partial((2, 3), 1, 0.5, 'forward', 'constant', 1.5)
    blk = np.array([[-2, 2, 0], [0, -2, 2], [0, 0, -2]])
    Z = np.zeros((3, 3))
    eq(M, np.block([[blk, Z], [Z, blk]]))
    eq(off, [0, 0, 3, 0, 0, 3])
    M, off = fd.partial((2, 3), 0, 2.0, 'backward', 'periodic')
    I3 = np.eye(3)
    eq(M, np.block([[I3, -I3], [-I3, I3]]) / 2.0)
    G, og = fd.gradient((2, 2), (1.0, 0.5), 'forward', 'constant')
    eq(G, [[-1, 0, 1, 0], [0, -1, 0, 1], [0, 0, -1, 0], [0, 0, 0, -1],
           [-2, 2, 0, 0], [0, -2, 0, 0], [0, 0, -2, 2], [0, 0, 0, -2]])
    Dv, od = fd.divergence((2, 2), (1.0, 0.5), 'backward', 'constant')
    eq(Dv, -np.asarray(G, dtype=float).T)
    # the Laplacian docstring example: 3x3 delta -> 5-point star
    Lm, ol = fd.laplacian((3, 3), (1.0, 1.0), 'constant')
    x = np.zeros(9)
    x[4] = 1
    eq(np.asarray(Lm, dtype=float) @ x, [0, 1, 0, 1, -4, 1, 0, 1, 0])
    # the Divergence docstring example
    data = np.array([[0., 1., 2., 3., 4.], [1., 2., 3., 4., 5.], [2., 3., 4., 5., 6.]])
    Dv, od = fd.divergence((3, 5), (1.0, 1.0), 'forward', 'constant')
    eq((np.asarray(Dv, dtype=float) @ np.concatenate([data.ravel(), data.ravel()])).reshape(3, 5),
       [[2, 2, 2, 2, -3], [2, 2, 2, 2, -4], [-1, -2, -3, -4, -12]])
    print('test_c13_ref ok')


if __name__ == '__main__':
    main()
