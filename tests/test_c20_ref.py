"""Self-test of the C20 reference model (mc/ref/c20_model.py) against hand-computed literals.

Run with ``/venv/bin/python tests/test_c20_ref.py`` (or pytest).  No odl involved.
"""
import os
import sys

import numpy as np

sys.path.insert(0, os.path.dirname(os.path.dirname(os.path.abspath(__file__))))
from mc.ref import c20_model as M  # noqa: E402

R, C, Z = ('Real',), ('Complex',), ('Int',)


def test_uniform_nodes():
    assert M.uniform_nodes(0, 1, 2, False, False) == (0.25, 0.75)
    assert M.uniform_nodes(0, 1, 2, True, True) == (0.0, 1.0)
    assert M.uniform_nodes(0, 1, 3, True, True) == (0.0, 0.5, 1.0)
    assert M.uniform_nodes(0, 3, 2, False, True) == (1.0, 3.0)
    assert M.uniform_nodes(0, 3, 2, True, False) == (0.0, 2.0)
    assert M.uniform_nodes(0, 1, 1, False, False) == (0.5,)
    assert M.uniform_nodes(-1, 1, 4, False, False) == (-0.75, -0.25, 0.25, 0.75)


def test_cell_volume():
    assert M.cell_volume(0, 1, 2, False) == 0.5
    assert M.cell_volume(0, 1, 2, True) == 1.0
    assert M.cell_volume((0, 0), (1, 2), (2, 4), False) == 0.25
    assert M.cell_volume((), (), (), False) == 1.0
    assert M.cell_volume(0, 1, 1, False) == 1.0


def test_set_keys():
    k = M.keys
    assert k(('Union', R, Z))[0] == k(('Union', Z, R))[0]            # order irrelevant
    assert k(('Union', R, R))[0] == k(('Union', R))[0]               # duplicates ignored
    assert k(('Union', R))[0] != k(('Inter', R))[0]
    assert k(('Cart', R, C))[0] != k(('Cart', C, R))[0]              # ordered
    assert k(('Fin', 1, 2))[0] == k(('Fin', 2, 1, 1))[0]
    assert k(('Fin', 1))[0] == k(('Fin', 1.0))[0] == k(('Fin', True))[0]   # Python equality
    assert k(('Fin', 0.0))[0] == k(('Fin', -0.0))[0]
    assert k(('Str', 2))[0] != k(('Str', 3))[0]


def test_geometry_keys():
    k = M.keys
    assert k(('IP', 0, 1))[0] == k(('IP', (0,), (1,)))[0] == k(('IP', -0.0, 1.0))[0]
    assert k(('IP', 0, 1))[0] != k(('IP', (0, 0), (1, 1)))[0]        # 1-d is not 2-d
    assert k(('IP', (), ()))[0] != k(('IP', 0, 1))[0]
    assert k(('Grid', (0, 0.5, 1)))[0] == k(('UGrid', 0, 1, 3))[0]
    assert k(('Grid', (-1, -0.0, 1)))[0] == k(('Grid', (-1, 0, 1)))[0]
    assert k(('UPart', 0, 1, 2, False))[0] == \
        k(('Part', ('IP', 0, 1), ('Grid', (0.25, 0.75))))[0]
    assert k(('UPart', 0, 1, 2, True))[0] == k(('Part', ('IP', 0, 1), ('Grid', (0, 1))))[0]
    assert k(('UPart', 0, 1, 2, False))[0] != k(('UPart', 0, 1, 2, True))[0]
    assert k(('UPart', 0, 3, 2, ((False, True),)))[0] == \
        k(('Part', ('IP', 0, 3), ('Grid', (1, 3))))[0]


def test_weighting_and_space_keys():
    k = M.keys
    # "a ConstWeighting instance with the same constant": whether another subclass counts is
    # left open (strict keys differ, loose keys agree -> unspecified)
    assert k(('W', 'ConstT', 2.0, 2.0))[0] != k(('W', 'ConstP', 2.0, 2.0))[0]
    assert k(('W', 'ConstT', 2.0, 2.0))[1] == k(('W', 'ConstP', 2.0, 2.0))[1]
    assert k(('W', 'ConstT', 2.0, 2.0))[0] == k(('W', 'ConstT', 2, 2))[0]
    assert k(('W', 'ConstT', 2.0, 2.0))[1] != k(('W', 'ConstT', 0.5, 2.0))[1]
    assert k(('W', 'ConstT', 2.0, 2.0))[0] != k(('W', 'ConstT', 2.0, 1.0))[0]
    assert k(('W', 'ConstB', 2.0, 2.0))[0] != k(('W', 'ConstBo', 2.0, 2.0))[0]   # impl differs
    # "identical array": an equal copy is another array
    assert k(('W', 'ArrT', 'A2', 2.0))[0] != k(('W', 'ArrT', 'A2c', 2.0))[0]
    assert k(('W', 'ArrT', 'A2', 2.0))[1] == k(('W', 'ArrP', 'A2', 2.0))[1]
    assert k(('W', 'ArrT', 'A2', 2.0))[1] != k(('W', 'ArrT', 'A2c', 2.0))[1]
    assert k(('W', 'MatB', 'M2', 2.0))[0] != k(('W', 'MatBs', 'M2', 2.0))[0]
    assert k(('W', 'InnerT', 'f', None))[0] != k(('W', 'NormT', 'f', None))[0]
    ts = lambda *a: ('TS',) + a
    assert k(ts(2, 'float64', None, None, 2.0))[0] == k(ts(2, 'float64', 'const', 1.0, 2.0))[0]
    assert k(ts(2, 'float64', 'const', 2.0, 2.0))[0] == \
        k(ts(2, 'float64', 'W', ('W', 'ConstT', 2.0, 2.0), 2.0))[0]
    assert k(ts(2, 'float64', 'const', 2.0, 2.0))[0] != \
        k(ts(2, 'float64', 'W', ('W', 'ConstP', 2.0, 2.0), 2.0))[0]
    assert k(ts(2, 'float64', 'const', 2.0, 2.0))[1] == \
        k(ts(2, 'float64', 'W', ('W', 'ConstP', 2.0, 2.0), 2.0))[1]
    assert k(ts(2, 'float64', 'const', 2, 2.0))[0] == k(ts(2, 'float64', 'const', 2.0, 2.0))[0]
    assert k(ts(2, 'float64', None, None, 2.0))[0] != k(ts(2, 'float32', None, None, 2.0))[0]
    assert k(ts(2, 'float64', None, None, 2.0))[0] != k(ts(2, 'float64', None, None, 1.0))[0]
    assert k(ts((2, 3), 'float64', None, None, 2.0))[0] != \
        k(ts((3, 2), 'float64', None, None, 2.0))[0]
    # weights given as a list become a new array per construction
    assert k(ts(2, 'float64', 'list', 'A2', 2.0), 0)[0] != k(ts(2, 'float64', 'list', 'A2', 2.0), 1)[0]
    assert k(ts(2, 'float64', 'list', 'A2', 2.0), 0)[0] == k(ts(2, 'float64', 'list', 'A2', 2.0), 0)[0]
    # default weighting of a uniform discretization is the cell volume
    ud = ('UD', 0, 1, 2, ())
    udw = ('UD', 0, 1, 2, (('weighting', 0.5),))
    ds = ('DS', ('UPart', 0, 1, 2, False), ('TS', 2, 'float64', 'const', 0.5, 2.0), None)
    assert k(ud)[0] == k(udw)[0] == k(ds)[0]
    # partition only in the strict key (docstring of __eq__ mentions the tspace only)
    ud2 = ('UD', 0, 2, 2, (('weighting', 0.5),))
    assert k(ud)[0] != k(ud2)[0] and k(ud)[1] == k(ud2)[1]
    # product spaces: weighting only in the strict key
    r2 = ts(2, 'float64', None, None, 2.0)
    a = ('PW', r2, 2, None, None, 2.0)
    b = ('PS', (r2, r2), None, None, 2.0, None)
    c = ('PW', r2, 2, 'const', 2.0, 2.0)
    assert k(a)[0] == k(b)[0]
    assert k(a)[0] != k(c)[0] and k(a)[1] == k(c)[1]
    assert k(('PS', (), None, None, 2.0, R))[0] == k(('PW', r2, 0, None, None, 2.0))[0]


def test_universe_unique_and_named():
    for tier in ('quick', 'thorough'):
        recs = M.universe(tier)
        names = [M.name(r) for r in recs]
        assert len(set(names)) == len(names)
        for r in recs:
            M.keys(r, 0)
            assert M.family(r) in ('set', 'geom', 'weighting', 'space')
    q = set(M.name(r) for r in M.universe('quick'))
    t = set(M.name(r) for r in M.universe('thorough'))
    assert q <= t


def test_selections():
    facs = ['a', 'b', 'c']
    assert M.select_factors(facs, 1) == ('leaf', 'b')
    assert M.select_factors(facs, -1) == ('leaf', 'c')
    assert M.select_factors(facs, slice(1, None)) == ('prod', ['b', 'c'])
    assert M.select_factors(facs, [2, 0, 2]) == ('prod', ['c', 'a', 'c'])
    assert M.select_factors(facs, ()) == ('prod', facs)
    assert M.select_factors(facs, (0,)) == ('leaf', 'a')
    assert M.select_factors(facs, 3)[0] == 'error'
    assert M.select_factors(facs, (0, 0))[0] == 'error'         # cannot be passed down
    assert M.select_factors(facs, (slice(None), 0))[0] == 'error'
    nested = [['a', 'b'], ['c', 'd']]
    assert M.select_factors(nested, (1, 0)) == ('leaf', 'c')
    assert M.select_factors(nested, (slice(None), 0)) == ('prod', ['a', 'c'])
    assert M.select_factors(nested, (slice(None, -1), 0)) == ('prod', ['a'])
    assert M.select_factors(nested, 0) == ('prod', ['a', 'b'])
    assert M.select_factors(nested, (slice(0, 0), 0))[0] == 'error'
    assert M.select_weights([1.0, 2.0, 3.0], slice(None, None, 2)) == [1.0, 3.0]
    assert M.select_weights([1.0, 2.0, 3.0], [2, 0]) == [3.0, 1.0]


def test_values_and_alphabets():
    v = M.values((2, 2), 'float64')
    assert v.tolist() == [[-1.0, -0.5], [0.0, 0.5]]
    assert M.values((2,), 'complex128').tolist() == [-1 + 1j, -0.5 + 2j]
    assert M.values((3,), 'int64').tolist() == [1, 2, 3]
    assert M.values((2,), '<U2').tolist() == ['a', 'b']
    assert M.values((), 'float64').shape == ()
    al = M.index_alphabet((3,), True)
    assert 0 in [a for a in al if isinstance(a, int)] and -3 in [a for a in al if isinstance(a, int)]
    assert sum(isinstance(a, slice) for a in al) == 100
    assert sum(isinstance(a, np.ndarray) and a.dtype == bool for a in al) == 8
    assert M.counterpart('complex64', 'real') == np.dtype('float32')
    assert M.counterpart('float64', 'complex') == np.dtype('complex128')
    assert M.counterpart('int64', 'complex') is None
    assert M.counterpart('float16', 'complex') == np.dtype('complex64')
    assert M.counterpart('float16', 'real') == np.dtype('float16')


def test_tiny_perturbations_are_different_objects():
    k = M.keys
    base = ('Grid', (0, 1, 2, 3, 4))
    assert k(base)[0] == k(('UGrid', 0, 4, 5))[0]
    assert k(base)[1] != k(('Grid', (0.0, 1.000001, 2.0, 3.0, 4.0)))[1]     # interior node
    assert k(base)[1] != k(('Grid', (0.0, 1.0, 2.0, 3.0, 4.000000001)))[1]   # end point
    assert M._perturb((0, 1, 2), 1, 1e-6) == (0.0, 1.000001, 2.0)
    p = ('UPart', -0.5, 4.5, 5, False)
    assert k(p)[0] == k(('Part', ('IP', -0.5, 4.5), base))[0]
    assert k(p)[1] != k(('Part', ('IP', -0.5, 4.5), ('Grid', (0.0, 1.0, 2.000001, 3.0, 4.0))))[1]
    assert k(p)[1] != k(('Part', ('IP', -0.5, 4.500001), base))[1]
    assert k(('W', 'ConstT', 2.0, 2.0))[1] != k(('W', 'ConstT', 2.000000001, 2.0))[1]
    assert k(('W', 'ConstT', 2.0, 2.0))[1] != k(('W', 'ConstT', 2.0, 2.000000001))[1]
    names = [M.name(r) for r in M.universe('quick')]
    assert 'Grid([0.0,1.000001,2.0,3.0,4.0])' in names and 'TS(2,float16,None,None,2.0)' in names
    assert M.field_of_dtype('int32') == 'Real' and M.field_of_dtype('<U2') is None


def test_one_field_variants_and_array_owners():
    k = M.keys
    vs = M.one_field_variants(False)
    classes = set(v[0] for v in vs)
    assert {'IntervalProd', 'RectGrid', 'RectPartition', 'DiscretizedSpace', 'ProductSpace',
            'ArrayWeighting', 'ConstWeighting', 'NumpyTensorSpace'} <= classes
    names = set(M.name(r) for r in M.universe('quick'))
    for cls, field, base, var in vs:
        assert M.name(base) in names and M.name(var) in names
        if field != 'axis_labels':
            assert k(base)[0] != k(var)[0], (cls, field)        # differ ...
        else:
            assert k(base)[0] == k(var)[0]                      # labels are not part of ==
    # the pair the statement is about: identical grid, different set, base nodes on the boundary
    p = ('Part', ('IP', 0, 1), ('Grid', (0, 0.5, 1)))
    q = ('Part', ('IP', -0.25, 1.25), ('Grid', (0, 0.5, 1)))
    assert k(p)[0][2] == k(q)[0][2] and k(p)[0][1] != k(q)[0][1]
    assert k(p)[0] == k(('UPart', 0, 1, 3, True))[0]
    assert k(q)[0] == k(('UPart', -0.25, 1.25, 3, False))[0]
    r2 = ('TS', 2, 'float64', None, None, 2.0)
    assert M.arrays_used(('PW', ('PW', r2, 2, 'arr', 'A2', 2.0), 2, 'arr', 'B2', 2.0)) == \
        ['B2', 'A2']
    assert M.arrays_used(('TS', 2, 'float64', 'list', 'A2', 2.0)) == []
    assert M.arrays_used(('UD', 0, 1, 2, (('weighting', 'A2'),))) == ['A2']
    assert M.arrays_used(('TS', 2, 'float64', 'W', ('W', 'ArrT', 'A2', 2.0), 2.0)) == ['A2']


def test_near_miss_shapes():
    nm = M.near_miss_shapes
    assert nm((3, 1)) == [(1, 3), (3,), (1, 3, 1), (1, 1, 3, 1), (3, 1, 1)]
    assert (3,) in nm((1, 3)) and (3, 1) in nm((1, 3))          # fewer leading ones / moved one
    assert (2, 3) in nm((2, 1, 3)) and (1, 2, 3) in nm((2, 1, 3)) and (2, 3, 1) in nm((2, 1, 3))
    assert nm(()) == [(1,), (1, 1)]
    for sh in [(3, 1), (1, 3), (2, 1, 3), (2, 2), (3,), (1, 1, 3)]:
        for w in nm(sh):
            assert w != sh and int(np.prod(w)) == int(np.prod(sh))
    names = set(M.name(r) for r in M.universe('quick'))
    assert 'TS([3,1],float64,None,None,2.0)' in names and 'TS([2,1,3],float64,None,None,2.0)' in names


if __name__ == '__main__':
    for name, f in sorted(globals().items()):
        if name.startswith('test_'):
            f()
    print('test_c20_ref ok')
