"""Self-test of the C14 reference model against hand-computed literals (no odl involved).

Run:  /venv/bin/python tests/test_c14_ref.py
"""
import os
import sys
from fractions import Fraction as Fr

sys.path.insert(0, os.path.dirname(os.path.dirname(os.path.abspath(__file__))))
from mc.ref import partition_ref as R      # noqa


def fl(seq):
    return [float(v) for v in seq]


def main():
    # [0,1], 4 cells, nodes in the cell centres
    a, dx = R.uniform_axis(0, 1, 4, 0, 0)
    assert fl(a.nodes) == [0.125, 0.375, 0.625, 0.875] and dx == Fr(1, 4)
    assert fl(a.bdry) == [0, 0.25, 0.5, 0.75, 1]
    # 3 nodes, both on the boundary: 2 full cells
    a, dx = R.uniform_axis(0, 1, 3, 1, 1)
    assert fl(a.nodes) == [0, 0.5, 1] and fl(a.bdry) == [0, 0.25, 0.75, 1] and dx == Fr(1, 2)
    assert a.on_bdry == (True, True) and a.uniform
    # only the right node on the boundary: 2.5 cells of size 0.4
    a, dx = R.uniform_axis(0, 1, 3, 0, 1)
    assert dx == Fr(2, 5) and a.nodes == [Fr(1, 5), Fr(3, 5), Fr(1)]
    assert a.bdry == [0, Fr(2, 5), Fr(4, 5), 1] and not a.dyadic()
    # single node on the left end of [0, 1]: half a cell of size 2
    a, dx = R.uniform_axis(0, 1, 1, 1, 0)
    assert dx == 2 and a.nodes == [0] and a.bdry == [0, 1]
    # single node on both ends: only for a degenerate interval
    a, dx = R.uniform_axis(1, 1, 1, 1, 1)
    assert dx is None and a.bdry == [1, 1]
    try:
        R.uniform_axis(0, 1, 1, 1, 1)
        raise AssertionError('expected ValueError')
    except ValueError:
        pass
    # non-uniform: midpoint rule, default limits half a node distance outside
    a = R.nonuniform_axis([0, 1, 3])
    assert fl(a.bdry) == [-0.5, 0.5, 2, 4] and fl(a.sizes) == [1, 1.5, 2] and not a.uniform
    a = R.nonuniform_axis([0, 1, 3], bl=True)
    assert fl(a.bdry) == [0, 0.5, 2, 4]
    a = R.nonuniform_axis([-1, 0, 2], lo=-1, hi=2)
    assert fl(a.bdry) == [-1, -0.5, 1, 2] and fl(a.sizes) == [0.5, 1.5, 1] and a.dyadic()
    assert R.nonuniform_axis([1]).bdry == [1, 1]
    # point location
    b = [Fr(0), Fr(1, 2), Fr(2), Fr(4)]
    assert R.cells_containing(b, Fr(1, 4)) == [0]
    assert R.cells_containing(b, Fr(1, 2)) == [0, 1]
    assert R.cells_containing(b, Fr(4)) == [2]
    assert R.float_index(b, Fr(1, 4)) == (Fr(1, 2), Fr(1, 2))
    assert R.float_index(b, Fr(1, 2)) == (1, 1)
    assert R.float_index(b, Fr(3)) == (Fr(5, 2), Fr(5, 2))
    assert R.float_index(b, Fr(4)) == (3, 3)
    assert R.float_index([Fr(1), Fr(1)], Fr(1)) == (0, 1)
    # index normalisation
    N = R.normalize_index
    assert N(1, (3, 4)) == [([1], 1, 2), ([0, 1, 2, 3], 0, 4)]
    assert N((Ellipsis, -1), (3, 4)) == [([0, 1, 2], 0, 3), ([3], 3, 4)]
    assert N((slice(None, None, 2),), (5,)) == [([0, 2, 4], 0, 5)]
    assert N(slice(1, None, 3), (5,)) == [([1, 4], 1, 5)]
    assert N(slice(None, -1, 2), (4,)) == [([0, 2], 0, 3)]
    assert N((0, Ellipsis, 0), (2, 2)) == [([0], 0, 1), ([0], 0, 1)]
    for bad in [(slice(2, 2),), 5, -6, (0, 0), (Ellipsis, Ellipsis), slice(None, None, -1)]:
        try:
            N(bad, (5,))
            raise AssertionError('expected Inadmissible for %r' % (bad,))
        except R.Inadmissible:
            pass
    # selections: docstring example  uniform_partition(0, 10, 10)[::2]
    p, _ = R.uniform_axis(0, 10, 10, 0, 0)
    c, contig = R.getitem([p], slice(None, None, 2))
    assert fl(c[0].nodes) == [0.5, 2.5, 4.5, 6.5, 8.5] and (c[0].lo, c[0].hi) == (0, 10)
    assert contig == [False]
    c, contig = R.getitem([p], slice(2, 5))
    assert fl(c[0].bdry) == [2, 3, 4, 5] and contig == [True]
    # docstring example part[::2, ..., -1]
    part = [R.Ax(-1, 3, [-1, 0, 3]), R.Ax(1, 6, [2, 4]), R.Ax(4, 5, [5]), R.Ax(2, 7, [2, 4, 7])]
    c, _ = R.getitem(part, (slice(None, None, 2), Ellipsis, -1))
    assert [fl(a.nodes) for a in c] == [[-1, 3], [2, 4], [5], [7]]
    assert fl(a.lo for a in c) == [-1, 1, 4, 5.5] and fl(a.hi for a in c) == [3, 6, 5, 7]
    c, _ = R.getitem(part, 1)
    assert fl(a.lo for a in c) == [-0.5, 1, 4, 2] and fl(a.hi for a in c) == [1.5, 6, 5, 7]
    c, contig = R.getitem_list(part, [0, 2])
    assert fl(c[0].nodes) == [-1, 3] and contig[0] is False
    c, contig = R.getitem_list(part, [1, 2])
    assert (float(c[0].lo), float(c[0].hi)) == (-0.5, 3) and contig[0] is True
    # structure operations
    A, B, C = R.Ax(0, 1, [0.5]), R.Ax(0, 2, [0.5, 1.5]), R.Ax(5, 5, [5])
    assert R.insert([A, B], 1, [C]) == [A, C, B] and R.insert([A, B], -1, [C], [C]) == [A, C, C, B]
    assert R.insert([A], 1, [B, C]) == [A, B, C]
    assert R.squeeze([A, B, C]) == [B] and R.squeeze([A, B, C], [0]) == [B, C]
    assert R.squeeze([A, B, C], [1]) == [A, B, C]
    assert R.byaxis([A, B, C], [2, 0, 2]) == [C, A, C]
    print('test_c14_ref ok')


if __name__ == '__main__':
    main()
