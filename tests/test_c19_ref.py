"""Self-test of the C19 reference model against hand-computed literals (no odl involved).

Run: /venv/bin/python /verif/tests/test_c19_ref.py
"""
import math
import os
import sys

import numpy as np

sys.path.insert(0, os.path.dirname(os.path.dirname(os.path.abspath(__file__))))
from mc.ref import geom_ref as G  # noqa: E402

PI = math.pi


def close(a, b, tol=1e-14):
    a = np.asarray(a, dtype=float)
    b = np.asarray(b, dtype=float)
    assert a.shape == b.shape, (a.shape, b.shape)
    assert np.abs(a - b).max() <= tol, (a, b)


# rotations -------------------------------------------------------------------------------
close(G.rot2(PI / 2), [[0, -1], [1, 0]])
close(G.rot_axis((0, 0, 1), PI / 2), [[0, -1, 0], [1, 0, 0], [0, 0, 1]])
close(G.rot_axis((0, 0, 2), PI / 2).dot([1, 0, 0]), [0, 1, 0])       # e_x -> e_y around e_z
close(G.rot_axis((1, 0, 0), PI / 2).dot([0, 1, 0]), [0, 0, 1])       # e_y -> e_z around e_x
close(G.rot_axis((0, 1, 0), PI / 2).dot([0, 0, 1]), [1, 0, 0])       # e_z -> e_x around e_y
close(G.rot_axis((1, 1, 1), 2 * PI / 3).dot([1, 0, 0]), [0, 1, 0])   # cyclic permutation
close(G.rot_axis((1, 2, 2), 1.234).dot([1, 2, 2]), [1, 2, 2], 1e-14)  # axis is fixed
assert G.is_rotation(G.rot_axis((1, 2, 2), 1.234))
# ZXZ: phi only = rotation around z; theta only = rotation around x
close(G.euler_zxz(PI / 2), [[0, -1, 0], [1, 0, 0], [0, 0, 1]])
close(G.euler_zxz(0, PI / 2), [[1, 0, 0], [0, 0, -1], [0, 1, 0]])
close(G.euler_zxz(0, 0, PI / 2), [[0, -1, 0], [1, 0, 0], [0, 0, 1]])
# Wikipedia Z1X2Z3 entry (0, 2) = s1 s2, (2, 0) = s2 s3, (2, 2) = c2
E = G.euler_zxz(0.3, 0.7, 1.1)
close(E[0, 2], math.sin(0.3) * math.sin(0.7))
close(E[2, 0], math.sin(0.7) * math.sin(1.1))
close(E[2, 2], math.cos(0.7))
close(E[1, 2], -math.cos(0.3) * math.sin(0.7))
assert G.is_rotation(E)

# initial rotations (docstring examples of the geometry classes) ----------------------------
# Parallel2d: det_pos_init=(-1, 0) -> det_axis_init = e_y; (0, -1) -> -e_x
close(G.init_rotation((0, 1), (-1, 0)).dot([1, 0]), [0, 1])
close(G.init_rotation((0, 1), (0, -1)).dot([1, 0]), [-1, 0])
# FanBeam: src_to_det_init=(1, 0) -> det_axis_init = -e_y
close(G.init_rotation((0, 1), (1, 0)).dot([1, 0]), [0, -1])
# Parallel3dAxis: axis=(0,1,0) -> det_pos_init=-e_z, axes (e_x, e_y); axis=(1,0,0) -> e_y, (-e_z, e_x)
R = G.init_rotation((0, 0, 1), (0, 1, 0))
close(R.dot([0, 1, 0]), [0, 0, -1])
close(R.dot([1, 0, 0]), [1, 0, 0])
close(R.dot([0, 0, 1]), [0, 1, 0])
R = G.init_rotation((0, 0, 1), (1, 0, 0))
close(R.dot([0, 1, 0]), [0, 1, 0])
close(R.dot([1, 0, 0]), [0, 0, -1])
close(R.dot([0, 0, 1]), [1, 0, 0])
# Parallel3dEuler: det_pos_init=(1,0,0) -> axes (-e_y, e_z); (0,0,1) -> (e_x, -e_y)
R = G.init_rotation((0, 1, 0), (1, 0, 0))
close(R.dot([1, 0, 0]), [0, -1, 0])
close(R.dot([0, 0, 1]), [0, 0, 1])
R = G.init_rotation((0, 1, 0), (0, 0, 1))
close(R.dot([1, 0, 0]), [1, 0, 0])
close(R.dot([0, 0, 1]), [0, -1, 0])
# antiparallel: half turn around e_x
close(G.init_rotation((0, 0, 1), (0, 0, -3)), np.diag([1.0, -1.0, -1.0]))
close(G.init_rotation((0, 0, 1), (0, 0, 5)), np.eye(3))

# detectors (docstring examples of odl.tomo.geometry.detector) --------------------------------
d = G.Flat1d((2, 0))
close(d.surface((1.5,)), [1.5, 0])
close(d.normal((0.0,)), [0, -1])
d = G.Flat2d(((1, 0, 0), (0, 0, 1)))
close(d.surface((1.0, 1.0)), [1, 0, 1])
close(d.normal((0.0, 0.0)), [0, -1, 0])
d = G.Circular((1, 0), 2)
close(d.surface((0.0,)), [0, 0])
close(d.surface((PI / 2,)), [2, -2], 1e-15 * 8)
close(d.surface((-PI / 2,)), [-2, -2], 1e-15 * 8)
close(d.deriv((0.0,)), [2, 0])
close(d.deriv((PI / 2,)), [0, -2], 1e-15 * 8)
close(d.normal((0.0,)), [0, -1])
assert d.measure((0.3,)) == 2.0
d = G.Cylindrical(((1, 0, 0), (0, 0, 1)), 2)
close(d.surface((0.0, 0.0)), [0, 0, 0])
close(d.surface((PI / 2, 1.0)), [2, -2, 1], 1e-15 * 8)
close(d.surface((-PI / 2, -1.0)), [-2, -2, -1], 1e-15 * 8)
close(d.normal((0.0, 0.0)), [0, -1, 0])
close(d.measure((0.4, 0.2)), 2.0, 1e-15 * 8)
d = G.Spherical(((1, 0, 0), (0, 0, 1)), 10)
# ConeBeamGeometry docstring: refpoint (0, 10, 0) + surface(pi/2, pi/4) = 10 (cos pi/4, 0, sin pi/4)
close(np.array([0, 10, 0]) + d.surface((PI / 2, PI / 4)),
      [10 * math.cos(PI / 4), 0, 10 * math.sin(PI / 4)], 1e-14)
close(d.surface((0.0, 0.0)), [0, 0, 0])
close(d.measure((0.3, PI / 3)), 100 * 0.5, 1e-12)
close(d.normal((0.0, 0.0)), [0, -1, 0])

# geometries (docstring examples) ---------------------------------------------------------------
# Parallel2d default: refpoint(0) = (0, 1), det_point_position(pi/2, 1) = (-1, 1), det_to_src(pi/2) = (1, 0)
g = G.GeomModel(2, 'parallel', '2d', G.Flat1d((1, 0)), p=(0, 1))
close(g.refpoint((0.0,)), [0, 1])
close(g.det_point((PI / 2, ), (1.0,)), [-1, 1], 1e-15 * 4)
close(g.det_to_src((PI / 2,), (0.3,)), [1, 0], 1e-15 * 4)
close(g.det_to_src((0.0,), (0.3,)), [0, -1])
# frommatrix example with translation (1, 1): det_pos_init = -e_y + (1, 1)
g = G.GeomModel(2, 'parallel', '2d', G.Flat1d((1, 0)), p=(0, -1), translation=(1, 1))
close(g.refpoint((0.0,)), [1, 0])
close(g.refpoint((PI,)), [1, 2], 1e-15 * 4)             # rotates around (1, 1)
# FanBeam(src_radius=2, det_radius=5): src(0) = (0,-2), src(pi/2) = (2, 0), det(pi/2) = (-5, 0)
g = G.GeomModel(2, 'divergent', '2d', G.Flat1d((1, 0)), s=(0, 1), src_radius=2, det_radius=5)
close(g.src((0.0,)), [0, -2])
close(g.src((PI / 2,)), [2, 0], 1e-15 * 8)
close(g.refpoint((PI / 2,)), [-5, 0], 1e-15 * 8)
close(g.det_to_src((0.0,), (0.0,), normalized=False), [0, -7])
close(g.det_to_src((PI / 2,), (0.0,)), [1, 0], 1e-15 * 8)
# FanBeam flying focal spot example: src_to_det_init = (-0.71, 0.71), radius 1, angle 3 pi / 4,
# shift (0, 0.1) -> (-0.1, 1.0); angle pi/4, shift (0.1, 0) -> (1.1, 0)
g = G.GeomModel(2, 'divergent', '2d', G.Flat1d((1, 0)), s=(-0.71, 0.71), src_radius=1,
                det_radius=5, src_shift=lambda a: (0.1, 0.0) if a < 1 else (0.0, 0.1))
close(g.src((PI / 4,)), [1.1, 0], 1e-14)
close(g.src((3 * PI / 4,)), [-0.1, 1.0], 1e-14)
# FanBeam detector shift example: s = (0.71, -0.71), det_radius 1, shift (0, 0.1):
# angle pi/4 -> (1.0, 0.1)
g = G.GeomModel(2, 'divergent', '2d', G.Flat1d((1, 0)), s=(0.71, -0.71), src_radius=1,
                det_radius=1, det_shift=lambda a: (0.0, 0.1))
close(g.refpoint((PI / 4,)), [1.0, 0.1], 1e-14)
close(g.refpoint((3 * PI / 4,)), [-0.1, 1.0], 1e-14)
# ConeBeam(src_radius=5, det_radius=10, pitch=2): det(pi/2) = (-10, 0, 0.5); src(2 pi) = src(0) + (0,0,2)
g = G.GeomModel(3, 'divergent', 'axis', G.Flat2d(((1, 0, 0), (0, 0, 1))), axis=(0, 0, 1),
                s=(0, 1, 0), src_radius=5, det_radius=10, pitch=2)
close(g.src((0.0,)), [0, -5, 0])
close(g.refpoint((PI / 2,)), [-10, 0, 0.5], 1e-14)
close(g.src((2 * PI,)), [0, -5, 2], 1e-14)
# ConeBeam detector shift example: s = (0.71, -0.71, 0), radii 1, shift (0, 0.1, -0.1):
# angle pi/4 -> (1.0, 0.1, -0.1)
g = G.GeomModel(3, 'divergent', 'axis', G.Flat2d(((1, 0, 0), (0, 0, 1))), axis=(0, 0, 1),
                s=(0.71, -0.71, 0), src_radius=1, det_radius=1,
                det_shift=lambda a: (0.0, 0.1, -0.1))
close(g.refpoint((PI / 4,)), [1.0, 0.1, -0.1], 1e-14)
close(g.refpoint((5 * PI / 4,)), [-1.0, -0.1, -0.1], 1e-14)
# ConeBeam source shift: tangent of the source at -s = (0,-1,0) around e_z is e_z x (0,-1,0) = (1,0,0)
g = G.GeomModel(3, 'divergent', 'axis', G.Flat2d(((1, 0, 0), (0, 0, 1))), axis=(0, 0, 1),
                s=(0, 1, 0), src_radius=1, det_radius=5, src_shift=lambda a: (0.0, 0.1, 0.25))
close(g.src((0.0,)), [0.1, -1.0, 0.25], 1e-15)
# Parallel3dEuler: det_point_position((0, 0), (-1, 1)) = (-1, 1, 1)
g = G.GeomModel(3, 'parallel', 'euler', G.Flat2d(((1, 0, 0), (0, 0, 1))), p=(0, 1, 0))
close(g.det_point((0.0, 0.0), (-1.0, 1.0)), [-1, 1, 1])
close(g.det_axes((PI / 2, 0.0)), [[0, 1, 0], [0, 0, 1]], 1e-15 * 4)

# projection onto a flat detector: fan beam, source (0,-2), detector line y = 3, point (1, 0) -> u = 2.5
g = G.GeomModel(2, 'divergent', '2d', G.Flat1d((1, 0)), s=(0, 1), src_radius=2, det_radius=3)
close(G.project_on_flat_detector(g, (0.0,), (1.0, 0.0)), [2.5])
g = G.GeomModel(2, 'parallel', '2d', G.Flat1d((1, 0)), p=(0, 1))
close(G.project_on_flat_detector(g, (0.0,), (0.75, 0.2)), [0.75])
g = G.GeomModel(3, 'divergent', 'axis', G.Flat2d(((1, 0, 0), (0, 0, 1))), axis=(0, 0, 1),
                s=(0, 1, 0), src_radius=2, det_radius=2)
close(G.project_on_flat_detector(g, (0.0,), (0.5, 0.0, 1.0)), [1.0, 2.0])

print('test_c19_ref ok')
