"""Self-test of the C16 reference model (mc/ref/resize.py) against hand-computed literals.

Run:  /venv/bin/python tests/test_c16_ref.py     (no odl needed)
"""
import os
import sys

import numpy as np

sys.path.insert(0, os.path.dirname(os.path.dirname(os.path.abspath(__file__))))
from mc.ref import resize as R  # noqa: E402


def eq(a, b):
    a, b = np.asarray(a), np.asarray(b)
    assert a.shape == b.shape and np.array_equal(a, b), (a, b)


def main():
    x = np.array([1., 2., 3.])
    # the five rules written out by hand for n = 3 -> m = 7, two entries added on the left
    eq(R.forward(x, (7,), (2,), 'constant', 0), [0, 0, 1, 2, 3, 0, 0])
    eq(R.forward(x, (7,), (2,), 'constant', -1), [-1, -1, 1, 2, 3, -1, -1])
    eq(R.forward(x, (7,), (2,), 'periodic'), [2, 3, 1, 2, 3, 1, 2])
    eq(R.forward(x, (7,), (2,), 'symmetric'), [3, 2, 1, 2, 3, 2, 1])
    eq(R.forward(x, (7,), (2,), 'order0'), [1, 1, 1, 2, 3, 3, 3])
    eq(R.forward(x, (7,), (2,), 'order1'), [-1, 0, 1, 2, 3, 4, 5])
    # non-constant slope at the two ends
    eq(R.forward(np.array([1., 4., 5., 7.]), (7,), (1,), 'order1'), [-2, 1, 4, 5, 7, 9, 11])
    # restriction
    eq(R.forward(x, (1,), (0,), 'periodic'), [1])
    eq(R.forward(x, (1,), (2,), 'order1'), [3])
    eq(R.forward(x, (2,), (1,), 'constant', 9), [2, 3])
    # limits of admissibility
    assert R.admissible_1d(3, 9, 3, 'periodic') is None          # one whole copy on each side
    assert R.admissible_1d(3, 10, 3, 'periodic') is not None
    assert R.admissible_1d(3, 7, 2, 'symmetric') is None
    assert R.admissible_1d(3, 7, 3, 'symmetric') is not None     # left 3 >= n
    assert R.admissible_1d(1, 2, 0, 'symmetric') is not None
    assert R.admissible_1d(1, 3, 1, 'order0') is None
    assert R.admissible_1d(1, 3, 1, 'order1') is not None
    assert R.admissible_1d(0, 2, 0, 'order0') is not None
    assert R.admissible_1d(5, 2, 3, 'symmetric') is None         # restriction: nothing padded
    eq(R.forward(x, (9,), (3,), 'periodic'), [1, 2, 3, 1, 2, 3, 1, 2, 3])
    # 2-d: middle two columns, rows extended symmetrically (corner filling)
    a = np.arange(1., 13.).reshape(3, 4)
    eq(R.forward(a, (5, 2), (1, 1), 'symmetric'),
       [[6, 7], [2, 3], [6, 7], [10, 11], [6, 7]])
    eq(R.forward(a, (5, 2), (0, 2), 'symmetric'),
       [[3, 4], [7, 8], [11, 12], [7, 8], [3, 4]])
    # corner filling with order1: the plane 10*i + j continues as a plane
    p = np.add.outer(10. * np.arange(2), np.arange(2.))
    eq(R.forward(p, (4, 4), (1, 1), 'order1'),
       np.add.outer(10. * np.arange(-1, 3), np.arange(-1., 3.)))
    # constant mode: everything outside the block gets the constant, corners included
    eq(R.forward(np.ones((1, 1)), (2, 3), (1, 1), 'constant', 7), [[7, 7, 7], [7, 1, 7]])
    # numpy.pad oracle agrees with the matrix oracle on a mixed grow/shrink example
    b = np.arange(12.).reshape(3, 4)
    for mode in R.NP_MODE:
        eq(R.forward_nppad(b, (5, 2), (1, 1), mode, 2.5), R.forward(b, (5, 2), (1, 1), mode, 2.5))
    # adjoint = transpose, hand-computed for order1, n = 3 -> m = 5, one entry left
    M, _ = R.matrix((3,), (5,), (1,), 'order1')
    eq(M, [[2, -1, 0], [1, 0, 0], [0, 1, 0], [0, 0, 1], [0, -1, 2]])
    eq(M.T @ np.array([1, 0, 0, 0, 1]), [2, -2, 2])
    # offsets
    assert R.offsets_1d(3, 7) == [0, 1, 2, 3, 4] and R.offsets_1d(7, 3) == [0, 1, 2, 3, 4]
    assert R.offsets_1d(3, 3) == [0]
    assert R.default_offset_1d(2, 5) == 2 and R.default_offset_1d(2, 4) == 1
    print('test_c16_ref ok')


if __name__ == '__main__':
    main()
