"""Self-test of the C11 oracles (mc/props/c11.py: _check_case, _grid) on synthetic solvers whose
behaviour is known by construction: a correct one must pass silently, each planted defect
(hidden state across calls, state not written back, callback at the wrong time / wrong count,
optimised != reference beyond rounding, reading an uninitialised temporary) must be named.

Run:  cd /verif && PYTHONPATH=/repo /venv/bin/python tests/test_c11_ref.py
"""
import os
import sys

import numpy as np

sys.path.insert(0, os.path.dirname(os.path.dirname(os.path.abspath(__file__))))
sys.path.insert(0, os.environ.get('VERIF_REPO', '/repo'))
import odl  # noqa: E402
from mc.props import c11  # noqa: E402

SP = odl.rn(2)


def fresh():
    return {'x': SP.element([1.0, -2.0]), 'y': SP.zero()}


def good(st, n, cb):
    """x <- x/2 + y ; y <- y + 1   (whole state in the arguments, updated in place)"""
    for _ in range(n):
        st['x'].lincomb(0.5, st['x'], 1, st['y'])
        st['y'] += 1
        if cb is not None:
            cb(st['x'])


def good_ref(st, n):
    for _ in range(n):
        st['x'][:] = st['x'] / 2 + st['y']
        st['y'][:] = st['y'] + 1


def symptoms(case, N=5, three=True):
    acc = c11._Acc()
    c11._check_case(case, N, three, acc, 'synthetic')
    return sorted(s for (_, s) in acc.first), acc


def main():
    # a correct solver: silent; the number of compared executions is known in closed form
    N = 5
    syms, acc = symptoms(c11.Case('good', fresh, good, good_ref, keys=('x', 'y'),
                                  resumable=True), N)
    assert syms == [], syms
    two = sum(1 for n in range(1, N) for m in range(1, N + 1 - n))
    three = sum(1 for a in range(1, N) for b in range(1, N) for c in range(1, N)
                if a + b + c <= N)
    assert (two, three) == (10, 10)
    # 1 (niter=0) + (N+1) lock-step + 1 (callback run) + N records + 2 falsy callbacks + splits
    assert acc.evals == 1 + (N + 1) + 1 + N + 2 + two + three, acc.evals
    assert acc.skipped == 0

    # rounding-level difference between optimised and reference is accepted, 1e-9 is not
    def ref_eps(eps):
        def ref(st, n):
            good_ref(st, n)
            if n >= 3:
                st['x'][0] = st['x'][0] + eps
        return ref
    assert symptoms(c11.Case('r', fresh, good, ref_eps(4e-16), keys=('x', 'y')))[0] == []
    assert symptoms(c11.Case('r', fresh, good, ref_eps(1e-9), keys=('x', 'y')))[0] == \
        ['iterate_differs_from_reference']

    # hidden state across calls: an iteration counter kept outside the arguments
    def hidden(st, n, cb):
        for k in range(n):
            st['x'].lincomb(0.5, st['x'], 1.0 / (k + 1), st['y'])
            st['y'] += 1
            if cb is not None:
                cb(st['x'])
    assert symptoms(c11.Case('h', fresh, hidden, keys=('x', 'y'), resumable=True))[0] == \
        ['split_run_differs']
    # ... the same solver is fine for (c) alone
    assert symptoms(c11.Case('h', fresh, hidden, keys=('x', 'y')))[0] == []

    # state not written back (y rebound instead of updated in place)
    def rebind(st, n, cb):
        y = st['y']
        for _ in range(n):
            st['x'].lincomb(0.5, st['x'], 1, y)
            y = y + 1
            if cb is not None:
                cb(st['x'])
    s, _ = symptoms(c11.Case('w', fresh, rebind, keys=('x',), resumable=True))
    assert s == ['split_run_differs'], s

    # callback before the update / twice per iteration / not at all in the last iteration
    def cb_early(st, n, cb):
        for _ in range(n):
            if cb is not None:
                cb(st['x'])
            st['x'].lincomb(0.5, st['x'], 1, st['y'])
            st['y'] += 1
    assert symptoms(c11.Case('c', fresh, cb_early, keys=('x', 'y')))[0] == \
        ['callback_record_is_not_iterate']

    def cb_twice(st, n, cb):
        for _ in range(n):
            st['x'].lincomb(0.5, st['x'], 1, st['y'])
            st['y'] += 1
            if cb is not None:
                cb(st['x'])
                cb(st['x'])
    assert symptoms(c11.Case('c', fresh, cb_twice, keys=('x', 'y')))[0] == ['callback_count']
    # ... unless two calls per iteration are documented
    assert symptoms(c11.Case('c', fresh, cb_twice, keys=('x', 'y'), mult=2))[0] == []

    # a valid callback whose truth value is False must be called like any other
    def cb_truthy_guard(st, n, cb):
        for _ in range(n):
            st['x'].lincomb(0.5, st['x'], 1, st['y'])
            st['y'] += 1
            if cb:
                cb(st['x'])
    assert symptoms(c11.Case('c', fresh, cb_truthy_guard, keys=('x', 'y')))[0] == \
        ['falsy_callback_count']
    acc2 = c11._Acc()
    c11._check_case(c11.Case('c', fresh, cb_truthy_guard, keys=('x', 'y')), 5, False, acc2,
                    'synthetic', full_cb=False)
    assert not acc2.first

    # a reference trajectory built by the harness (documented iteration)
    def traj(N):
        out = []
        for k in range(N + 1):
            st = fresh()
            good_ref(st, k)
            out.append(c11._snap(st, ('x', 'y')))
        return out
    assert symptoms(c11.Case('t', fresh, good, keys=('x', 'y'), ref_traj=traj))[0] == []
    assert symptoms(c11.Case('t', fresh, hidden, keys=('x', 'y'), ref_traj=traj))[0] == \
        ['iterate_differs_from_reference']

    def cb_skip_last(st, n, cb):
        for k in range(n):
            st['x'].lincomb(0.5, st['x'], 1, st['y'])
            st['y'] += 1
            if cb is not None and k < n - 1:
                cb(st['x'])
    assert symptoms(c11.Case('c', fresh, cb_skip_last, keys=('x', 'y')))[0] == ['callback_count']
    # with documented early termination a missing callback is only admissible if the iterate
    # no longer changes
    assert symptoms(c11.Case('c', fresh, cb_skip_last, keys=('x', 'y'), early=True))[0] == \
        ['iterate_changes_after_last_callback']

    def stops(st, n, cb):
        for k in range(n):
            if k >= 2:
                return
            st['x'].lincomb(0.5, st['x'], 1, st['y'])
            if cb is not None:
                cb(st['x'])
    assert symptoms(c11.Case('c', fresh, stops, keys=('x',), early=True))[0] == []
    assert symptoms(c11.Case('c', fresh, stops, keys=('x',)))[0] == ['callback_count']

    # a callback that changes the result / niter=0 that changes the state
    def cb_matters(st, n, cb):
        for _ in range(n):
            st['x'].lincomb(0.5, st['x'], 1 if cb is None else 2, st['y'])
            st['y'] += 1
            if cb is not None:
                cb(st['x'])
    assert 'callback_changes_result' in symptoms(c11.Case('c', fresh, cb_matters,
                                                          keys=('x', 'y')))[0]

    def zero_touch(st, n, cb):
        st['x'] *= 1.5
        good(st, n, cb)
    assert 'zero_iterations_change_state' in symptoms(c11.Case('c', fresh, zero_touch,
                                                               keys=('x', 'y')))[0]

    # reading a (poisoned) uninitialised temporary in the optimised code only
    def uninit(st, n, cb):
        tmp = np.full(2, np.nan)
        for k in range(n):
            st['x'].lincomb(0.5, st['x'], 1, st['y'])
            if k == 1:
                st['x'][0] = st['x'][0] + 0 * tmp[0]
            st['y'] += 1
            if cb is not None:
                cb(st['x'])
    assert 'iterate_differs_from_reference' in symptoms(
        c11.Case('u', fresh, uninit, good_ref, keys=('x', 'y')))[0]

    # exceptions: the solver's own line in a documented configuration vs functional code
    def raises_own(st, n, cb):
        raise TypeError('own')
    s, acc = symptoms(c11.Case('e', fresh, raises_own, keys=('x',), files=(__file__,)))
    assert s == ['raises:TypeError'], s

    def raises_inner(st, n, cb):
        odl.rn(3).element([1, 2])          # raised inside odl, not in a file of the solver
    s, acc = symptoms(c11.Case('e', fresh, raises_inner, keys=('x',), files=('nothing.py',)))
    assert s == [] and acc.skipped == 1, (s, acc.skipped)
    # optimised raises, reference runs
    assert symptoms(c11.Case('e', fresh, raises_inner, good_ref, keys=('x',),
                             files=('nothing.py',)))[0] == ['optimised_raises:ValueError']

    # inner alphabets: deviations from the default instance, simplest first
    cfg = {'deep': True, 'dev': 1}
    g = c11._grid(cfg, [1, 2, 3], ['a', 'b'])
    assert g == [(1, 'a'), (1, 'b'), (2, 'a'), (3, 'a')], g
    cfg = {'deep': False, 'dev': 99}
    assert c11._grid(cfg, [1, 2, 3], ['a', 'b']) == [(1, 'a'), (1, 'b'), (2, 'a'), (2, 'b')]
    # a tuple dimension is never cut by the quick tier
    assert c11._grid({'deep': False, 'dev': 1}, [1, 2, 3], ('a', 'b', 'c')) == \
        [(1, 'a'), (1, 'b'), (1, 'c'), (2, 'a')]

    # random order owned by the harness: seeded per fresh state, carried over on resumption,
    # drawn orders recorded; a reference-loop finding is reported under its own symptom
    np.random.permutation = c11._recording_permutation
    try:
        del c11._PERMS[:]

        def rnd(st, n, cb, hoist=False):
            c11._seeded(st, 3)
            o = np.random.permutation(range(3)) if hoist else None
            for _ in range(n):
                if not hoist:
                    o = np.random.permutation(range(3))
                st['x'].lincomb(0.5, st['x'], float(o[0]), st['y'])
                st['y'] += 1
                if cb is not None:
                    cb(st['x'])

        def rnd_ref(st, n):
            rnd(st, n, None)
        assert symptoms(c11.Case('p', fresh, rnd, rnd_ref, keys=('x', 'y'),
                                 resumable=True))[0] == []
        calls = [g for g in c11._PERMS if g]
        assert any(o != sorted(o) for g in calls for o in g)
        assert any(len(set(map(tuple, g))) > 1 for g in calls)
        s, _ = symptoms(c11.Case('p', fresh, lambda st, n, cb: rnd(st, n, cb, True), rnd_ref,
                                 keys=('x', 'y'), resumable=True))
        assert 'iterate_differs_from_reference' in s and 'split_run_differs' in s, s

        def finding_ref(st, n):
            raise c11._Finding('order_not_drawn_once_per_iteration', 'planted')
        assert symptoms(c11.Case('p', fresh, rnd, finding_ref, keys=('x', 'y')))[0] == \
            ['order_not_drawn_once_per_iteration']
    finally:
        np.random.permutation = c11._ORIG_PERMUTATION
        del c11._PERMS[:]
    # every configuration is unique and JSON-serialisable, simplest (small pools) first
    import json
    for tier in ('quick', 'thorough'):
        cs = c11.configs(tier)
        assert len(set(json.dumps(c, sort_keys=True) for c in cs)) == len(cs)
    print('test_c11_ref ok')


if __name__ == '__main__':
    main()
