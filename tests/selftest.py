"""Setup-time self-test: the framework imports, odl comes from the working tree, schemas load."""
import json, os, sys
here = os.path.dirname(os.path.dirname(os.path.abspath(__file__)))
sys.path.insert(0, here)
sys.path.insert(0, os.environ.get('VERIF_REPO', '/repo'))
import odl  # noqa
from mc import engine, spaces  # noqa
json.load(open(os.path.join(here, 'MANIFEST.json')))
json.load(open(os.path.join(here, 'known_findings.json')))
print('selftest ok; odl from', os.path.dirname(odl.__file__))
