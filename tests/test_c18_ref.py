"""Self-test of the C18 reference model (mc/ref/fourier.py) against hand-computed literals.

Run:  cd /verif && /venv/bin/python tests/test_c18_ref.py     (needs numpy only, not odl)
"""
import itertools
import os
import sys

import numpy as np

sys.path.insert(0, os.path.dirname(os.path.dirname(os.path.abspath(__file__))))
from mc.ref import fourier as R  # noqa: E402


def close(a, b, tol=1e-13):
    a = np.asarray(a, dtype=complex)
    b = np.asarray(b, dtype=complex)
    assert a.shape == b.shape, (a.shape, b.shape)
    assert np.abs(a - b).max() <= tol * max(1.0, np.abs(b).max()), '\n%s\n!=\n%s' % (a, b)


def main():
    # --- trigonometric sums, by hand
    close(R.dft_apply([1, 0, 0, 0], [0]), [1, 1, 1, 1])
    close(R.dft_apply([0, 1, 0, 0], [0], '-'), [1, -1j, -1, 1j])
    close(R.dft_apply([0, 1, 0, 0], [0], '+'), [1, 1j, -1, -1j])
    close(R.dft_apply([1, 2, 3, 4], [0], '-'), [10, -2 + 2j, -2, -2 - 2j])
    w = np.exp(-2j * np.pi / 3)
    close(R.dft_apply([0, 1, 0], [0], '-'), [1, w, w ** 2])
    close(R.dft_apply([1, 2, 4], [0], '-'), [7, 1 + 2 * w + 4 * w ** 2, 1 + 2 * w ** 2 + 4 * w ** 4])
    # half-complex storage keeps the first n//2+1 entries of the LAST transformed axis
    close(R.dft_apply([1, 2, 3, 4], [0], '-', True), [10, -2 + 2j, -2])
    close(R.dft_apply([1, 2, 4], [0], '-', True), [7, 1 + 2 * w + 4 * w ** 2])
    a = np.arange(6.0).reshape(2, 3)
    assert R.dft_apply(a, [0, 1], '-', True).shape == (2, 2)
    assert R.dft_apply(a, [1, 0], '-', True).shape == (2, 3)      # last of axes=(1, 0) is axis 0
    assert R.dft_apply(a, [0], '-', True).shape == (2, 3)
    # 2-d: transform along axis 0 only of [[1,2],[3,4]] -> [[4,6],[-2,-2]]
    close(R.dft_apply([[1, 2], [3, 4]], [0]), [[4, 6], [-2, -2]])
    close(R.dft_apply([[1, 2], [3, 4]], [1]), [[3, -1], [7, -1]])
    close(R.dft_apply([[1, 2], [3, 4]], [0, 1]), [[10, -2], [-4, 0]])
    # documented inverse
    close(R.idft_apply([10, -2 + 2j, -2, -2 - 2j], [0], '+'), [1, 2, 3, 4])
    close(R.idft_apply([4, 0, 0, 0], [0], '-'), [1, 1, 1, 1])
    # --- against numpy.fft on integer data, all shapes/axes of the enumeration
    for nd in (1, 2, 3):
        for shape in itertools.product((2, 3, 4, 5), repeat=nd):
            a = (np.arange(int(np.prod(shape))) ** 2 % 7 - 3.0).reshape(shape)
            b = a + 1j * a[::-1]
            for r in range(1, nd + 1):
                for axes in itertools.combinations(range(nd), r):
                    close(R.dft_apply(b, axes, '-'), np.fft.fftn(b, axes=axes), 1e-12)
                    nn = np.prod([shape[i] for i in axes])
                    close(R.dft_apply(b, axes, '+'), np.fft.ifftn(b, axes=axes) * nn, 1e-12)
                    close(R.dft_apply(a, axes, '-', True), np.fft.rfftn(a, axes=axes), 1e-12)
                    close(R.idft_apply(b, axes, '+'), np.fft.ifftn(b, axes=axes), 1e-12)
                    close(R.idft_apply(b, axes, '-'), np.fft.fftn(b, axes=axes) / nn, 1e-12)
    # batch offset
    E = R.basis_stack((2, 3), float)
    assert E.shape == (6, 2, 3) and E[4, 1, 1] == 1 and E.sum() == 6
    close(R.dft_apply(E, [1], '-', False, offset=1)[4], np.fft.fftn(E[4], axes=[1]))
    assert R.basis_stack((2,), complex, imag=True)[1, 1] == 1j
    # --- reciprocal grid (docstring of reciprocal_grid): n=4 on [0,2]: s=1/2, stride 2pi/(s n)=pi
    x, s = R.cell_nodes(4, 0.0, 2.0)
    close(x, [0.25, 0.75, 1.25, 1.75])
    assert s == 0.5
    close(R.recip_nodes(4, s, True), np.pi * np.array([-2, -1, 0, 1]))
    close(R.recip_nodes(4, s, False), np.pi * np.array([-1.5, -0.5, 0.5, 1.5]))
    close(R.recip_nodes(4, s, True, half=True), np.pi * np.array([-2, -1, 0]))
    close(R.recip_nodes(3, 1.0, True), 2 * np.pi / 3 * np.array([-1.5, -0.5, 0.5]))
    close(R.recip_nodes(3, 1.0, False), 2 * np.pi / 3 * np.array([-1, 0, 1]))
    close(R.recip_nodes(3, 1.0, True, half=True), 2 * np.pi / 3 * np.array([-1.5, -0.5]))
    # --- FT of the indicator of one cell [a, a+s]: (2pi)^-1/2 (e^{-i a xi} - e^{-i (a+s) xi})/(i xi)
    n, lo, hi = 5, -1.0, 1.5
    x, s = R.cell_nodes(n, lo, hi)
    for shift in (True, False):
        for sign in ('-', '+'):
            sg = -1 if sign == '-' else 1
            xi = R.recip_nodes(n, s, shift)
            for k in range(n):
                e = np.zeros(n)
                e[k] = 1
                a = lo + k * s
                with np.errstate(all='ignore'):
                    ana = (np.exp(sg * 1j * (a + s) * xi) - np.exp(sg * 1j * a * xi)) / (sg * 1j * xi)
                ana = np.where(np.abs(xi) < 1e-14, s, ana) / np.sqrt(2 * np.pi)
                close(R.ft_apply(e, [lo], [hi], [0], [shift], sign), ana, 1e-13)
    # --- Gaussian pair by quadrature (fine midpoint rule)
    t = np.linspace(-12, 12, 48001)
    for c in (0.0, 1.0):
        for sign in ('-', '+'):
            sg = -1 if sign == '-' else 1
            for xi in (0.0, 0.7, -1.3):
                q = np.trapz(R.gaussian(t, c) * np.exp(sg * 1j * t * xi), t) / np.sqrt(2 * np.pi)
                close([q], [R.gaussian_ft(np.array(xi), c, sign)], 1e-9)
    print('test_c18_ref ok')


if __name__ == '__main__':
    main()
