"""Self-test of the C02 reference model against hand-computed literals (no odl involved).

Run:  /venv/bin/python tests/test_c02_ref.py
"""
import math
import os
import sys
from fractions import Fraction as Fr

sys.path.insert(0, os.path.dirname(os.path.dirname(os.path.abspath(__file__))))
from mc.ref import c02_ref as R      # noqa

INF = float('inf')


def main():
    # [0, 1], 4 nodes in the cell centres: 4 cells of 1/4
    assert R.axis_weights(0, 1, 4, 0, 0) == [Fr(1, 4)] * 4
    # 3 nodes, both on the boundary: 2 cells of 1/2, the outer ones halved
    assert R.axis_weights(0, 1, 3, 1, 1) == [Fr(1, 4), Fr(1, 2), Fr(1, 4)]
    # only the right node on the boundary: 2.5 cells of 2/5  (docstring of
    # uniform_partition_fromintv: cell boundaries [0, 0.4, 0.8, 1])
    assert R.axis_weights(0, 1, 3, 0, 1) == [Fr(2, 5), Fr(2, 5), Fr(1, 5)]
    assert R.axis_weights(0, 1, 3, 1, 0) == [Fr(1, 5), Fr(2, 5), Fr(2, 5)]
    # two nodes on the boundary: one cell, split in two halves
    assert R.axis_weights(-1, 2, 2, 1, 1) == [Fr(3, 2), Fr(3, 2)]
    # a single node owns the interval whatever the flags
    for l in (0, 1):
        for r in (0, 1):
            assert R.axis_weights(0.5, 2, 1, l, r) == [Fr(3, 2)]
    # the weights always add up to the length
    for n in (1, 2, 3, 5, 8):
        for l in (0, 1):
            for r in (0, 1):
                assert sum(R.axis_weights(-1, 2.5, n, l, r)) == Fr(7, 2)
    # 2-d: outer product;  [0,1]x[0,3], shape (3,2), first axis nodes on the boundary
    W = R.discr_weights([0, 0], [1, 3], (3, 2), [(1, 1), (0, 0)])
    assert W.tolist() == [[0.375, 0.375], [0.75, 0.75], [0.375, 0.375]]
    assert abs(W.sum() - 3.0) < 1e-15
    assert R.cell_volume([0, 0], [1, 3], (3, 2), [(1, 1), (0, 0)]) == Fr(3, 4)
    assert R.domain_volume([0, -1], [1, 3]) == 4
    # unit cells with boundary nodes: [0, 3], 4 nodes on the boundary -> side 1
    assert R.cell_volume([0], [3], (4,), [(1, 1)]) == 1
    assert R.axis_weights(0, 3, 4, 1, 1) == [Fr(1, 2), 1, 1, Fr(1, 2)]
    assert R.has_boundary_fraction((4,), [(1, 1)]) and not R.has_boundary_fraction((1,), [(1, 1)])
    assert not R.has_boundary_fraction((4, 3), [(0, 0), (0, 0)])

    # grid partitions with arbitrary boundary cells (docstring of boundary_cell_fractions:
    # grid [0, 1] in [0, 1.5] -> fractions 0.5 and 1; grid [-1, 0, 2]... is non-uniform, so the
    # second literal is the seeded example grid 0, .25, ..., 1 in [-0.05, 1.3])
    assert R.grid_axis_weights(0, 1, 2, 0, 1.5) == [Fr(1, 2), 1]
    w = R.grid_axis_weights(0, Fr(1, 4), 5, Fr(-1, 20), Fr(13, 10))
    assert w == [Fr(7, 40), Fr(1, 4), Fr(1, 4), Fr(1, 4), Fr(17, 40)] and sum(w) == Fr(27, 20)
    assert R.grid_fractions([0], [Fr(1, 4)], (5,), [Fr(-1, 20)], [Fr(13, 10)]) == \
        [(Fr(7, 10), Fr(17, 10))]
    assert R.grid_axis_weights(0, 0.5, 3, -0.125, 1.625) == [Fr(3, 8), Fr(1, 2), Fr(7, 8)]
    assert R.grid_axis_weights(0, 0, 1, -0.25, 1) == [Fr(5, 4)]
    assert R.grid_axis_weights(0, 2, 2, 0, 2) == [1, 1]
    Wg = R.grid_weights([0, 0], [0.5, 0], (3, 1), [-0.125, -1], [1.625, 0.5])
    assert Wg.tolist() == [[0.5625], [0.75], [1.3125]] and Wg.sum() == 1.75 * 1.5
    # far from the origin / tiny cells: the weights depend on lengths only
    assert R.discr_weights([2.0 ** 20], [2.0 ** 20 + 3], (3,), [(0, 0)]).tolist() == [1, 1, 1]
    assert R.discr_weights([-2.0 ** 24], [-2.0 ** 24 + 2], (3,), [(1, 1)]).tolist() == [.5, 1, .5]
    assert R.axis_weights(0, 3 * 2.0 ** -30, 3, 0, 0) == [Fr(1, 2 ** 30)] * 3
    assert R.grid_axis_weights(2.0 ** 20, 0.5, 3, 2.0 ** 20 - 0.125, 2.0 ** 20 + 1.625) == \
        [Fr(3, 8), Fr(1, 2), Fr(7, 8)]
    d = Fr(1, 2 ** 20)
    assert R.grid_fractions([0], [0.5], (2,), [-0.25 - 2.0 ** -21], [0.75]) == [(1 + d, Fr(1))]
    # inner: linear in the first argument, conjugate linear in the second
    W = [2.0, 0.5]
    assert R.inner_w(W, [1, 2], [3, -1]) == 2 * 3 - 0.5 * 2
    assert R.inner_w(W, [1j, 2], [1, 1j]) == 2 * 1j + 0.5 * 2 * (-1j)
    assert R.inner_w([1, 1], [1j, 0], [1j, 0]) == 1
    assert R.inner_scale(W, [1j, -2], [1, 1j]) == 2 + 1
    # norms (doctests of NumpyTensorSpace._norm: rn(3, exponent=1, weighting=[2,1,1]),
    # x = [3, 0, 4] -> 10; dist([-1,-1,2], one) -> 7)
    assert R.norm_w([2, 1, 1], [3, 0, 4], 1) == 10.0
    assert R.dist_w([2, 1, 1], [-1, -1, 2], [1, 1, 1], 1) == 7.0
    assert R.norm_w([1, 1, 1], [3, 0, 4], 2) == 5.0
    assert R.norm_w([4, 4, 4], [3, 0, 4], 2) == 10.0          # sqrt(c) * ||x||_2
    assert R.norm_w([2, 2, 2], [3, 0, -4], INF) == 8.0          # c * ||x||_inf, not c^(1/p)
    assert R.norm_w([2, 1, 3], [3, 0, -1], INF) == 6.0
    assert abs(R.norm_w([8, 8], [1, 1], 3) - 16 ** (1 / 3.)) < 1e-15    # c^(1/p) ||x||_p
    assert abs(R.norm_w([1, 8], [2, 1], 3) - 16 ** (1 / 3.)) < 1e-15
    assert R.norm_w([1, 1], [3j, 4], 2) == 5.0
    assert R.norm_w([], [], 2) == 0.0
    # product spaces
    assert R.prod_inner([1.0, 2.0], [2.0, 0.5]) == 3.0
    assert R.prod_norm([3.0, 4.0], [1, 1], 2) == 5.0
    assert R.prod_norm([3.0, 4.0], [4, 4], 2) == 10.0
    assert R.prod_norm([3.0, 4.0], [2, 1], 1) == 10.0
    assert R.prod_norm([3.0, 4.0], [2, 1], INF) == 6.0
    assert abs(R.prod_norm([1.0, 1.0], [8, 8], 3) - 16 ** (1 / 3.)) < 1e-15
    assert R.prod_norm([], [], 2) == 0.0
    # quadratic form y^H A x
    A = [[2, 1], [1, 3]]
    assert R.inner_mat(A, [1, 0], [0, 1]) == 1.0 and R.inner_mat(A, [1, 1], [1, 1]) == 7.0
    Ac = [[2, 1j], [-1j, 2]]
    assert R.inner_mat(Ac, [1, 0], [0, 1]) == -1j and R.inner_mat(Ac, [0, 1], [1, 0]) == 1j
    v = R.inner_mat(Ac, [1, 1j], [1, 1j])
    assert v == 2          # 1*(2 + i*i) + conj(i)*(-i + 2i) = 1 + 1
    assert math.isclose(R.norm_w([0.5, 0.5], [1, 1], 2), 1.0)
    print('test_c02_ref ok')


if __name__ == '__main__':
    main()
