"""Self-test of the C01 reference model (mc/ref/arith.py) against hand-computed literals.

Run:  cd /verif && /venv/bin/python tests/test_c01_ref.py     (needs numpy only, not odl)
"""
import itertools
import os
import sys

import numpy as np

sys.path.insert(0, os.path.dirname(os.path.dirname(os.path.abspath(__file__))))
from mc.ref import arith as R  # noqa: E402


def eq(a, b, dtype=None):
    a = np.asarray(a)
    b = np.asarray(b)
    assert a.shape == b.shape and np.array_equal(a, b), '\n%s\n!=\n%s' % (a, b)
    if dtype is not None:
        assert a.dtype == np.dtype(dtype), (a.dtype, dtype)


def main():
    # --- tiling: literal head, then the two coverage claims the check relies on
    i0, i1, i2 = R.triple_index(7)
    eq(i0, [0, 1, 2, 3, 4, 0, 1])
    eq(i1, [0, 0, 0, 0, 0, 1, 1])
    eq(i2, [0, 1, 2, 3, 4, 1, 2])
    i0, i1, i2 = R.triple_index(3, phase=9)        # t = 27, 28, 29
    eq(i0, [2, 3, 4])
    eq(i1, [0, 0, 0])
    eq(i2, [3, 4, 0])
    for start in (0, 25, 100, 375):       # windows aligned to multiples of 25
        idx = R.triple_index(start + 125, 0, 4)
        win = [ix[start:start + 25] for ix in idx]
        for p, q in itertools.combinations(range(4), 2):
            if (p, q) == (2, 3):
                continue        # register 3 is only promised against registers 0 and 1
            assert len(set(zip(win[p].tolist(), win[q].tolist()))) == 25, (start, p, q)
        win = [ix[start:start + 125] for ix in idx[:3]]
        assert len(set(zip(*[w.tolist() for w in win]))) == 125, start
    # phases of a size-1 / size-3 space cover all pairs as well
    for n in (1, 3, 4, 6, 24):
        nph = -(-25 // n)
        cols = [np.concatenate([R.triple_index(n, ph)[k] for ph in range(nph)]) for k in range(3)]
        for p, q in itertools.combinations(range(3), 2):
            assert len(set(zip(cols[p].tolist(), cols[q].tolist()))) == 25, (n, p, q)

    # --- contents
    c = R.contents('float32', 6)
    eq(c[0], [-2, -0.5, 0, 1, 3, -2], 'float32')
    eq(c[1], [-2, -2, -2, -2, -2, -0.5], 'float32')
    eq(c[2], [-2, -0.5, 0, 1, 3, -0.5], 'float32')
    eq(R.contents('int8', 5)[0], [-2, -1, 0, 1, 3], 'int8')
    eq(R.contents('uint8', 5)[0], [2, 5, 0, 1, 3], 'uint8')
    eq(R.contents('float64', 5, mode='D')[0], [-2, -0.5, 1, 2, 4], 'float64')
    eq(R.contents('complex128', 5)[0], [-2 + 1j, -0.5 - 2j, 0, 1 + 3j, 3 - 0.5j], 'complex128')
    eq(R.contents('complex64', 5, mode='D')[0], [-2, -0.5j, 1, 2j, 4], 'complex64')
    try:
        R.contents('int64', 5, mode='D')
        raise AssertionError('integer divisor mode must be refused')
    except ValueError:
        pass

    # --- lincomb and friends
    eq(R.lincomb(2, [1, 3], 0.5, [-2, -0.5], 'float32'), [1, 5.75], 'float32')
    eq(R.lincomb(0, [1, 3], 0, [-2, -0.5], 'float64'), [0, 0], 'float64')
    eq(R.lincomb(-1, [1, 3], 3, [-2, 1], 'int8'), [-7, 0], 'int8')
    eq(R.lincomb(1j, [1 + 1j, 2], 1 + 1j, [1j, -0.5], 'complex128'),
       [(1j - 1) + (1j - 1), 2j - 0.5 - 0.5j], 'complex128')
    eq(R.lincomb_scale(2, [1, -3], -0.5, [-2, 4]), [3, 8])
    eq(R.add([1, 2], [3, -2], 'int32'), [4, 0], 'int32')
    eq(R.sub([1, 2], [3, -2], 'float16'), [-2, 4], 'float16')
    eq(R.mul([-0.5, 3], [-0.5, -2], 'float32'), [0.25, -6], 'float32')
    eq(R.div([1, 3, -2], [-2, 4, -0.5], 'float64'), [-0.5, 0.75, 4], 'float64')
    eq(R.div([1 + 1j, 4], [2j, -0.5j], 'complex128'), [0.5 - 0.5j, 8j], 'complex128')
    for bad in (lambda: R.div([1], [0], 'float64'), lambda: R.div([1], [1], 'int64'),
                lambda: R.ipow([2], -1, 'int64'), lambda: R.ipow([0.0], -1, 'float64')):
        try:
            bad()
            raise AssertionError('expected an error')
        except (ValueError, FloatingPointError):
            pass
    eq(R.ipow([-2, -0.5, 3, 0], 3, 'float64'), [-8, -0.125, 27, 0])
    eq(R.ipow([-2, -0.5, 3, 0], 0, 'float32'), [1, 1, 1, 1], 'float32')
    eq(R.ipow([2, -0.5, 4], -2, 'float64'), [0.25, 4, 0.0625])
    eq(R.ipow([2j, -1], -1, 'complex128'), [-0.5j, -1])
    eq(R.ipow([-2, 3], 4, 'int8'), [16, 81], 'int8')

    # --- divisors with zeros, IEEE quotient
    eq(R.contents('float64', 5, mode='Z')[0], [-2, -0.0, 0, 1, 4], 'float64')
    assert np.signbit(R.contents('float64', 5, mode='Z')[0][1])
    q = R.div_ieee([1, -1, 0, 2, 3], [0.0, 0.0, 0.0, -0.0, 4.0], 'float32')
    assert q.dtype == np.float32 and q[0] == np.inf and q[1] == -np.inf and np.isnan(q[2]) \
        and q[3] == -np.inf and q[4] == 0.75
    assert R.same_ieee([np.inf, np.nan, 1.0], [np.inf, np.nan, 1.0])
    assert not R.same_ieee([np.inf, np.nan], [-np.inf, np.nan])
    assert not R.same_ieee([7.0, np.nan], [np.inf, np.nan])
    assert not R.same_ieee([complex(np.nan, 0)], [complex(np.nan, np.nan)])
    assert R.first_diff_ieee([np.nan, 1.0, 7.0], [np.nan, 1.0, np.inf]) == 2
    assert R.first_diff_ieee([np.nan, np.inf], [np.nan, np.inf]) is None

    # --- overlapping operands: de Bruijn tiling
    s = R.debruijn_pairs()
    assert len(s) == 25 and len({(s[m], s[(m + 1) % 25]) for m in range(25)}) == 25
    b = R.overlap_buffer((6,), 0, 'float64')
    eq(b, [-2, -2, -0.5, -2, 0, -2])            # symbols 0 0 1 0 2 0
    for shape, ax in (((101,), 0), ((11, 10), 0), ((10, 11), -1), ((3, 5, 10), 0),
                      ((121,), 0), ((251, 200), 0)):
        b = np.moveaxis(R.overlap_buffer(shape, ax, 'int64'), ax, 0)
        assert len(set(zip(b[1:].ravel().tolist(), b[:-1].ravel().tolist()))) == 25, shape
    pairs = set()
    for ph in range(9):                          # size 3: ceil(25 / 3) phases
        b = R.overlap_buffer((4,), 0, 'int64', ph)
        pairs |= set(zip(b[1:].tolist(), b[:-1].tolist()))
    assert len(pairs) == 25

    # --- helpers
    p = R.poison_fill('float32', 4)
    assert np.isnan(p[0]) and np.isnan(p[2]) and p[1] == p[3] > 1e37 and p.dtype == np.float32
    p = R.poison_fill('int8', 3)
    eq(p, [63, -64, 63], 'int8')
    p = R.poison_fill('complex128', 2)
    assert np.isnan(p[0]) and abs(p[1]) > 1e300
    # extended precision / byte-swapped dtypes: finite "huge", wide dtype never narrower
    p = R.poison_fill('longdouble', 4)
    assert np.isnan(p[0]) and np.isfinite(p[1]) and p[1] == p[3] and p.dtype == np.longdouble
    assert p[1] == np.finfo(np.longdouble).max / 4
    p = R.poison_fill('clongdouble', 2)
    assert np.isnan(p[0]) and np.isfinite(p[1]) and p.dtype == np.clongdouble
    p = R.poison_fill('>f8', 2)
    assert np.isnan(p[0]) and p[1] == np.finfo('f8').max / 4 and p.dtype == np.dtype('>f8')
    assert R.wide('float16') is np.float64 and R.wide('float32') is np.float64
    assert R.wide('>f8') is np.float64 and R.wide('complex64') is np.complex128
    assert R.wide('uint64') is np.int64 and R.wide('>i4') is np.int64
    if np.dtype('longdouble').itemsize > 8:
        assert R.wide('longdouble') is np.longdouble and R.wide('clongdouble') is np.clongdouble
    eq(R.lincomb(2, [1, -0.5], -1, [3, 3], 'longdouble'), [-1, -4], 'longdouble')
    eq(R.lincomb(1j, [1, -0.5j], 1, [0, 3], 'clongdouble'), [1j, 3.5], 'clongdouble')
    eq(R.lincomb(2, [1, -0.5], -1, [3, 3], '>f8'), [-1, -4], '>f8')
    eq(R.contents('longdouble', 5)[0], [-2, -0.5, 0, 1, 3], 'longdouble')
    assert R.eps('longdouble') == float(np.finfo(np.longdouble).eps)
    assert R.first_diff([1, 2, 3], [1, 2, 3]) is None
    assert R.first_diff([1, 2, 3], [1, 5, 3]) == 1
    assert R.first_diff([1.0, np.nan], [1.0, 0.0]) == 1
    assert R.first_diff([1.0, 2.0], [1.0, 2.0 + 1e-9], tol=np.array([1e-6, 1e-6])) is None
    assert R.first_diff([1.0, 2.0], [1.0, 2.1], tol=np.array([1e-6, 1e-6])) == 1
    assert R.kind('complex64') == 'c' and R.kind('uint8') == 'u'
    assert R.eps('float32') == 2.0 ** -23 and R.eps('int64') == 0.0
    print('test_c01_ref ok')


def test_c01_ref():
    main()


if __name__ == '__main__':
    main()
