"""Self-test of the C17 harness pieces that stand between NumPy (the reference model) and the
verdict: value fills, comparison helpers, axis alphabet, and the NumPy facts the oracle relies
on, each against hand-written literals.  Run:  PYTHONPATH=/repo:/verif python tests/test_c17_ref.py
"""
import itertools
import os
import sys

sys.path.insert(0, os.path.dirname(os.path.dirname(os.path.abspath(__file__))))

import numpy as np

from mc.props import c17


def test_fills():
    for dt in c17.DTYPES:
        for which in ('a1', 'b1', 'a2', 'b2'):
            a = c17.fill(dt, (2, 2, 3), which)
            assert a.shape == (2, 2, 3) and a.dtype == np.dtype(dt)
            assert np.all(np.isfinite(a.astype(complex)))
            b = c17.fill(dt, (2, 2, 3), which)
            assert a is not b and np.array_equal(a, b)          # fresh and deterministic
        for which in ('b1', 'b2'):
            if dt != 'bool':
                assert np.all(c17.fill(dt, (12,), which) != 0)   # no zero divisors
        if dt == 'int64':
            assert np.all(c17.fill(dt, (12,), 'b1') > 0) and np.all(c17.fill(dt, (12,), 'b2') > 0)
    # the first six entries (largest quick shape) are pairwise distinct -> an axis or operand
    # mix-up changes the result
    for seq in (c17._F['a1'], c17._F['b2'], c17._I['a1']):
        assert len(set(seq[:6])) == 6
    assert c17.fill('float64', (3,), 'a1').tolist() == [0.5, -2.0, 3.0]
    assert c17.fill('complex128', (2,), 'a1').tolist() == [0.5 - 1j, -2.0 + 2j]
    assert c17.fill('bool', (3,), 'a1').tolist() == [True, False, True]
    assert c17.prefill('float64', (2, 2)).tolist() == [[9.0, 10.0], [11.0, 12.0]]
    assert c17.prefill('bool', (3,)).tolist() == [True, False, True]


def test_bits_equal():
    be = c17._bits_equal
    assert be(np.array([1.0, 2.0]), np.array([1.0, 2.0]))
    assert not be(np.array([0.0]), np.array([-0.0]))             # sign of zero is seen
    assert be(np.array([np.nan]), np.array([np.nan]))
    assert not be(np.array([1.0]), np.array([1.0], dtype='float32'))
    assert not be(np.array([1.0, 2.0]), np.array([[1.0, 2.0]]))
    assert not be(np.array([1.0]), np.array([1.0 + 2 ** -52]))   # one ulp is seen
    big = np.zeros((2, 6))
    view = big[:, ::2]
    view[...] = [[1, 2, 3], [4, 5, 6]]
    assert be(view, np.array([[1.0, 2, 3], [4, 5, 6]]))          # layout does not matter
    assert be(np.asfortranarray(view), view)
    assert c17._num_equal(np.array([1.0, 0.0]), np.array([True, False]))
    assert not c17._num_equal(np.array([1.5]), np.array([1]))


def test_axis_alphabet():
    opts = c17._axis_alphabet(2, True)
    axes = [o.get('axis', 'absent') for o in opts]
    for want in ('absent', None, 0, 1, -1, -2, (), (0,), (1,), (0, 1), (0, -1), (-1,), (1, 0)):
        assert want in axes, want
    opts3 = [o.get('axis', 'absent') for o in c17._axis_alphabet(3, False)]
    for r in range(4):
        for sub in itertools.combinations(range(3), r):
            assert tuple(sub) in opts3
    tags = c17._axis_tags
    assert tags({'axis': -1}) == ['axis<0'] and tags({'axis': 1}) == []
    assert sorted(tags({'axis': (0, -1), 'keepdims': True})) == ['axis<0', 'axis=tuple', 'keepdims']
    assert tags({'axis': ()}) == ['axis=()'] and tags({'axis': None}) == ['axis=None']
    assert tags({'keepdims': False}) == []


def test_numpy_facts():
    # facts about the reference model the oracle relies on
    a = np.array([[1.0, 2, 3], [4, 5, 6]])
    assert np.add.reduce(a).tolist() == [5.0, 7.0, 9.0]                 # default axis is 0
    assert np.add.reduce(a, axis=-1).tolist() == [6.0, 15.0]
    assert np.add.reduce(a, axis=()).tolist() == a.tolist()
    assert np.isscalar(np.add.reduce(a, axis=None)) and np.add.reduce(a, axis=None) == 21.0
    o = np.zeros(())
    assert np.add.reduce(a, axis=None, out=o) is o and o == 21.0         # 0-d out is legal
    assert np.add.accumulate(a, axis=1).tolist() == [[1, 3, 6], [4, 9, 15]]
    assert np.add.outer(np.array([0.0, 3]), np.array([1.0, 2, 3])).tolist() == [[1, 2, 3], [4, 5, 6]]
    assert np.add.reduceat(np.array([1.0, 2, 3]), [0, 1]).tolist() == [1.0, 5.0]
    b = np.array([1.0, 2, 3])
    assert np.add.at(b, [0, 0, 2], 1.0) is None and b.tolist() == [3.0, 2.0, 4.0]
    f, i = np.modf(np.array([1.5, -2.25]))
    assert f.tolist() == [0.5, -0.25] and i.tolist() == [1.0, -2.0]
    out64 = np.zeros(2)
    r = np.add(np.array([1.0, 2]), np.array([0.5, 0.25]), out=out64, dtype='float32')
    assert r is out64 and out64.tolist() == [1.5, 2.25]                 # dtype= with a wider out
    try:
        np.add(np.array([1.0]), np.array([1.0]), out=np.zeros(1), dtype=complex)
        raise AssertionError('NumPy should refuse complex -> float output')
    except TypeError:
        pass
    assert len(c17.UFUNCS) >= 80 and 'matmul' in c17.GUFUNCS
    assert c17._result_tag('f', 'b') == 'result=bool' and c17._result_tag('i', 'f') == 'result=float'
    assert c17._result_tag('f', 'c') is None and c17._result_tag('f', 'i') == 'result=nonfloat'


def test_special_fills():
    # mixed special values: every ordered pair of distinct leaf positions, literal contents
    f = c17.fill('float64', (2, 3), 'mx:z:pinf:0:3')
    assert f.tolist() == [[0.0, -2.0, 3.0], [np.inf, -0.25, 4.0]]
    f = c17.fill('float64', (2, 3), 'mx:z:pinf:3:0')
    assert f.tolist() == [[np.inf, -2.0, 3.0], [0.0, -0.25, 4.0]]
    f = c17.fill('float64', (2, 3), 'mx:ninf:nan:5:0')
    assert np.isnan(f[0, 0]) and f[1, 2] == -np.inf and np.isfinite(f).sum() == 4
    f = c17.fill('float64', (3,), 'mx:nz:pinf:0:2')
    assert f.tolist() == [0.0, -2.0, np.inf] and np.signbit(f[0])
    c = c17.fill('complex128', (2, 3), 'mx:z:pinf:0:3')
    assert c[0, 0] == 0 and c[1, 0] == complex(np.inf, 0) and c[0, 1] == -2.0 + 2j
    names = c17.special_fills('float64', (2, 3))
    assert c17._special_positions((2, 3)) == [0, 3, 5]
    assert c17._special_positions((2, 2, 3)) == [0, 3, 6, 9, 11]
    assert c17._special_positions((3,)) == [0, 1, 2]
    for v, w in c17.MIXED_SPECIALS:
        for i, j in ((0, 3), (3, 0), (0, 5), (5, 0), (3, 5), (5, 3)):
            assert 'mx:%s:%s:%d:%d' % (v, w, i, j) in names
    assert len(names) == len(set(names)) == 3 + 5 + 6 * len(c17.MIXED_SPECIALS)
    assert c17.special_fills('int64', (2, 3)) == [] and c17.special_fills('bool', (3,)) == []
    # the NumPy facts these fills are about
    with np.errstate(all='ignore'):
        assert np.isnan(np.prod(c17.fill('float64', (2, 3), 'mx:z:pinf:0:3')))
        assert np.isnan(np.prod(c17.fill('float64', (2, 3), 'mx:z:nan:3:0')))
        assert np.isnan(np.sum(c17.fill('float64', (2, 3), 'mx:pinf:ninf:0:5')))
        assert np.isnan(np.min(c17.fill('float64', (2, 3), 'mx:ninf:nan:0:3')))
        assert np.isnan(np.max(c17.fill('float64', (2, 3), 'mx:pinf:nan:0:3')))


def test_other_dtype_operands():
    for dt in c17.DTYPES:
        ops = c17.other_dtype_operands(dt)
        arr_dts = sorted(o[2] for o in ops if o[0] == 'AD')
        assert arr_dts == sorted(d for d in c17.DTYPES if d != dt)      # every other dtype
        assert sorted(o[2] for o in ops if o[0] == 'LD') == arr_dts
        assert sorted(o[2] for o in ops if o[0] == 'S0') == sorted(c17.DTYPES)
        assert sorted(np.dtype(type(o[1])).name for o in ops if o[0] == 'SN') == \
            sorted(c17.DTYPES)
        py = [o[1] for o in ops if o[0] == 'SD']
        assert all(type(v) in (bool, int, float, complex) for v in py)
        assert type(c17.OTHER_SCALAR[dt]) not in [type(v) for v in py if v != 1e300]
        leaf = c17.other_dtype_operands(dt, leaf=True)
        assert not [o for o in leaf if o[0] in ('AD', 'LD')]
        assert sorted(o[2] for o in leaf if o[0] == 'CD') == arr_dts
    # int element: the float operands carry fractions (a conversion to int would show)
    ops = c17.other_dtype_operands('int64')
    assert 2.5 in [o[1] for o in ops if o[0] == 'SD'] and (0.5 + 2j) in [o[1] for o in ops]
    ctx = c17.Ctx('t3', 'int64')
    o, r, a = c17.mk_operand(ctx, ('AD', 'b1', 'float64'))
    assert o.dtype == np.float64 and o.tolist() == [2.0, 0.5, 1.0] and o is not r
    o, r, a = c17.mk_operand(ctx, ('LD', 'b1', 'float64'))
    assert o == [2.0, 0.5, 1.0] and type(o[1]) is float
    o, r, a = c17.mk_operand(ctx, ('S0', 2.5, 'float32'))
    assert o.shape == () and o.dtype == np.float32 and o == 2.5
    # the NumPy facts (1.x promotion) the legacy-interface clause is compared against
    assert np.add(np.array([1, 4, 9]), 0.5).dtype == np.float64
    assert np.less(np.array([1, 4, 9]), 4.5).tolist() == [True, True, False]
    assert np.add(np.ones(3, 'float32'), np.array([0.1, 0.2, 0.3])).dtype == np.float64
    assert np.multiply(np.ones(3), 1j).dtype == np.complex128
    assert 1e300 in [o[1] for o in c17.other_dtype_operands('float32')]


def test_minimal_reporting():
    ctx = c17.Ctx('t3', 'float64')
    ctx.fail('reduce', ['axis<0'], 'raises:ValueError', 'a')
    ctx.fail('reduce', ['axis<0', 'dtype'], 'raises:ValueError', 'b')       # superset: dropped
    ctx.fail('reduce', ['dtype'], 'values_differ', 'c')                     # other symptom: kept
    ctx.fail('reduce', ['axis<0'], 'raises:ValueError', 'd')                # duplicate: dropped
    ctx.evals = 4
    res = ctx.result()
    got = sorted((v['site'], v['symptom'], v['detail']) for v in res['viol'])
    assert got == [('NumpyTensor[reduce;axis<0]', 'raises:ValueError', 'a'),
                   ('NumpyTensor[reduce;dtype]', 'values_differ', 'c')], got


if __name__ == '__main__':
    for name, fn in sorted(globals().items()):
        if name.startswith('test_') and callable(fn):
            fn()
            print('ok', name)
