"""Self-test of the C04 reference model (mc/ref/opalgebra.py) against hand-computed literals.

Run:  cd /verif && /venv/bin/python tests/test_c04_ref.py     (needs numpy only, not odl)
"""
import os
import sys

import numpy as np

sys.path.insert(0, os.path.dirname(os.path.dirname(os.path.abspath(__file__))))
from mc.ref import opalgebra as A  # noqa: E402


def eq(a, b):
    a = np.asarray(a, dtype=complex)
    b = np.asarray(b, dtype=complex)
    assert a.shape == b.shape and np.array_equal(a, b), '\n%s\n!=\n%s' % (a, b)


def L(n):
    return ['L', n]


def main():
    x = np.array([1.0, -2.0, 0.5])
    ev = A.ref_eval
    # leaves (documented formulas, by hand)
    eq(ev(L('Id3'), x), [1, -2, 0.5])
    eq(ev(L('Sc3'), x), [2, -4, 1])
    eq(ev(L('Mat33'), x), [1 - 4, 2 + 0.25, 2 + 0.5])          # M33 @ x
    eq(ev(L('Mul3'), x), [1, 4, 0.25])
    eq(ev(L('Pow3'), x), [1, 4, 0.25])
    eq(ev(L('SeqDiff3'), x), [-3, 2.5, 0.5])                    # cyclic forward difference
    eq(ev(['pow', L('SeqDiff3'), 3], x), [-7.5, -1.5, 9])       # -3,2.5,.5 -> 5.5,-2,-3.5 -> -7.5,-1.5,9
    eq(ev(['comptmp', L('Pow3'), L('Sc3')], x), [4, 16, 1])
    eq(ev(['sumtmp', L('Pow3'), L('Id3')], x), [2, 2, 0.75])
    eq(ev(['rsmultmp', L('Pow3'), '2'], x), [4, 16, 1])
    assert not A.alias_safe(['lsmul', '2', L('SeqDiff3')]) and A.alias_safe(L('Pow3'))
    assert A.marker(['neg', L('SeqDiff3')]) == '/unsafeleaf'
    eq(ev(L('Abs3'), x), [1, 2, 0.5])
    eq(ev(L('Const3'), x), [1, -0.5, 2])
    eq(ev(L('Aff3'), x), [0.5 - 0.5 + 1, 1 - 2 - 0.5, -4 - 0.25 + 2])
    eq(ev(L('Mat23'), x), [1 + 2 + 1, 0.5 + 0.5])
    eq(ev(L('Mat32'), np.array([2.0, -0.5])), [2, 4.5, -0.25])
    eq(ev(L('L2sq3'), x), 5.25)
    eq(ev(L('L2sqT3'), x), 0 + 2.25 + 2.25)
    eq(ev(L('L1_3'), x), 3.5)
    eq(ev(L('QF3'), x), 2 + 2 + 0.25)
    eq(ev(L('IP3'), x), 4.25)
    eq(ev(L('Norm3'), np.array([2.0, -1.0, 2.0])), 3.0)
    eq(ev(L('PowR'), -0.5), 0.25)
    eq(ev(L('MulR3'), 2.0), [4, -2, 1])
    z = np.array([1 - 1j, 2j])
    eq(ev(L('ScC'), z), [1 + 1j, -2])
    eq(ev(L('MatCC'), z), [1 - 1j - 2, -1 + 1j + 4j])
    eq(ev(L('PowC'), z), [-2j, -4])
    eq(ev(L('ModSqC'), z), [2, 4])
    eq(ev(L('ReC'), z), [1, 0])
    eq(ev(L('EmbC'), np.array([2.0, -0.5])), [2, -0.5])
    eq(ev(L('L2sqC'), z), 6)
    eq(ev(L('IPC'), z), (1 - 1j) * (1 - 1j) + 2j * (-2))         # sum x * conj(v)
    # the table, one line each, on the nonlinear leaf Pow3 (x -> x**2) where sides matter
    P = L('Pow3')
    eq(ev(['lsmul', '2', P], x), [2, 8, 0.5])                    # a * A(x)
    eq(ev(['rsmul', P, '2'], x), [4, 16, 1])                     # A(a x)
    eq(ev(['div', P, '2'], x), [0.25, 1, 0.0625])                # A(x / a)
    eq(ev(['adds', P, '2'], x), [3, 6, 2.25])
    eq(ev(['ssub', '2', P], x), [1, -2, 1.75])
    eq(ev(['subs', P, '2'], x), [-1, 2, -1.75])
    eq(ev(['lvmul', 'v3', P], x), [2, -4, 0.125])                # v * A(x), v = (2,-1,.5)
    eq(ev(['rvmul', P, 'v3'], x), [4, 4, 0.0625])                # A(v x)
    eq(ev(['addv', P, 'w3'], x), [0, 4, 3.25])                   # w = (-1, 0, 3)
    eq(ev(['vsub', 'w3', P], x), [-2, -4, 2.75])
    eq(ev(['subv', P, 'w3'], x), [2, 4, -2.75])
    eq(ev(['neg', P], x), [-1, -4, -0.25])
    eq(ev(['pos', P], x), [1, 4, 0.25])
    eq(ev(['pow', P, 1], x), [1, 4, 0.25])
    eq(ev(['pow', P, 3], x), [1, 256, 0.5 ** 8])
    eq(ev(['add', P, L('Id3')], x), [2, 2, 0.75])
    eq(ev(['sub', P, L('Id3')], x), [0, 6, -0.25])
    eq(ev(['pwprod', P, L('Id3')], x), [1, -8, 0.125])
    eq(ev(['comp', P, L('Sc3')], x), [4, 16, 1])                 # A(B(x))
    eq(ev(['comp', L('Sc3'), P], x), [2, 8, 0.5])
    eq(ev(['matmul', L('Sc3'), P], x), [2, 8, 0.5])
    eq(ev(['lvmul', 'v2', L('L1_3')], x), [1.75, -7])            # functional left vector mult
    eq(ev(['rsmul', L('L2sqT3'), '0'], x), 1 + 0.25 + 4)         # f(0 * x) = f(0)
    eq(ev(['comp', ['rsmul', P, '2'], L('Mat33')], x), [36, 20.25, 25])     # (A*a)*B = A(a B x)
    eq(ev(['rsmul', L('ReC'), '1j'], z), [1, -2])                # Re(i z)
    # leaves that hand back their argument, extended scalars (values by hand; the reference uses
    # the mathematical value as a Python float / complex whatever type the user passes)
    eq(ev(L('Re3'), x), [1, -2, 0.5])
    eq(ev(L('View3'), x), [1, -2, 0.5])
    assert ev(L('Re3'), x) is not x and not np.shares_memory(ev(L('View3'), x), x)
    eq(ev(['add', L('Re3'), P], x), [2, 2, 0.75])
    t, h = 2.0 ** -30, 2.0 ** 30
    eq(ev(['lsmul', 'tiny', P], x), [t, 4 * t, 0.25 * t])
    eq(ev(['rsmul', P, 'tiny'], x), [t * t, 4 * t * t, 0.25 * t * t])
    eq(ev(['div', P, 'tiny'], x), [h * h, 4 * h * h, 0.25 * h * h])
    eq(ev(['lsmul', 'huge', ['lsmul', 'tiny', L('L2sq3')]], x), 5.25)
    eq(ev(['div', ['rsmul', L('L1_3'), 'tiny'], 'tiny'], x), 3.5)
    eq(ev(['lsmul', 'near1', L('L2sq3')], x), 5.25 + 5.25 * 2.0 ** -20)
    eq(ev(['lsmul', 'tinyj', L('L2sqC')], z), 6j * t)
    eq(ev(['lsmul', 'f64:2', P], x), [2, 8, 0.5])
    eq(ev(['ssub', 'i64:-1', P], x), [-2, -5, -1.25])
    eq(ev(['rsmul', L('L2sqT3'), 'f64:0'], x), 5.25)
    eq(ev(['rsmul', L('ReC'), 'c128:1j'], z), [1, -2])
    for k, v in A.SCALAR_VALUE.items():
        assert type(v) in (float, complex) and v == A.SCALARS[k], k
        assert eval(A.SCALAR_SRC[k], {'np': np}) == A.SCALARS[k], k
        assert type(eval(A.SCALAR_SRC[k], {'np': np})) is type(A.SCALARS[k]), k
    assert A.SCALAR_VALUE['tiny'] == 1.0 / 1073741824 and A.SCALAR_VALUE['tiny'] < 1e-8
    assert A.overload(['lsmul', 'f64:0', P]) == '0*A' and A.scalar_regime(['rsmul', P, 'tiny']) == ';a=tiny'
    assert A.scalar_regime(['rsmul', P, '2']) == '' and A.scalar_regime(['neg', P]) == ''
    # typing
    T = A.typeof
    assert T(['lsmul', 'tinyj', P]) is None and T(['lsmul', 'c128:1j', L('PowC')]) is not None
    assert T(['div', P, 'f64:0']) is None and T(['div', P, 'tiny'])[:3] == ('R3', 'R3', False)
    assert T(['lsmul', '1j', P]) is None and T(['rsmul', L('ReC'), '1j'])[:2] == ('C2', 'R2')
    assert T(['lsmul', '1j', L('ReC')]) is None
    assert T(['comp', P, L('Mat23')]) is None and T(['comp', L('Mat23'), P])[:2] == ('R3', 'R2')
    assert T(['pow', L('Mat23'), 2]) is None and T(['pow', L('Mat23'), 1]) is not None
    assert T(['lvmul', 'v2', L('L1_3')])[:2] == ('R3', 'R2') and T(['lvmul', 'vc', L('L1_3')]) is None
    assert T(['addv', P, 'v2']) is None and T(['div', P, '0']) is None
    assert T(['add', P, L('Mat33')])[2] is False and T(['add', L('Id3'), L('Mat33')])[2] is True
    assert T(['adds', L('Id3'), '0'])[2] is False and T(['rvmul', L('QF3'), 'v3'])[2] is True
    assert T(['pwprod', L('Id3'), L('Id3')])[2] is False
    # semantic linearity of the reference function
    assert A.ref_is_linear(['comp', L('Mat33'), L('Mul3')], T(['comp', L('Mat33'), L('Mul3')]))
    assert not A.ref_is_linear(L('Abs3'), T(L('Abs3')))
    assert not A.ref_is_linear(L('Aff3'), T(L('Aff3')))
    assert A.ref_is_linear(['lsmul', '0', P], T(P))
    # ... is a statement relative to the size of the values: scaling does not make Pow3 linear
    for a in ('tiny', 'huge', 'near1'):
        assert not A.ref_is_linear(['lsmul', a, P], T(P)), a
        assert not A.ref_is_linear(['lsmul', a, L('Norm3')], T(L('Norm3'))), a
        assert A.ref_is_linear(['lsmul', a, L('Mat33')], T(L('Mat33'))), a
        assert A.ref_is_linear(['rsmul', L('IP3'), a], T(L('IP3'))), a
    assert A.ref_is_linear(['lsmul', 'f64:0', L('Norm3')], T(L('Norm3')))
    # exactness tracking
    tr = A.new_track(); ev(['pow', P, 3], x, tr); assert tr[1] and tr[0] == 256.0
    tr = A.new_track(); ev(L('Norm3'), x, tr); assert not tr[1]
    tr = A.new_track(); ev(['pow', ['pow', P, 3], 3], np.array([-3.0, 0.5, 2.0]), tr); assert not tr[1]
    # enumeration: well-typed, no duplicates
    for pool in (A.FULL, A.REDUCED):
        seen = set()
        for c in A.level(pool, 1):
            assert T(c) is not None
            k = repr(c)
            assert k not in seen, k
            seen.add(k)
    c = L('Pow3')
    rs = A.roots_over(c, A.FULL)
    # extended scalars: every scalar form (no `@` synonyms) as a root; only a*E, E*a, E/a with
    # the magnitude scalars are children of larger expressions
    for a in ('tiny', 'huge', 'near1', 'f64:2', 'i64:-1'):
        for r in (['lsmul', a, c], ['rsmul', c, a], ['div', c, a], ['adds', c, a], ['ssub', a, c]):
            assert r in rs, r
        assert ['lsmatmul', a, c] not in rs
    assert ['lsmul', 'tinyj', c] not in rs and ['lsmul', 'f64:0', c] in rs
    assert ['div', c, 'f64:0'] not in rs
    l1 = A.level(A.FULL, 1)
    assert ['lsmul', 'tiny', c] in l1 and ['div', c, 'huge'] in l1 and ['rsmul', c, 'tiny'] in l1
    assert ['adds', c, 'tiny'] not in l1 and ['lsmul', 'near1', c] not in l1
    assert ['lsmul', 'f64:2', c] not in l1 and ['lsmul', '2', c] in l1
    assert ['add', L('Re3'), c] in A.roots_over(L('Re3'), A.FULL)
    assert ['sumtmp', L('View3'), c] in A.roots_over(L('View3'), A.FULL)
    assert A.alias_safe(['add', L('Re3'), L('View3')])
    assert ['rsmul', c, '1j'] not in rs and ['rsmul', c, '0'] in rs and ['div', c, '0'] not in rs
    assert A.unspecified(['rsmul', L('PowR'), '2']) and not A.unspecified(['lsmul', '2', L('PowR')])
    assert A.src(['comp', ['rsmul', P, '2'], L('Id3')]) == \
        '((odl.PowerOperator(R3, 2) * 2) * odl.IdentityOperator(R3))'
    assert A.overload(['rsmul', P, '0']) == 'A*0' and A.overload(['lsmatmul', '0', P]) == '0@A'
    print('test_c04_ref: ok')


if __name__ == '__main__':
    main()
