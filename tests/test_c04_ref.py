"""Self-test of the C04 reference model (mc/ref/opalgebra.py) against hand-computed literals.

Run:  cd /verif && /venv/bin/python tests/test_c04_ref.py     (needs numpy only, not odl)
"""
import os
import sys

import numpy as np

sys.path.insert(0, os.path.dirname(os.path.dirname(os.path.abspath(__file__))))
from mc.ref import opalgebra as A  # noqa: E402


def eq(a, b):
    a = np.asarray(a, dtype=complex)
    b = np.asarray(b, dtype=complex)
    assert a.shape == b.shape and np.array_equal(a, b), '\n%s\n!=\n%s' % (a, b)


def L(n):
    return ['L', n]


def main():
    x = np.array([1.0, -2.0, 0.5])
    ev = A.ref_eval
    # leaves (documented formulas, by hand)
    eq(ev(L('Id3'), x), [1, -2, 0.5])
    eq(ev(L('Sc3'), x), [2, -4, 1])
    eq(ev(L('Mat33'), x), [1 - 4, 2 + 0.25, 2 + 0.5])          # M33 @ x
    eq(ev(L('Mul3'), x), [1, 4, 0.25])
    eq(ev(L('Pow3'), x), [1, 4, 0.25])
    eq(ev(L('SeqDiff3'), x), [-3, 2.5, 0.5])                    # cyclic forward difference
    eq(ev(['pow', L('SeqDiff3'), 3], x), [-7.5, -1.5, 9])       # -3,2.5,.5 -> 5.5,-2,-3.5 -> -7.5,-1.5,9
    eq(ev(['comptmp', L('Pow3'), L('Sc3')], x), [4, 16, 1])
    eq(ev(['sumtmp', L('Pow3'), L('Id3')], x), [2, 2, 0.75])
    eq(ev(['rsmultmp', L('Pow3'), '2'], x), [4, 16, 1])
    assert not A.alias_safe(['lsmul', '2', L('SeqDiff3')]) and A.alias_safe(L('Pow3'))
    assert A.marker(['neg', L('SeqDiff3')]) == '/unsafeleaf'
    eq(ev(L('Abs3'), x), [1, 2, 0.5])
    eq(ev(L('Const3'), x), [1, -0.5, 2])
    eq(ev(L('Aff3'), x), [0.5 - 0.5 + 1, 1 - 2 - 0.5, -4 - 0.25 + 2])
    eq(ev(L('Mat23'), x), [1 + 2 + 1, 0.5 + 0.5])
    eq(ev(L('Mat32'), np.array([2.0, -0.5])), [2, 4.5, -0.25])
    eq(ev(L('L2sq3'), x), 5.25)
    eq(ev(L('L2sqT3'), x), 0 + 2.25 + 2.25)
    eq(ev(L('L1_3'), x), 3.5)
    eq(ev(L('QF3'), x), 2 + 2 + 0.25)
    eq(ev(L('IP3'), x), 4.25)
    eq(ev(L('Norm3'), np.array([2.0, -1.0, 2.0])), 3.0)
    eq(ev(L('PowR'), -0.5), 0.25)
    eq(ev(L('MulR3'), 2.0), [4, -2, 1])
    z = np.array([1 - 1j, 2j])
    eq(ev(L('ScC'), z), [1 + 1j, -2])
    eq(ev(L('MatCC'), z), [1 - 1j - 2, -1 + 1j + 4j])
    eq(ev(L('PowC'), z), [-2j, -4])
    eq(ev(L('ModSqC'), z), [2, 4])
    eq(ev(L('ReC'), z), [1, 0])
    eq(ev(L('EmbC'), np.array([2.0, -0.5])), [2, -0.5])
    eq(ev(L('L2sqC'), z), 6)
    eq(ev(L('IPC'), z), (1 - 1j) * (1 - 1j) + 2j * (-2))         # sum x * conj(v)
    # the table, one line each, on the nonlinear leaf Pow3 (x -> x**2) where sides matter
    P = L('Pow3')
    eq(ev(['lsmul', '2', P], x), [2, 8, 0.5])                    # a * A(x)
    eq(ev(['rsmul', P, '2'], x), [4, 16, 1])                     # A(a x)
    eq(ev(['div', P, '2'], x), [0.25, 1, 0.0625])                # A(x / a)
    eq(ev(['adds', P, '2'], x), [3, 6, 2.25])
    eq(ev(['ssub', '2', P], x), [1, -2, 1.75])
    eq(ev(['subs', P, '2'], x), [-1, 2, -1.75])
    eq(ev(['lvmul', 'v3', P], x), [2, -4, 0.125])                # v * A(x), v = (2,-1,.5)
    eq(ev(['rvmul', P, 'v3'], x), [4, 4, 0.0625])                # A(v x)
    eq(ev(['addv', P, 'w3'], x), [0, 4, 3.25])                   # w = (-1, 0, 3)
    eq(ev(['vsub', 'w3', P], x), [-2, -4, 2.75])
    eq(ev(['subv', P, 'w3'], x), [2, 4, -2.75])
    eq(ev(['neg', P], x), [-1, -4, -0.25])
    eq(ev(['pos', P], x), [1, 4, 0.25])
    eq(ev(['pow', P, 1], x), [1, 4, 0.25])
    eq(ev(['pow', P, 3], x), [1, 256, 0.5 ** 8])
    eq(ev(['add', P, L('Id3')], x), [2, 2, 0.75])
    eq(ev(['sub', P, L('Id3')], x), [0, 6, -0.25])
    eq(ev(['pwprod', P, L('Id3')], x), [1, -8, 0.125])
    eq(ev(['comp', P, L('Sc3')], x), [4, 16, 1])                 # A(B(x))
    eq(ev(['comp', L('Sc3'), P], x), [2, 8, 0.5])
    eq(ev(['matmul', L('Sc3'), P], x), [2, 8, 0.5])
    eq(ev(['lvmul', 'v2', L('L1_3')], x), [1.75, -7])            # functional left vector mult
    eq(ev(['rsmul', L('L2sqT3'), '0'], x), 1 + 0.25 + 4)         # f(0 * x) = f(0)
    eq(ev(['comp', ['rsmul', P, '2'], L('Mat33')], x), [36, 20.25, 25])     # (A*a)*B = A(a B x)
    eq(ev(['rsmul', L('ReC'), '1j'], z), [1, -2])                # Re(i z)
    # typing
    T = A.typeof
    assert T(['lsmul', '1j', P]) is None and T(['rsmul', L('ReC'), '1j'])[:2] == ('C2', 'R2')
    assert T(['lsmul', '1j', L('ReC')]) is None
    assert T(['comp', P, L('Mat23')]) is None and T(['comp', L('Mat23'), P])[:2] == ('R3', 'R2')
    assert T(['pow', L('Mat23'), 2]) is None and T(['pow', L('Mat23'), 1]) is not None
    assert T(['lvmul', 'v2', L('L1_3')])[:2] == ('R3', 'R2') and T(['lvmul', 'vc', L('L1_3')]) is None
    assert T(['addv', P, 'v2']) is None and T(['div', P, '0']) is None
    assert T(['add', P, L('Mat33')])[2] is False and T(['add', L('Id3'), L('Mat33')])[2] is True
    assert T(['adds', L('Id3'), '0'])[2] is False and T(['rvmul', L('QF3'), 'v3'])[2] is True
    assert T(['pwprod', L('Id3'), L('Id3')])[2] is False
    # semantic linearity of the reference function
    assert A.ref_is_linear(['comp', L('Mat33'), L('Mul3')], T(['comp', L('Mat33'), L('Mul3')]))
    assert not A.ref_is_linear(L('Abs3'), T(L('Abs3')))
    assert not A.ref_is_linear(L('Aff3'), T(L('Aff3')))
    assert A.ref_is_linear(['lsmul', '0', P], T(P))
    # exactness tracking
    tr = A.new_track(); ev(['pow', P, 3], x, tr); assert tr[1] and tr[0] == 256.0
    tr = A.new_track(); ev(L('Norm3'), x, tr); assert not tr[1]
    tr = A.new_track(); ev(['pow', ['pow', P, 3], 3], np.array([-3.0, 0.5, 2.0]), tr); assert not tr[1]
    # enumeration: well-typed, no duplicates
    for pool in (A.FULL, A.REDUCED):
        seen = set()
        for c in A.level(pool, 1):
            assert T(c) is not None
            k = repr(c)
            assert k not in seen, k
            seen.add(k)
    c = L('Pow3')
    rs = A.roots_over(c, A.FULL)
    assert ['rsmul', c, '1j'] not in rs and ['rsmul', c, '0'] in rs and ['div', c, '0'] not in rs
    assert A.unspecified(['rsmul', L('PowR'), '2']) and not A.unspecified(['lsmul', '2', L('PowR')])
    assert A.src(['comp', ['rsmul', P, '2'], L('Id3')]) == \
        '((odl.PowerOperator(R3, 2) * 2) * odl.IdentityOperator(R3))'
    assert A.overload(['rsmul', P, '0']) == 'A*0' and A.overload(['lsmatmul', '0', P]) == '0@A'
    print('test_c04_ref: ok')


if __name__ == '__main__':
    main()
