"""Self-test of the C15 reference model (mc/ref/interp_ref.py) against hand-computed literals
and against the literal numbers printed in the odl docstrings (typed in here, not computed).

Run:  cd /verif && /venv/bin/python tests/test_c15_ref.py     (needs numpy only, not odl)
"""
import os
import sys
from fractions import Fraction as F

import numpy as np

sys.path.insert(0, os.path.dirname(os.path.dirname(os.path.abspath(__file__))))
from mc.ref import interp_ref as R  # noqa: E402


def close(a, b, tol=1e-12):
    a = np.asarray(a, dtype=float)
    b = np.asarray(b, dtype=float)
    assert a.shape == b.shape and np.all(np.abs(a - b) <= tol), '\n%s\n!=\n%s' % (a, b)


def main():
    c = [0.0, 1.0, 3.0]
    # --- nearest: closest node, right neighbour on ties, constant outside
    assert R.axis_weights(c, 0.25, 'nearest') == [1, 0, 0]
    assert R.axis_weights(c, 0.5, 'nearest') == [0, 1, 0]        # tie -> right
    assert R.axis_weights(c, 2.0, 'nearest') == [0, 0, 1]        # tie -> right
    assert R.axis_weights(c, 1.875, 'nearest') == [0, 1, 0]
    assert R.axis_weights(c, -7.0, 'nearest') == [1, 0, 0]
    assert R.axis_weights(c, 9.0, 'nearest') == [0, 0, 1]
    assert R.axis_weights([0.5], 0.1, 'nearest') == [1]
    # --- linear inside
    assert R.axis_weights(c, 0.25, 'linear') == [F(3, 4), F(1, 4), 0]
    assert R.axis_weights(c, 1.0, 'linear') == [0, 1, 0]
    assert R.axis_weights(c, 0.0, 'linear') == [1, 0, 0]
    assert R.axis_weights(c, 3.0, 'linear') == [0, 0, 1]
    assert R.axis_weights(c, 2.5, 'linear') == [0, F(1, 4), F(3, 4)]
    # --- linear outside: virtual zero node one neighbouring spacing out
    assert R.axis_weights(c, -0.5, 'linear') == [F(1, 2), 0, 0]     # spacing 1 on the left
    assert R.axis_weights(c, -1.0, 'linear') == [0, 0, 0]
    assert R.axis_weights(c, -1.5, 'linear') is None
    assert R.axis_weights(c, 3.5, 'linear') == [0, 0, F(3, 4)]      # spacing 2 on the right
    assert R.axis_weights(c, 5.0, 'linear') == [0, 0, 0]
    assert R.axis_weights(c, 5.5, 'linear') is None
    assert R.axis_weights([0.5], 0.5, 'linear') == [1]          # at the only node
    assert R.axis_weights([0.5], 0.75, 'linear') is None

    # --- literals of the odl docstrings (linear_interpolator, nearest_interpolator, 1d)
    cv = [0.2, 0.6, 1.0, 1.4, 1.8]
    f = np.array([1.0, 2.0, 3.0, 4.0, 5.0])
    W, ok = R.axis_matrix(cv, [0.3, 0.6, 1.3, 1.9], 'linear')
    assert ok.all()
    close(W @ f, [1.25, 2.0, 3.75, 3.75])
    W, ok = R.axis_matrix(cv, [0.3, 0.6, 1.3, 1.9], 'nearest')
    close(W @ f, [1, 2, 4, 5])

    # --- 2d docstring literals: part = uniform_partition([0, 0], [1, 5], shape=(2, 4))
    cvs = [[0.25, 0.75], [0.625, 1.875, 3.125, 4.375]]
    f2 = np.array([[1, 2, 3, 4], [5, 6, 7, 8]], dtype=float)
    # mesh = sparse_meshgrid([0.0, 0.5, 1.0], [1.5, 3.5])
    W, ok = R.tensor_matrix(cvs, [[0.0, 0.5, 1.0], [1.5, 3.5]], ['linear', 'linear'])
    assert ok.all() and W.shape == (3, 2, 2, 4)
    close(R.apply_weights(W, f2, 2), [[0.85, 1.65], [3.7, 5.3], [2.85, 3.65]])
    W, ok = R.tensor_matrix(cvs, [[0.0, 0.5, 1.0], [1.5, 3.5]], ['linear', 'nearest'])
    close(R.apply_weights(W, f2, 2), [[1.0, 1.5], [4.0, 5.0], [3.0, 3.5]])
    W, ok = R.tensor_matrix(cvs, [[0.0, 0.4, 1.0], [1.5, 3.5]], ['nearest', 'nearest'])
    close(R.apply_weights(W, f2, 2), [[2, 3], [2, 3], [6, 7]])
    # single points of the docstrings
    close((R.point_weights(cvs, [1, 1], ['linear', 'linear']) * f2).sum(), 2.65)
    close((R.point_weights(cvs, [1, 1], ['linear', 'nearest']) * f2).sum(), 2.5)
    close((R.point_weights(cvs, [1, 1], ['nearest', 'nearest']) * f2).sum(), 5.0)
    for pt, lin, mix, nea in [([0.5, 2.0], 4.1, 4.0, 6.0), ([0.0, 4.5], 1.8, 2.0, 4.0),
                              ([0.0, 3.0], 1.45, 1.5, 3.0)]:
        close((R.point_weights(cvs, pt, ['linear', 'linear']) * f2).sum(), lin)
        close((R.point_weights(cvs, pt, ['linear', 'nearest']) * f2).sum(), mix)
        close((R.point_weights(cvs, pt, ['nearest', 'nearest']) * f2).sum(), nea)
    # Resampling docstring: coarse (0,1,3) -> fine (0,1,6), [0,1,0]
    cc = [1 / 6, 0.5, 5 / 6]
    ff = [1 / 12, 3 / 12, 5 / 12, 7 / 12, 9 / 12, 11 / 12]
    W, ok = R.axis_matrix(cc, ff, 'linear')
    close(W @ np.array([0.0, 1.0, 0.0]), [0, 0.25, 0.75, 0.75, 0.25, 0])
    W, ok = R.axis_matrix(cc, ff, 'nearest')
    close(W @ np.array([0.0, 1.0, 0.0]), [0, 0, 1, 1, 0, 0])

    # --- weights sum to one inside the hull, product structure, unspecified mask
    W, ok = R.tensor_matrix([c, [0.0, 2.0]], [[0.25, 3.0, -2.0], [1.0, 2.5]],
                            ['linear', 'linear'])
    assert ok.tolist() == [[True, True], [True, True], [False, False]]
    close(W[0, 0], [[0.375, 0.375], [0.125, 0.125], [0, 0]])
    close(W[1, 1], [[0, 0], [0, 0], [0, 0.75]])      # t=2.5 on [0, 2]: last node, 1 - 0.5/2
    close(W[:2, 0].sum(axis=(1, 2)), [1, 1])

    # --- sampling loop and point alphabets
    s = R.sample([[0.0, 1.0], [0.5, 1.5, 2.5]], lambda p: p[0] + 2 * p[1], float)
    close(s, [[1, 3, 5], [2, 4, 6]])
    s = R.sample([[0.0, 1.0]], lambda p: 1j * p[0] + 2, complex)
    assert s.tolist() == [2, 2 + 1j]
    assert R.axis_points([0.0, 1.0, 3.0]) == [0.0, 1.0, 3.0, 0.5, 0.25, 0.75, 2.0, 1.5, 2.5,
                                              -0.5, 4.0, -0.25, 3.5]
    assert R.axis_points([0.0, 2.0], far=True)[-2:] == [-2.0, 4.0]
    assert R.axis_points([0.5], outside=False) == [0.5]
    assert R.axis_points([0.0, 2.0], cells=(1.5, 10))[-4:] == [-3.0, 5.0, -20.0, 22.0]
    assert R.axis_weights(c, 4.5, 'nearest') == [0, 0, 1] and R.axis_weights(c, 13.0, 'linear') is None
    assert R.is_tie([0.1, 0.4, 1.0], 0.25) and not R.is_tie([0.1, 0.4, 1.0], 0.4)
    assert R.nearest_select([c], [[0.5, 0.25, 7.0]]) == [[1, 0, 2]]
    assert R.axis_points([0.5], unit=0.25)[1:] == [0.375, 0.625, 0.4375, 0.5625]
    # --- magnitude regimes: exact images of a grid, same weights
    assert R.transform([0.0, 1.0, 3.0], 2.0 ** -30, 0.0) == [0.0, 2.0 ** -30, 3 * 2.0 ** -30]
    assert R.transform([0.5, 1.5], 1.0, 2.0 ** 20) == [1048576.5, 1048577.5]
    assert R.transform([0.1], 1.0, 2.0 ** 20) is None            # 2^20 + 0.1 is rounded
    assert R.transform([0.1, 0.4], 2.0 ** 30) == [0.1 * 2 ** 30, 0.4 * 2 ** 30]
    ct = R.transform(c, 2.0 ** -30, 0.0)
    assert R.axis_weights(ct, 2.5 * 2.0 ** -30, 'linear') == [0, F(1, 4), F(3, 4)]
    assert R.axis_weights(ct, -0.25 * 2.0 ** -30, 'linear') == [F(3, 4), 0, 0]
    cf = R.transform(c, 1.0, 2.0 ** 20)
    assert R.axis_weights(cf, 2.0 ** 20 + 2.0, 'nearest') == [0, 0, 1]
    assert R.axis_weights(cf, 2.0 ** 20 + 3.5, 'linear') == [0, 0, F(3, 4)]
    # --- orders of a point list: first, third and last of five points inside the hull
    o = R.orderings(5, [True, False, True, False, True])
    assert o['reversed'] == [4, 3, 2, 1, 0]
    assert o['outside in the middle'] == [0, 1, 3, 2, 4]
    assert o['outside first'] == [1, 3, 0, 2, 4]
    assert o['rotated'] == [2, 3, 4, 0, 1] and o['interleaved'] == [0, 2, 4, 1, 3]
    assert all(sorted(v) == [0, 1, 2, 3, 4] for v in o.values())
    assert R.orderings(1, [True]) == {}
    print('test_c15_ref: ok')


if __name__ == '__main__':
    main()
