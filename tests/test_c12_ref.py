"""Self-test of the C12 reference model (mc/ref/optim_ref.py) against hand-computed literals and
brute-force minimisation on a lattice.

Run:  cd /verif && /venv/bin/python tests/test_c12_ref.py     (needs numpy only, not odl)
"""
import itertools
import os
import sys

import numpy as np

sys.path.insert(0, os.path.dirname(os.path.dirname(os.path.abspath(__file__))))
from mc.ref import optim_ref as R  # noqa: E402

INF = float('inf')


def close(a, b, tol=1e-13):
    a = np.asarray(a, float)
    b = np.asarray(b, float)
    assert a.shape == b.shape, (a.shape, b.shape)
    assert np.abs(a - b).max() <= tol * max(1.0, np.abs(b).max()), '\n%s\n!=\n%s' % (a, b)


def brute_prox(term, v, sigma, lo=-4.0, hi=4.0, step=0.125):
    """argmin over a lattice of t(z) + ||z - v||_w^2 / (2 sigma)"""
    grid = np.arange(lo, hi + step / 2, step)
    best, arg = INF, None
    for z in itertools.product(grid, repeat=len(v)):
        z = np.array(z)
        val = term.value(z) + np.sum(term.w * (z - v) ** 2) / (2 * sigma)
        if val < best:
            best, arg = val, z
    return arg, best


def main():
    w1 = np.ones(3)
    w = np.array([1.0, 2.0, 0.5])
    # ---- values, by hand
    assert R.L1(w, 2.0).value([1, -2, 4]) == 2.0 * (1 + 4 + 2)
    assert R.L2Sq(w, 0.5).value([1, -2, 4]) == 0.5 * (1 + 8 + 8)
    assert R.L2(w, 3.0).value([2, 0, 0]) == 6.0
    close(R.L2(w).value([1, -2, 4]), np.sqrt(17.0))
    assert R.Box(w1, -1, 2).value([-1, 0, 2]) == 0.0 and R.Box(w1, -1, 2).value([-1, 0, 2.5]) == INF
    close(R.KL(w1, [1, 2, 3]).value([1, 2, 3]), 0.0)
    close(R.KL(np.array([2.0]), [1.0]).value([np.e]), 2 * (np.e - 1 + np.log(1 / np.e)))
    assert R.KL(w1, 1.0).value([1, 0, 1]) == INF
    # group l1 on R^2 x 2 components (component-major): points (3,4) and (0,0)
    g = R.GroupL1(np.array([0.5, 2.0, 0.5, 2.0]), 2, 1.0)
    assert g.value([3, 0, 4, 0]) == 0.5 * 5.0
    assert g.value([0, 3, 0, 4]) == 2.0 * 5.0
    # ---- sub-differentials (Riesz representatives: the weights cancel for separable terms)
    assert R.L1(w, 2.0).sub_dist([1, -2, 0], [2, -2, 1.5]) == 0.0
    close(R.L1(w, 2.0).sub_dist([1, -2, 0], [2, -2, 3.0]), np.sqrt(0.5) * 1.0)
    close(R.L1(w, 2.0).sub_dist([1, -2, 0], [1, -2, 0]), 1.0)
    assert R.L2Sq(w, 0.5).sub_dist([1, -2, 4], [1, -2, 4]) == 0.0
    # d/dz ||z||_w at (3, 0, 8): w z / ||z||_w = W (z/||z||), ||z||_w = sqrt(9 + 32)
    z = np.array([3.0, 0.0, 8.0])
    assert R.L2(w).sub_dist(z, z / np.sqrt(41.0)) <= 1e-15
    assert R.L2(w).sub_dist([0, 0, 0], [1, 0, 0]) == 0.0            # ||s||_w = 1 <= 1
    close(R.L2(w).sub_dist([0, 0, 0], [0, 1, 0]), np.sqrt(2) - 1)    # ||s||_w = sqrt 2
    b = R.Box(w1, -1, 2)
    assert b.sub_dist([-1, 0, 2], [-3, 0, 5]) == 0.0
    assert b.sub_dist([-1, 0, 2], [1, 0, 5]) == 1.0          # positive multiplier at a lower bound
    assert b.sub_dist([-1, 0, 2], [-1, 0.5, 5]) == 0.5       # non-zero multiplier in the interior
    assert b.sub_dist([-2, 0, 2], [0, 0, 0]) == INF
    assert R.KL(w1, [1, 2, 3]).sub_dist([2, 2, 1], [0.5, 0, -2]) == 0.0
    assert R.IndPoint(w1).sub_dist([0, 0, 0], [5, -7, 1]) == 0.0
    assert R.IndPoint(w1).sub_dist([0, 1, 0], [0, 0, 0]) == INF
    # picks are members
    for t, zz in [(R.L1(w, 2.0), [1, 0, -1]), (R.L2(w, 2.0), [0, 0, 0]), (R.L2(w, 2.0), [1, 2, 0]),
                  (b, [-1, 0, 2]), (g, [3, 0, 4, 0])]:
        for th in (0.5, -1.0, 0.0):
            assert t.sub_dist(zz, t.pick(zz, th)) <= 1e-15, (t, zz, th)
    # ---- sub-gradient inequality on a lattice: t(u) >= t(z) + <s, u - z>_w
    for t in (R.L1(w, 2.0), R.L2(w, 1.5), R.L2Sq(w, 0.5), R.Shift(R.L1(w), a=[1, 0, -1], c=[0.5, 1, -2]),
              R.KL(w, [1, 2, 3])):
        for zz in ([1.0, 0.5, 2.0], [0.5, 2.0, 1.0]):
            s = t.pick(zz, 0.25)
            for u in itertools.product([0.25, 1.0, 3.0], repeat=3):
                u = np.array(u)
                assert t.value(u) >= t.value(zz) + np.sum(w * s * (u - zz)) - 1e-12
    # ---- prox: closed forms by hand
    close(R.L1(w, 2.0).prox([3, -0.5, 1], 0.5), [2, 0, 0])
    close(R.L2Sq(w, 0.5).prox([3, -1, 2], 2.0), [1, -1.0 / 3, 2.0 / 3])
    close(R.L2(w1, 1.0).prox([3, 0, 4], 2.5), [1.5, 0, 2.0])
    close(R.L2(w1, 1.0).prox([3, 0, 4], 5.0), [0, 0, 0])
    close(b.prox([-3, 0.5, 7], 9.0), [-1, 0.5, 2])
    close(R.IndPoint(w1).prox([1, 2, 3], 1.0), [0, 0, 0])
    # KL: z^2 + (sigma - v) z - sigma g = 0, v = 1, sigma = 1, g = 2 -> z = sqrt 2
    close(R.KL(np.array([3.0]), [2.0]).prox([1.0], 1.0), [np.sqrt(2.0)])
    close(g.prox([3, 0.1, 4, 0.1], 1.0), [3 * 0.8, 0, 4 * 0.8, 0])
    # translation / linear term: prox_{s(t(.-a)+<c,.>)}(v) = a + prox_{st}(v - sc - a)
    sh = R.Shift(R.L1(w1), a=[1, 1, 1], c=[0.5, 0, -0.5])
    close(sh.prox([3, 1.2, 0], 1.0), [1 + 0.5, 1, 1 - 0])   # (3-.5-1)=1.5->.5 ; .2->0 ; (0+.5-1)=-.5->0
    # ---- prox against brute force on a lattice (weighted spaces included)
    w2 = np.array([2.0, 0.5])
    for t, v, sg in [(R.L1(w2, 1.0), [1.5, -0.25], 0.5), (R.L2(w2, 1.0), [2.0, -2.0], 1.0),
                     (R.Box(w2, -1, 0.5), [1.5, -3.0], 2.0),
                     (R.Shift(R.L2Sq(w2, 0.5), a=[1.0, -1.0]), [3.0, 1.0], 1.0),
                     (R.Shift(R.L1(w2), c=[0.5, -1.0]), [1.0, 1.0], 0.5),
                     (R.GroupL1(np.array([2.0, 2.0]), 2, 1.0), [2.0, -1.0], 0.5)]:
        p = t.prox(v, sg)
        arg, best = brute_prox(t, np.array(v), sg)
        val = t.value(p) + np.sum(t.w * (p - v) ** 2) / (2 * sg)
        assert val <= best + 1e-12, (t, p, arg, val, best)
        assert np.abs(p - arg).max() <= 0.125, (t, p, arg)
    # ---- Moreau envelope / infimal convolution with c||.||^2: l1 box (1/2)|.|^2 is the Huber
    # function (z^2/2 for |z| <= 1, |z| - 1/2 beyond), gradient clip(z, -1, 1)
    env = R.Envelope(R.L1(w1, 1.0), 0.5)
    close(env.value([0.5, -3.0, 0.0]), 0.125 + 2.5 + 0.0)
    close(env.grad([0.5, -3.0, 0.0]), [0.5, -1.0, 0.0])
    envw = R.Envelope(R.L1(w, 2.0), 1.0)          # weights cancel in the Riesz gradient
    close(envw.grad([0.5, -3.0, 4.0]), [1.0, -2.0, 2.0])      # 2c z = 1 <= lam; clipped at lam = 2
    close(envw.value([0.5, 0, 0]), 0.25)                      # c z^2 w = 1 * .25 * 1
    for t, v, sg in [(R.Envelope(R.L1(np.array([2.0, 0.5]), 1.0), 0.5), [1.5, -0.25], 0.5),
                     (R.Envelope(R.Shift(R.L1(np.array([2.0, 0.5])), a=[1.0, 0.0]), 1.0),
                      [2.0, -2.0], 2.0)]:
        pp = t.prox(v, sg)
        arg, best = brute_prox(t, np.array(v), sg)
        val = t.value(pp) + np.sum(t.w * (pp - v) ** 2) / (2 * sg)
        assert val <= best + 1e-12 and np.abs(pp - arg).max() <= 0.125, (pp, arg, val, best)
        # definition of the infimal convolution by brute force over u
        zz = np.array([0.75, -1.5])
        inf = min(t.base.value(np.array(u)) + t.c * np.sum(t.w * (zz - np.array(u)) ** 2)
                  for u in itertools.product(np.arange(-3, 3.01, 0.0625), repeat=2))
        assert abs(inf - t.value(zz)) <= 1e-12, (inf, t.value(zz))
    # ---- linear algebra in weighted spaces
    A = np.array([[1.0, 2.0, 0.0], [0.0, 1.0, -1.0]])
    wy = np.array([2.0, 0.5])
    B = R.adjoint_matrix(A, w, wy)
    for x in np.eye(3):
        for y in np.eye(2):
            close(np.sum(wy * A.dot(x) * y), np.sum(w * x * B.dot(y)))
    close(R.opnorm(np.diag([3.0, 1.0]), [1, 1], [1, 1]), 3.0)
    close(R.opnorm(np.diag([3.0, 1.0]), [9.0, 1.0], [1, 1]), 1.0)     # ||Ax|| / ||x||_w: 3/3, 1/1
    close(R.opnorm(np.array([[1.0, 1.0]]), [1, 1], [4.0]), 2 * np.sqrt(2.0))
    # start (almost) orthogonal to the dominant direction: diag(3, 1) -> e_2 + leak e_1; with
    # wx = (9, 1) the quotients are 3/3 and 1/1 - taken apart by wx = (16, 1): 3/4 < 1, so the
    # dominant unit vector is e_2 and the weak one e_1 / 4; wide matrix: weak direction in the kernel
    close(R.weak_start(np.diag([3.0, 1.0]), [1, 1], [1, 1], 0.25), [0.25, 1.0])
    close(R.weak_start(np.diag([3.0, 1.0]), [16.0, 1.0], [1, 1], 0.5), [0.25, 0.5])
    v = R.weak_start(np.array([[1.0, 1.0]]), [1, 1], [4.0], 0.0)
    close(np.abs(v), [np.sqrt(0.5)] * 2)
    close(v[0] + v[1], 0.0)
    # ---- a hand-solved problem: min ||x - a||^2 + ||Dx||_1, a = (1, 2, -1), D = forward differences
    # Guess x2 > x3 (y2 = -1) and x1 = x2 (y1 free in [-1, 1]).  Stationarity 2(x - a) = -D^T y with
    # -D^T y = (y1, -y1 + y2, -y2) gives x = a + (y1, -y1 - 1, 1) / 2; x1 = x2 forces y1 = 1/2, hence
    # x* = (1.25, 1.25, -0.5), y* = (0.5, -1), D x* = (0, -1.75): consistent with the guess.
    D = np.array([[-1.0, 1.0, 0.0], [0.0, -1.0, 1.0]])
    P = R.Problem(R.Shift(R.L2Sq(w1, 1.0), a=[1, 2, -1]), R.L1(np.ones(2)), D, w1, np.ones(2))
    xs = np.array([1.25, 1.25, -0.5])
    # a wrong dual certificate (wrong sign of y1) must be rejected by the reference ...
    assert max(P.kkt_exact(xs, np.array([-0.5, -1.0]))) > 0.1
    # ... and so must a wrong primal point with the right dual
    assert max(P.kkt_exact(np.array([1.0, 1.5, -0.5]), np.array([0.5, -1.0]))) > 0.1
    ys = np.array([0.5, -1.0])
    assert max(P.kkt_exact(xs, ys)) == 0.0
    assert P.residual(xs, ys) == 0.0
    assert P.residual(xs + [1e-3, 0, 0], ys) > 1e-4
    close(P.objective(xs), 0.0625 + 0.5625 + 0.25 + 0 + 1.75)
    # brute force: no lattice point is better
    best = min(P.objective(np.array(z)) for z in
               itertools.product(np.arange(-2, 2.01, 0.25), repeat=3))
    assert best >= P.objective(xs) - 1e-12
    # smooth data term: gradient is the Riesz representative
    q = R.QuadData(w, A, [1.0, -1.0], wy, 0.5)
    x0 = np.array([0.5, -1.0, 2.0])
    gr = q.grad(x0)
    for e in np.eye(3):
        fd = (q.value(x0 + 1e-6 * e) - q.value(x0 - 1e-6 * e)) / 2e-6
        assert abs(fd - np.sum(w * gr * e)) <= 1e-7
    close(q.lip, 2 * 0.5 * R.opnorm(A, w, wy) ** 2)
    print('test_c12_ref ok')


if __name__ == '__main__':
    main()
